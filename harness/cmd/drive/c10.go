package main

// C10 — issued tokens authenticate from creation until revocation, and never after.
//
// Random sequences of create / revoke(existing|unknown|admin token|already revoked) /
// create+revoke with a non-admin credential / authenticate (HTTP route, websocket
// connect with a real centrifuge-go client) / restart (close and reopen the same
// SQLite file) / dump against the real stack. The token value the real endpoint
// returns is fed to the Lean model (`tok acreate <hdr> <value>`). Oracle: a
// reference set maintained here.

import (
	"crypto/sha256"
	"encoding/hex"
	"encoding/json"
	"fmt"
	"math/rand"
	"net/http"
	"net/http/httptest"
	"net/url"
	"regexp"
	"sort"
	"strconv"
	"strings"
	"time"

	"github.com/bitcoin-sv/block-headers-service/verifharness/lib"
	"github.com/centrifugal/centrifuge-go"
)

func init() { runners["C10"] = runC10 }

var c10TokenShape = regexp.MustCompile(`^[A-Za-z0-9]{32}$`)

type c10Run struct {
	c      *Ctx
	l      *lib.Lean
	rng    *rand.Rand
	file   string
	admin  string
	rig    *c09Rig
	srv    *httptest.Server
	issued []string        // every value the creation endpoint returned, in order
	live   map[string]bool // the reference set
	ops    []string        // executed symbolic ops (replayable)
	wsN    int
	kinds  map[string]bool
}

func (r *c10Run) open() error {
	rig, err := c09NewRig(lib.StackOpts{File: r.file, UseAuth: true, AdminToken: r.admin}, true)
	if err != nil {
		return err
	}
	r.rig = rig
	r.srv = httptest.NewServer(rig.Engine)
	return nil
}

func (r *c10Run) close() {
	if r.srv != nil {
		r.srv.CloseClientConnections()
		r.srv.Close()
		r.srv = nil
	}
	if r.rig != nil {
		r.rig.Close()
		r.rig = nil
	}
}

func (r *c10Run) fail(what, exp, obs, sig string) {
	ops := append([]string(nil), r.ops...)
	r.c.R.Fail(lib.Failure{Case: fmt.Sprintf("seq of %d ops", len(ops)), Ops: ops, What: what, Expected: exp, Observed: obs, Signature: sig})
}

func (r *c10Run) model(line, impl string) error {
	ans, err := r.l.Ask(line)
	if err != nil {
		return err
	}
	r.c.R.TracesValidated++
	if ans != impl {
		r.c.R.Disagree(lib.Disagreement{Case: line, Ops: append([]string(nil), r.ops...), Op: line, Impl: impl, Model: ans})
	}
	return nil
}

// http decision of a request: "401 <code>" or "pass" (+ class for GET /access)
func (r *c10Run) httpDo(method, target, hdr string, set bool) (string, c09Resp) {
	resp := c09Do(r.rig, method, target, "", set, hdr)
	if resp.Panic != "" {
		return "panic", resp
	}
	if resp.Status == 401 {
		code, _ := c09Structured(resp)
		return "401 " + code, resp
	}
	return "pass", resp
}

// authGet: GET /api/v1/access shows what the middleware put into the context
func (r *c10Run) authGet(hdr string) string {
	d, resp := r.httpDo("GET", c09Prefix+"/access", hdr, true)
	if d != "pass" {
		return d
	}
	var tok struct {
		Token   string `json:"token"`
		IsAdmin bool   `json:"isAdmin"`
	}
	if resp.Status == 200 && json.Unmarshal([]byte(resp.Body), &tok) == nil {
		if tok.IsAdmin {
			return "pass admin"
		}
		return "pass user"
	}
	return fmt.Sprintf("pass status=%d", resp.Status)
}

// wsConnect retries attempts that end without a verdict (timeout / transport error under load).
func (r *c10Run) wsConnect(token string) string {
	r.wsN++
	res := ""
	for attempt := 0; attempt < 3; attempt++ {
		res = r.wsConnectOnce(token)
		if res == "connected" || strings.HasPrefix(res, "rejected") {
			return res
		}
	}
	return res
}

func (r *c10Run) wsConnectOnce(token string) string {
	u := "ws" + strings.TrimPrefix(r.srv.URL, "http") + "/connection/websocket"
	cl := centrifuge.NewJsonClient(u, centrifuge.Config{Token: token, HandshakeTimeout: 10 * time.Second, ReadTimeout: 10 * time.Second, WriteTimeout: 10 * time.Second, Proxy: func(*http.Request) (*url.URL, error) { return nil, nil }})
	defer cl.Close()
	res := make(chan string, 4)
	cl.OnConnected(func(centrifuge.ConnectedEvent) { res <- "connected" })
	cl.OnDisconnected(func(e centrifuge.DisconnectedEvent) { res <- fmt.Sprintf("rejected %d", e.Code) })
	cl.OnError(func(e centrifuge.ErrorEvent) {})
	if err := cl.Connect(); err != nil {
		return "error " + err.Error()
	}
	select {
	case s := <-res:
		if strings.HasPrefix(s, "rejected") {
			if s != "rejected 3500" { // DisconnectInvalidToken
				return s
			}
			return "rejected"
		}
		return s
	case <-time.After(20 * time.Second):
		return "timeout"
	}
}

// expected decision from the reference set (the oracle's statement of the property)
func (r *c10Run) expect(t string) string {
	switch {
	case t == r.admin:
		return "pass admin"
	case r.live[t]:
		return "pass user"
	}
	return "401 ErrInvalidAccessToken"
}

// sweep: every issued token (bounded) and the admin token against the reference set and the model
func (r *c10Run) sweep(why string) error {
	toks := append([]string{r.admin}, r.issued...)
	if len(toks) > 48 {
		toks = append(toks[:1], toks[len(toks)-47:]...)
	}
	for _, t := range toks {
		got := r.authGet("Bearer " + t)
		want := r.expect(t)
		r.c.R.OracleChecked++
		if got != want {
			sig := "c10-validity:" + want + "->" + got
			switch {
			case strings.HasPrefix(want, "pass") && strings.HasPrefix(got, "401"):
				sig = "c10-valid-token-rejected:http"
				if t == r.admin {
					sig = "c10-admin-token-rejected:http"
				}
			case strings.HasPrefix(want, "401") && strings.HasPrefix(got, "pass"):
				sig = "c10-invalid-token-accepted:http"
			}
			r.fail("after "+why+": token validity differs from the reference set (token "+t+")", want, got, sig)
		}
		if err := r.model("tok auth "+c09Hex("Bearer "+t), got); err != nil {
			return err
		}
	}
	return nil
}

func (r *c10Run) pickRef(kind string) string {
	switch kind {
	case "admin":
		return r.admin
	case "unknown":
		// half of the unknown values are near misses of a live token: pattern characters, case variants, prefixes,
		// one changed character — values a sloppy comparison (LIKE, case-insensitive collation, prefix match) would accept
		if len(r.issued) > 0 && r.rng.Intn(2) == 0 {
			t := r.issued[r.rng.Intn(len(r.issued))]
			var cand string
			switch r.rng.Intn(8) {
			case 0:
				cand = "%"
			case 1:
				cand = strings.Repeat("_", len(t))
			case 2:
				cand = t[:len(t)/2] + "%"
			case 3:
				cand = swapCase(t)
			case 4:
				cand = t[:len(t)-1]
			case 5:
				cand = t + "x"
			case 6:
				b := []byte(t)
				i := r.rng.Intn(len(b))
				if b[i] == 'a' {
					b[i] = 'b'
				} else {
					b[i] = 'a'
				}
				cand = string(b)
			default:
				cand = "%" + t[len(t)/2:]
			}
			known := cand == r.admin || cand == ""
			for _, x := range r.issued {
				if x == cand {
					known = true
				}
			}
			if !known {
				r.c.R.Count("unknown:near-miss of a live token", 1)
				return cand
			}
		}
		return c09RandToken(r.rng, 32)
	case "empty":
		return ""
	}
	if strings.HasPrefix(kind, "#") {
		i, err := strconv.Atoi(kind[1:])
		if err == nil && i >= 0 && i < len(r.issued) {
			return r.issued[i]
		}
	}
	return c09RandToken(r.rng, 32)
}

func (r *c10Run) badHeader(kind string) (string, bool) {
	switch kind {
	case "none":
		return "", false
	case "lowercase":
		return "bearer " + r.admin, true
	case "admin-extra":
		return "Bearer " + r.admin + " x", true
	case "unknown":
		return "Bearer " + c09RandToken(r.rng, 32), true
	}
	if strings.HasPrefix(kind, "tok") { // tok#i : some issued token (live or revoked), never the admin token
		return "Bearer " + r.pickRef(kind[3:]), true
	}
	return "Bearer", true
}

// exec runs one symbolic op on the implementation, the model and the oracle.
func (r *c10Run) exec(op string) error {
	r.ops = append(r.ops, op)
	f := strings.Fields(op)
	r.c.R.Count("op:"+f[0], 1)
	adminHdr := "Bearer " + r.admin
	switch f[0] {
	case "create":
		d, resp := r.httpDo("POST", c09Prefix+"/access", adminHdr, true)
		var tok struct {
			Token   string `json:"token"`
			IsAdmin bool   `json:"isAdmin"`
		}
		r.c.R.OracleChecked++
		if d != "pass" || resp.Status != 200 || json.Unmarshal([]byte(resp.Body), &tok) != nil || tok.Token == "" {
			r.fail("POST /api/v1/access with the admin token did not return a token", "200 {token}", fmt.Sprint(resp.Status, " ", resp.Body), "c10-create-failed:"+strconv.Itoa(resp.Status))
			return r.model("tok acreate "+c09Hex(adminHdr)+" x", d)
		}
		for _, old := range r.issued {
			if old == tok.Token {
				r.fail("the creation endpoint returned a value it had returned before", "pairwise distinct tokens", tok.Token, "c10-duplicate-token")
			}
		}
		if tok.Token == r.admin {
			r.fail("the creation endpoint returned the admin token value", "a fresh value", tok.Token, "c10-issued-admin-value")
		}
		if tok.IsAdmin || !c10TokenShape.MatchString(tok.Token) {
			r.fail("created token is not a 32-character alphanumeric non-admin token", "isAdmin=false, [A-Za-z0-9]{32}", resp.Body, "c10-created-token-shape")
		}
		r.issued = append(r.issued, tok.Token)
		r.live[tok.Token] = true
		r.kinds["create"] = true
		if err := r.model("tok acreate "+c09Hex(adminHdr)+" "+c09Hex(tok.Token), "pass admin"); err != nil {
			return err
		}
		return r.sweep(op)
	case "createbad":
		hdr, set := r.badHeader(f[1])
		d, resp := r.httpDo("POST", c09Prefix+"/access", hdr, set)
		r.c.R.OracleChecked++
		if !strings.HasPrefix(d, "401") {
			r.fail("POST /api/v1/access without the admin credential was not answered 401", "401", fmt.Sprint(resp.Status, " ", resp.Body), "c10-nonadmin-create-accepted:"+f[1])
		}
		if err := r.model("tok acreate "+c09Hex(hdr)+" "+c09Hex("never-issued"), d); err != nil {
			return err
		}
		return r.sweep(op)
	case "revoke":
		t := r.pickRef(f[1])
		d, resp := r.httpDo("DELETE", c09Prefix+"/access/"+url.PathEscape(t), adminHdr, true)
		r.c.R.OracleChecked++
		if d != "pass" || resp.Status != 200 {
			r.fail("DELETE /api/v1/access/<token> with the admin token did not answer 200", "200", fmt.Sprint(resp.Status, " ", resp.Body), "c10-revoke-failed:"+f[1]+":"+strconv.Itoa(resp.Status))
		}
		if r.live[t] {
			r.kinds["revoke-live"] = true
		} else {
			r.kinds["revoke-noop"] = true
		}
		delete(r.live, t)
		if d == "pass" {
			d = "pass admin"
		}
		if err := r.model("tok arevoke "+c09Hex(adminHdr)+" "+c09Hex(t), d); err != nil {
			return err
		}
		return r.sweep(op)
	case "revokebad":
		hdr, set := r.badHeader(f[1])
		t := r.pickRef(f[2])
		d, resp := r.httpDo("DELETE", c09Prefix+"/access/"+url.PathEscape(t), hdr, set)
		r.c.R.OracleChecked++
		if !strings.HasPrefix(d, "401") {
			r.fail("DELETE /api/v1/access/<token> without the admin credential was not answered 401", "401", fmt.Sprint(resp.Status, " ", resp.Body), "c10-nonadmin-revoke-accepted:"+f[1])
		}
		if err := r.model("tok arevoke "+c09Hex(hdr)+" "+c09Hex(t), d); err != nil {
			return err
		}
		return r.sweep(op)
	case "auth":
		t := r.pickRef(f[1])
		got := r.authGet("Bearer " + t)
		want := r.expect(t)
		r.c.R.OracleChecked++
		if got != want {
			r.fail("HTTP authentication of token "+t+" differs from the reference set", want, got, "c10-http-auth:"+f[1]+":"+want+"->"+got)
		}
		if !r.live[t] && t != r.admin && strings.HasPrefix(f[1], "#") {
			r.kinds["auth-revoked"] = true
		}
		// any other authenticated route decides the same way
		d2, _ := r.httpDo("GET", c09Prefix+"/chain/tip/longest", "Bearer "+t, true)
		if strings.HasPrefix(d2, "401") != strings.HasPrefix(got, "401") {
			r.fail("two authenticated routes disagree on the same credential", got, d2, "c10-routes-disagree")
		}
		return r.model("tok auth "+c09Hex("Bearer "+t), got)
	case "ws":
		t := r.pickRef(f[1])
		got := r.wsConnect(t)
		want := "rejected"
		if t == r.admin || r.live[t] {
			want = "connected"
		}
		r.c.R.OracleChecked++
		if got != want {
			sig := "c10-ws:" + want + "->" + got
			if want == "connected" {
				sig = "c10-valid-token-rejected:ws"
			} else if got == "connected" {
				sig = "c10-invalid-token-accepted:ws"
			}
			r.fail("websocket connect with token "+t+" differs from the reference set", want, got, sig)
		}
		r.kinds["ws"] = true
		return r.model("tok ws "+c09Hex(t), got)
	case "restart":
		r.close()
		if err := r.open(); err != nil {
			return err
		}
		r.kinds["restart"] = true
		if err := r.model("tok restart", "ok"); err != nil {
			return err
		}
		return r.sweep(op)
	case "dump":
		rows, err := c09TokenRows(r.rig)
		if err != nil {
			return err
		}
		var ref, words []string
		for t := range r.live {
			ref = append(ref, t)
		}
		sort.Strings(ref)
		// the table's CONTENT is the model's abstraction function (compared through `tok dump` below: a difference is a
		// broken correspondence). The property only speaks about which tokens authenticate — how the store represents
		// them (plain, hashed) is not an oracle matter; the oracle checks what the statement implies for the table's size.
		r.c.R.OracleChecked++
		if len(rows) != len(ref) {
			r.fail("the number of rows of the tokens table differs from the number of issued, unrevoked tokens", fmt.Sprint(len(ref)), fmt.Sprint(len(rows)), "c10-table-size-differs-from-set")
		}
		for _, t := range rows {
			words = append(words, c09Hex(t))
		}
		sort.Strings(words)
		impl := strings.Join(words, " ")
		if impl == "" {
			impl = "-"
		}
		return r.model("tok dump", impl)
	}
	return fmt.Errorf("unknown op %q", op)
}

// c10Gen generates one symbolic sequence.
func c10Gen(rng *rand.Rand, n int, wsEvery int) []string {
	var ops []string
	issued := 0
	ref := func() string {
		if issued == 0 {
			return "unknown"
		}
		// recent tokens are more likely (they are the ones still in the sweep window)
		if rng.Intn(3) == 0 {
			return "#" + strconv.Itoa(rng.Intn(issued))
		}
		lo := issued - 6
		if lo < 0 {
			lo = 0
		}
		return "#" + strconv.Itoa(lo+rng.Intn(issued-lo))
	}
	anyRef := func() string {
		switch x := rng.Intn(10); {
		case x < 6:
			return ref()
		case x < 8:
			return "admin"
		default:
			return "unknown"
		}
	}
	bad := func() string {
		k := []string{"none", "lowercase", "admin-extra", "unknown", "scheme-only", "tok" + ref(), "tok" + ref()}
		return k[rng.Intn(len(k))]
	}
	ops = append(ops, "create", "create")
	issued = 2
	for len(ops) < n {
		switch x := rng.Intn(100); {
		case x < 20:
			ops = append(ops, "create")
			issued++
		case x < 25:
			ops = append(ops, "createbad "+bad())
		case x < 39:
			ops = append(ops, "revoke "+ref())
		case x < 43:
			ops = append(ops, "revoke unknown")
		case x < 46:
			ops = append(ops, "revoke admin")
		case x < 51:
			ops = append(ops, "revokebad "+bad()+" "+ref())
		case x < 74:
			ops = append(ops, "auth "+anyRef())
		case x < 74+wsEvery:
			r := anyRef()
			if rng.Intn(12) == 0 {
				r = "empty"
			}
			ops = append(ops, "ws "+r)
		case x < 93:
			ops = append(ops, "restart")
			// across restarts: a live or revoked token right after reopening
			ops = append(ops, "auth "+ref(), "ws "+ref())
		default:
			ops = append(ops, "dump")
		}
	}
	ops = append(ops, "dump")
	return ops
}

func c10RunSeq(c *Ctx, l *lib.Lean, rng *rand.Rand, idx int, ops []string, admin string) error {
	r := &c10Run{c: c, l: l, rng: rng, file: lib.TempDB(fmt.Sprintf("c10-%d.db", idx)), admin: admin, live: map[string]bool{}, kinds: map[string]bool{}}
	if err := r.open(); err != nil {
		return err
	}
	defer func() { r.close() }()
	if _, err := l.Ask(fmt.Sprintf("tok cfg %s 1", c09Hex(admin))); err != nil {
		return err
	}
	for _, op := range ops {
		if err := r.exec(op); err != nil {
			return err
		}
	}
	h := sha256.Sum256([]byte(strings.Join(ops, "\n")))
	nontrivial := r.kinds["create"] && r.kinds["revoke-live"] && r.kinds["auth-revoked"] && r.kinds["restart"]
	c.R.Case(hex.EncodeToString(h[:8]), nontrivial)
	c.R.Evaluations += len(ops) - 1 // evaluations count executed operations; distinct_nontrivial counts sequences
	c.R.Count("sequences", 1)
	c.R.Count("websocket connects", r.wsN)
	if idx < 3 {
		n := len(ops)
		if n > 14 {
			n = 14
		}
		c.R.Sample(map[string]any{"sequence": idx, "first_ops": ops[:n], "issued": len(r.issued), "live_at_end": len(r.live)}, 6)
	}
	return nil
}

// c10SpaceProbe: a configured admin token that contains a space (config.Validate accepts it)
// cannot authenticate over HTTP: the header parser wants exactly two space-separated parts.
// Reported as a Failure only when listed in KNOWN_FINDINGS (then: KNOWN-FINDING), otherwise as a note.
func c10SpaceProbe(c *Ctx, l *lib.Lean, rng *rand.Rand) error {
	const sig = "c10-admin-token-with-space-rejected:http"
	admin := "ad min" + c09RandToken(rng, 8)
	r := &c10Run{c: c, l: l, rng: rng, file: lib.TempDB("c10-space.db"), admin: admin, live: map[string]bool{}, kinds: map[string]bool{}}
	if err := r.open(); err != nil {
		return err
	}
	defer r.close()
	r.ops = []string{"config admin_token=" + strconv.Quote(admin), "auth admin", "ws admin"}
	if _, err := l.Ask(fmt.Sprintf("tok cfg %s 1", c09Hex(admin))); err != nil {
		return err
	}
	got := r.authGet("Bearer " + admin)
	if err := r.model("tok auth "+c09Hex("Bearer "+admin), got); err != nil {
		return err
	}
	ws := r.wsConnect(admin)
	if err := r.model("tok ws "+c09Hex(admin), ws); err != nil {
		return err
	}
	reproduced := strings.HasPrefix(got, "401") && ws == "connected"
	listed := false
	for _, kn := range lib.KnownFor(c.Known, "C10") {
		if kn.Signature == sig {
			listed = true
			if reproduced {
				c.R.KnownReplayed[kn.ID] = "reproduced"
			} else {
				c.R.KnownReplayed[kn.ID] = "not-reproduced"
			}
		}
	}
	if reproduced && listed {
		r.fail("a configured admin token containing a space is rejected on the HTTP API (websocket accepts it)", "pass admin", got, sig)
	}
	c.R.Notes = append(c.R.Notes, fmt.Sprintf("probe (outside the op-sequence quantifier): admin token %q -> HTTP %q, websocket %q; see docs/findings/C10.md (Lean: C10_admin_always_counterexample)", admin, got, ws))
	return nil
}

func runC10(c *Ctx) error {
	rng := lib.Rng(c.Seed, "c10")
	c.R.Rule = "random sequences over {create, create with non-admin credential, revoke existing|unknown|admin token|already revoked, revoke with non-admin credential, " +
		"authenticate on HTTP (GET /api/v1/access + a second route), websocket connect (centrifuge-go client against httptest.NewServer), restart (close + reopen the same SQLite file), dump}; " +
		"after every mutating op and every restart ALL recently issued tokens and the admin token are re-authenticated (validity of the others unchanged); " +
		"evaluations = operations executed, distinct_nontrivial = sequences; a sequence is non-trivial when it has a create, a revoke of a live token, an authentication attempt with a revoked token and a restart; distinct by hash of the op list"
	l := c.lean()
	defer l.Close()
	if c.Replay != "" {
		ops, err := lib.ReadReplayOps(c.Replay)
		if err != nil {
			return err
		}
		var seq []string
		for _, op := range ops {
			if !strings.HasPrefix(op, "config ") {
				seq = append(seq, op)
			}
		}
		if err := c10RunSeq(c, l, rng, 0, seq, "adm"+c09RandToken(rng, 20)); err != nil {
			return err
		}
		c.R.ModelOps = l.Ops
		return nil
	}
	nseq, nops, wsPct := 40, 80, 8
	if c.Thorough {
		nseq, nops, wsPct = 600, 160, 10
	}
	for i := 0; i < nseq; i++ {
		n := nops/2 + rng.Intn(nops)
		if err := c10RunSeq(c, l, rng, i, c10Gen(rng, n, wsPct), "adm"+c09RandToken(rng, 20)); err != nil {
			return fmt.Errorf("sequence %d: %w", i, err)
		}
	}
	// crowds: a token is used, then MANY other tokens are used (anything that remembers recent lookups in generations or
	// with a bounded size has moved the first token somewhere else by now), then the first token is revoked and presented
	// again — on HTTP, on the websocket handshake, and after a restart
	crowds := []int{40, 130}
	if c.Thorough {
		crowds = []int{3, 17, 40, 63, 64, 65, 130, 260, 600}
	}
	for ci, n := range crowds {
		var ops []string
		for i := 0; i < n; i++ {
			ops = append(ops, "create")
		}
		ops = append(ops, "auth #0", "ws #1")
		for i := 2; i < n; i++ {
			ops = append(ops, fmt.Sprintf("auth #%d", i))
		}
		ops = append(ops, "revoke #0", "auth #0", "ws #0", "revoke #1", "ws #1", "auth #1")
		mid := n / 2
		ops = append(ops, fmt.Sprintf("revoke #%d", mid), fmt.Sprintf("auth #%d", mid), fmt.Sprintf("auth #%d", n-1), "restart", "auth #0", "auth #1", fmt.Sprintf("auth #%d", n-1), "dump")
		if err := c10RunSeq(c, l, rng, 2000+ci, ops, "adm"+c09RandToken(rng, 20)); err != nil {
			return fmt.Errorf("crowd sequence %d: %w", n, err)
		}
		c.R.Count(fmt.Sprintf("crowd sequence (%d tokens used between first use and revocation)", n), 1)
	}
	if err := c10Concurrent(c, l, "adm"+c09RandToken(rng, 20)); err != nil {
		return err
	}
	if err := c10CommitBlocked(c, l, "adm"+c09RandToken(rng, 20)); err != nil {
		return err
	}
	if err := c10SpaceProbe(c, l, rng); err != nil {
		return err
	}
	if err := c10RotatedRestart(c, l, rng); err != nil {
		return err
	}
	if err := c10RawRevoke(c, l, rng); err != nil {
		return err
	}
	for _, kn := range lib.KnownFor(c.Known, "C10") {
		if _, done := c.R.KnownReplayed[kn.ID]; done {
			continue
		}
		st := "not-reproduced"
		if len(kn.Witness.Ops) > 0 {
			before := len(c.R.Failures)
			var seq []string
			for _, op := range kn.Witness.Ops {
				if !strings.HasPrefix(op, "config ") {
					seq = append(seq, op)
				}
			}
			if err := c10RunSeq(c, l, rng, 1000, seq, "adm"+c09RandToken(rng, 20)); err == nil {
				for _, f := range c.R.Failures[before:] {
					if f.Signature == kn.Signature {
						st = "reproduced"
					}
				}
			}
		}
		c.R.KnownReplayed[kn.ID] = st
	}
	c.R.ModelOps = l.Ops
	return nil
}

func swapCase(s string) string {
	b := []byte(s)
	for i, c := range b {
		switch {
		case c >= 'a' && c <= 'z':
			b[i] = c - 32
		case c >= 'A' && c <= 'Z':
			b[i] = c + 32
		}
	}
	return string(b)
}
