package main

// C06 — sync converges on the best chain peers offer, in every configuration.
// Runner: scenario generator (matrix), rig execution (c06_rig.go), correspondence with the Lean sync
// model (c06_model.go) and the convergence oracle.

import (
	"fmt"
	"math/big"
	"math/rand"
	"os"
	"sort"
	"strings"
	"sync/atomic"
	"time"

	"github.com/bitcoin-sv/block-headers-service/verifharness/lib"
)

func init() { runners["C06"] = runC06 }

// scnResult is what one scenario run produced.
type scnResult struct {
	Name     string
	S        *scn
	Err      error // rig failure (timeouts, sockets): infrastructure, not a verdict
	Events   []evRec
	Defs     []string
	Rows     []DbRow
	TipHash  string
	Failures []lib.Failure
	Info     map[string]any
	NonTriv  bool
	Notes    []string
}

// nodeFinal is the oracle's view of one scripted node at the end.
type nodeFinal struct {
	ID              int
	Honest          bool
	Reachable       bool // still connected and answering
	TipIdx          int
	Cum             *big.Int
	ClosedByService bool
	Hist            []nodeEv
}

var scnCounter int64

// runScenario executes one scenario on the real stack and evaluates the oracle.
func runScenario(name string, s *scn, oracle func(*rig, *scnResult)) *scnResult {
	res := &scnResult{Name: name, S: s, Info: map[string]any{}}
	scnCounter++
	r, err := newRig(s, fmt.Sprintf("c06-%d-%d.db", os.Getpid(), scnCounter))
	if err != nil {
		res.Err = err
		return res
	}
	defer r.close()
	func() {
		defer func() {
			if p := recover(); p != nil {
				res.Err = fmt.Errorf("rig panic: %v", p)
			}
		}()
		res.Err = r.run()
	}()
	res.Events, res.Defs, res.Notes = r.events, r.defs, r.notes
	if res.Err != nil {
		return res
	}
	rows, err := r.ci.Dump()
	if err != nil {
		res.Err = err
		return res
	}
	res.Rows = rows
	if t := r.ci.Svc.Headers.GetTip(); t != nil {
		res.TipHash = t.Hash.String()
	}
	oracle(r, res)
	if os.Getenv("VERIF_C06_TRACE") != "" {
		fmt.Fprintf(os.Stderr, "--- %s\n%s\n", name, strings.Join(s.Ops(), "\n"))
		for _, t := range r.traceStrings() {
			fmt.Fprintln(os.Stderr, "   ", t)
		}
		fmt.Fprintf(os.Stderr, "    tip=%s failures=%d info=%v notes=%v\n", r.tree.name(res.TipHash), len(res.Failures), res.Info, r.notes)
	}
	return res
}

func (r *rig) finals() []nodeFinal {
	var fs []nodeFinal
	for i, n := range r.nodes {
		f := nodeFinal{ID: i, Honest: n.spec.Honest, TipIdx: n.tipIdx(), Hist: n.history(), ClosedByService: n.closedByRemote()}
		n.mu.Lock()
		stalled := n.stalled
		n.mu.Unlock()
		n.wmu.Lock()
		connected := n.conn != nil
		n.wmu.Unlock()
		// reachable: the node neither went away nor fell silent by itself (a connection the SERVICE closed does not
		// make a conformant node unreachable: it offered its chain and was thrown out)
		f.Reachable = connected && atomic.LoadInt32(&n.selfClosed) == 0 && !stalled
		if f.TipIdx >= 0 {
			f.Cum = r.tree.cum[f.TipIdx]
		} else {
			f.Cum = r.tree.genWork
		}
		fs = append(fs, f)
	}
	return fs
}

func (r *rig) traceStrings() []string {
	var out []string
	for _, e := range r.events {
		obs := e.Observed
		for i, d := range r.tree.disp {
			if strings.Contains(obs, d) {
				obs = strings.ReplaceAll(obs, d, fmt.Sprintf("#%d", i))
			}
		}
		obs = strings.ReplaceAll(obs, display(r.tree.genHash), "#G")
		out = append(out, e.Step+" => "+obs)
	}
	return out
}

// oracleC06: the tip equals the greatest-work chain offered by honest reachable peers, and that chain is stored
// as the longest chain.
func oracleC06(r *rig, res *scnResult) {
	fs := r.finals()
	t := newTree(res.Rows)
	var best *nodeFinal
	for i := range fs {
		f := &fs[i]
		if !f.Honest || !f.Reachable {
			continue
		}
		if best == nil || f.Cum.Cmp(best.Cum) > 0 {
			best = f
		}
	}
	res.Info["nodes"] = len(fs)
	if r.s.Readers > 0 {
		res.Info["concurrent-reads"] = atomic.LoadInt64(&r.readCount)
		// every header of a conformant reply is stored connected: the peer delivered its parent before it
		for _, row := range res.Rows {
			if row.State == "ORPHAN" {
				res.Failures = append(res.Failures, lib.Failure{Case: res.Name, Ops: res.S.Ops(),
					What:      fmt.Sprintf("a header of a conformant reply (#%s, height %d) is stored as ORPHAN although the same peer delivered its parent before it, while the store was being read concurrently (%d reads)", r.tree.name(row.Hash), row.Height, atomic.LoadInt64(&r.readCount)),
					Expected:  "every header of the reply stored, connected",
					Observed:  "ORPHAN",
					Signature: "c06-conformant-reply-header-stored-orphan-under-concurrent-reads", Extra: map[string]any{"notes": r.notes}})
				break
			}
		}
	}
	if best == nil {
		res.Info["vacuous"] = "no honest reachable peer"
		return
	}
	wantTip := display(r.tree.genHash)
	if best.TipIdx >= 0 {
		wantTip = r.tree.disp[best.TipIdx]
	}
	// every other honest reachable peer with the same work is an acceptable tip as well
	accept := map[string]bool{wantTip: true}
	for _, f := range fs {
		if f.Honest && f.Reachable && f.Cum.Cmp(best.Cum) == 0 && f.TipIdx >= 0 {
			accept[r.tree.disp[f.TipIdx]] = true
		}
	}
	ok := accept[res.TipHash]
	heavier := false
	if !ok {
		// a chain with MORE work, delivered by a peer that is gone by now, is still a chain peers offered
		if row, found := t.by[res.TipHash]; found && parseBig(row.Cum).Cmp(best.Cum) > 0 {
			if _, inTree := r.tree.byHashDisp(res.TipHash); inTree {
				ok, heavier = true, true
			}
		}
	}
	// the table agrees with itself (C01): reported tip = best by work among connected rows
	if t.best != nil && t.best.Hash != res.TipHash && ok {
		ok = false
	}
	if ok && !heavier {
		// the honest peer's best chain is stored, all of it on the longest chain
		chainTip := best.TipIdx
		for _, f := range fs {
			if f.Honest && f.Reachable && f.TipIdx >= 0 && r.tree.disp[f.TipIdx] == res.TipHash {
				chainTip = f.TipIdx
			}
		}
		for _, idx := range r.tree.pathTo(chainTip) {
			row, found := t.by[r.tree.disp[idx]]
			if !found || row.State != "LONGEST_CHAIN" {
				ok = false
				break
			}
		}
	}
	if ok {
		return
	}
	if stoppedAfterKnownOnlyReply(r, res, best, t) {
		// the property's own proviso: "the implementation stops asking a peer whose reply contained no longest-chain
		// header". The best peer's last reply brought nothing new (another peer had delivered the same headers in the
		// meantime and the reply cap cut it short of the rest), nothing was requested from it afterwards and it has not
		// announced anything since: the next announcement will fetch the rest. Counted, not a failure.
		res.Info["accepted"] = "known-only-reply-ends-requests"
		return
	}
	sig, why := classifyC06(r, res, fs, best, t)
	got := r.tree.name(res.TipHash)
	res.Failures = append(res.Failures, lib.Failure{Case: res.Name, Ops: res.S.Ops(),
		What:      "sync did not converge on the best chain offered by an honest reachable peer: " + why,
		Expected:  fmt.Sprintf("tip = block #%d (height %d) of node %d, all of its chain LONGEST_CHAIN", best.TipIdx, heightOf(r.tree, best.TipIdx), best.ID),
		Observed:  fmt.Sprintf("tip = block #%s (table height %d)", got, tipHeightOf(t, res.TipHash)),
		Signature: sig, Extra: map[string]any{"trace": r.traceStrings(), "notes": r.notes}})
}

// stoppedAfterKnownOnlyReply: the best peer's last non-empty headers message was an ANSWER (a getheaders precedes it),
// nothing was requested from that peer afterwards (so the answer added no longest-chain header), the peer sent no
// announcement afterwards, its cap cut the answer short of its tip, and the service's tip is on that peer's chain.
func stoppedAfterKnownOnlyReply(r *rig, res *scnResult, best *nodeFinal, t *tree) bool {
	// default engine only: there an answer that adds a longest-chain header is ALWAYS followed by a request to the same
	// peer, so "no request afterwards" means the answer added none. (The experimental engine may decide "synced" after
	// an answer that did add headers: finding C06-X1 must not be absorbed here.)
	if r.s.Engine != "legacy" {
		return false
	}
	h := best.Hist
	k := -1
	for i, e := range h {
		if e.Sent && e.Kind == "headers" && len(e.Idx) > 0 {
			k = i
		}
	}
	if k <= 0 || h[k-1].Sent || h[k-1].Kind != "getheaders" {
		return false
	}
	for _, e := range h[k+1:] {
		if (!e.Sent && e.Kind == "getheaders") || (e.Sent && (e.Kind == "inv" || (e.Kind == "headers" && len(e.Idx) > 0))) {
			return false
		}
	}
	if len(h[k].Idx) < r.s.Nodes[best.ID].Cap { // the answer was not cut by the cap
		return false
	}
	for _, idx := range h[k].Idx {
		if _, ok := t.by[r.tree.disp[idx]]; !ok {
			return false
		}
	}
	tipIdx, ok := r.tree.byHashDisp(res.TipHash)
	if !ok {
		return false
	}
	for _, idx := range r.tree.pathTo(best.TipIdx) {
		if idx == tipIdx {
			return true
		}
	}
	return false
}

func heightOf(t *blockTree, idx int) int {
	if idx < 0 {
		return 0
	}
	return t.height[idx]
}

func tipHeightOf(t *tree, hash string) int64 {
	if r, ok := t.by[hash]; ok {
		return r.Height
	}
	return -1
}

func (t *blockTree) byHashDisp(d string) (int, bool) {
	for i, x := range t.disp {
		if x == d {
			return i, true
		}
	}
	return -1, d == display(t.genHash)
}

// classifyC06 names the root cause of a convergence failure (one signature per root cause; anything else c06-other).
func classifyC06(r *rig, res *scnResult, fs []nodeFinal, best *nodeFinal, t *tree) (string, string) {
	s := r.s
	var zero [32]byte
	if s.Engine == "legacy" {
		st := r.sm.VerifSnapshot()
		// F4a (repaired in /repo 8573612; kept so that a regression gets its own, now unlisted, signature):
		// checkpoints disabled => headersFirstMode is never set => the answer to the manager's own getheaders
		// is "unrequested" and the peer is disconnected.
		if s.CpOff && !st.HeadersFirst {
			for _, f := range fs {
				if f.ClosedByService && sentHeadersAfterRequest(f.Hist) {
					return "c06-checkpoints-disabled-unrequested-headers",
						"checkpoints are disabled, headersFirstMode was never set, the peer that answered the manager's getheaders was disconnected as if its headers were unrequested"
				}
			}
		}
		// F4b (repaired in /repo f49151a; kept for the same reason): the peer that holds the best chain announced a block by inv after its last request
		// getheaders(locator(tip), 0) had been answered; the follow-up request is identical and is dropped by
		// PushGetHeadersMsg's duplicate filter, so nothing was requested after the inv.
		// an inv that carries several blocks (already stored ones first, the new ones last) must be followed up for its
		// LAST block entry (searchForFinalBlock); nothing requested after such an inv although its last block is unknown
		// (only when the manager listens to that peer: it is the sync peer, or the service is current — tip at or above
		// the last checkpoint, timestamps are fresh; otherwise the inv is ignored by design / finding F4c)
		maxCp := 0
		for _, c := range s.Cps {
			if r.tree.height[c] > maxCp {
				maxCp = r.tree.height[c]
			}
		}
		stSnap := r.sm.VerifSnapshot()
		for _, f := range fs {
			if !f.Honest || !f.Reachable {
				continue
			}
			listens := tipHeightOf(t, res.TipHash) >= int64(maxCp)
			if lp := r.lpeers[f.ID]; lp != nil && stSnap.HasSyncPeer && lp.p.ID() == stSnap.SyncPeerID {
				listens = true
			}
			if !listens {
				continue
			}
			for k, e := range f.Hist {
				if !(e.Sent && e.Kind == "inv" && e.Multi && len(e.Idx) > 1) {
					continue
				}
				_, haveLast := t.by[r.tree.disp[e.Idx[len(e.Idx)-1]]]
				_, haveFirst := t.by[r.tree.disp[e.Idx[0]]]
				asked := false
				for _, e2 := range f.Hist[k+1:] {
					if !e2.Sent && e2.Kind == "getheaders" {
						asked = true
					}
				}
				if !haveLast && haveFirst && !asked {
					return "c06-multi-block-inv-not-followed-up",
						fmt.Sprintf("node %d announced blocks %s in ONE inv (the first already stored, the last new); nothing was requested from it afterwards: the announcement of the last block entry was not followed up", f.ID, compactInts(e.Idx))
				}
			}
		}
		for _, f := range fs {
			if !f.Honest || !f.Reachable {
				continue
			}
			// last request received by the node, its (empty) answer, and an inv of a still unknown block afterwards
			lastGH := -1
			for k, e := range f.Hist {
				if !e.Sent && e.Kind == "getheaders" {
					lastGH = k
				}
			}
			if lastGH < 0 || f.Hist[lastGH].GH.Stop != zero || len(f.Hist[lastGH].GH.Loc) == 0 {
				continue
			}
			answeredEmpty, invUnknown := false, false
			for k := lastGH + 1; k < len(f.Hist); k++ {
				e := f.Hist[k]
				if e.Sent && e.Kind == "headers" && len(e.Idx) == 0 {
					answeredEmpty = true
				}
				if e.Sent && e.Kind == "inv" && answeredEmpty && len(e.Idx) > 0 {
					if _, have := t.by[r.tree.disp[e.Idx[len(e.Idx)-1]]]; !have {
						invUnknown = true
					}
				}
			}
			if answeredEmpty && invUnknown {
				return "c06-announcement-dropped-by-duplicate-getheaders-filter",
					fmt.Sprintf("node %d announced new blocks by inv after its last request getheaders(locator(tip), 0) had been answered (empty); the request the inv calls for is identical and was filtered as a back-to-back duplicate by PushGetHeadersMsg: nothing was requested from the node after the inv", f.ID)
			}
		}
	}
	if s.Engine == "legacy" {
		if ok, why := overlappingRequestsEndShort(r, res, best, t); ok {
			return "c06-overlapping-requests-end-sync-short", why
		}
	}
	if s.Engine == "legacy" && r.sm != nil {
		// the SYNC PEER itself — honest, reachable, answering — announced a block by inv that the table still lacks, and
		// nothing was requested from it afterwards (the manager always listens to its sync peer)
		snap := r.sm.VerifSnapshot()
		for _, f := range fs {
			lp := r.lpeers[f.ID]
			if !f.Honest || !f.Reachable || lp == nil || !snap.HasSyncPeer || lp.p.ID() != snap.SyncPeerID {
				continue
			}
			for k, e := range f.Hist {
				if !(e.Sent && e.Kind == "inv" && len(e.Idx) > 0) {
					continue
				}
				if _, have := t.by[r.tree.disp[e.Idx[len(e.Idx)-1]]]; have {
					continue
				}
				asked := false
				for _, e2 := range f.Hist[k+1:] {
					if !e2.Sent && e2.Kind == "getheaders" {
						asked = true
					}
				}
				if !asked {
					return "c06-sync-peer-announcement-not-followed-up",
						fmt.Sprintf("the sync peer (node %d) announced block #%d by inv; the table does not hold it and nothing was requested from the node afterwards", f.ID, e.Idx[len(e.Idx)-1])
				}
			}
		}
	}
	if s.Engine == "legacy" {
		// F4d (repaired in /repo 0b0b1e1; kept for the same reason): handleCheckSyncPeer compared topBlock() != tip height; once the service is AHEAD of the height its sync
		// peer advertised in its version message (blocks announced since), the three-minute watchdog takes that for
		// "behind", disconnects the up-to-date sync peer, and later announcements of that peer are lost.
		for _, e := range r.events {
			if !strings.HasPrefix(e.Step, "tick") {
				continue
			}
			for _, f := range fs {
				if f.Honest && f.ClosedByService && strings.Contains(" ; "+e.Observed+" ;", fmt.Sprintf(" ; disc %d ;", f.ID)) &&
					tipHeightOf(t, res.TipHash) > int64(s.Nodes[f.ID].Pos) {
					return "c06-sync-peer-dropped-after-passing-its-advertised-height",
						fmt.Sprintf("the watchdog disconnected sync peer node %d although the service (height %d) had every block that peer ever offered: the peer advertised height %d in its version message and the comparison topBlock() != tip height treats being ahead as being behind", f.ID, tipHeightOf(t, res.TipHash), s.Nodes[f.ID].Pos)
				}
			}
		}
	}
	if s.Engine == "exp" {
		// the experimental engine ignores every inv (syncedCheckpoints is never set): a block announced by inv before
		// the engine has asked for headers announcements is never fetched
		for _, f := range fs {
			if !f.Honest || !f.Reachable {
				continue
			}
			for _, e := range f.Hist {
				if e.Sent && e.Kind == "inv" && len(e.Idx) > 0 {
					if _, have := t.by[r.tree.disp[e.Idx[len(e.Idx)-1]]]; !have {
						return "c06-exp-inv-announcement-ignored",
							fmt.Sprintf("node %d announced block #%d by inv (the engine had not sent sendheaders yet); the experimental engine ignores every inv because syncedCheckpoints is never set, and isSynced compares with the height of the version message, so the block is never requested", f.ID, e.Idx[len(e.Idx)-1])
					}
				}
			}
		}
	}
	if s.Engine == "legacy" {
		// F4c: the service has every block of its sync peer, another connected candidate advertises a heavier chain,
		// and the sync peer is kept (startSync only runs without a sync peer; handleCheckSyncPeer returns when
		// topBlock == tip height; invs of other peers are ignored while below the last checkpoint).
		st := r.sm.VerifSnapshot()
		if st.HasSyncPeer {
			for i, lp := range r.lpeers {
				if lp == nil || lp.p.ID() != st.SyncPeerID || i == best.ID {
					continue
				}
				spTip := fs[i].TipIdx
				if tipHeightOf(t, res.TipHash) == int64(heightOf(r.tree, spTip)) && fs[i].Cum.Cmp(best.Cum) < 0 {
					return "c06-exhausted-sync-peer-kept-while-better-candidate-connected",
						fmt.Sprintf("the service holds all %d blocks of its sync peer (node %d) and keeps it; node %d, connected and advertising height %d, is never asked", heightOf(r.tree, spTip), i, best.ID, heightOf(r.tree, best.TipIdx))
				}
			}
		}
	}
	if s.Engine == "legacy" {
		// F4c: the service has every block of its sync peer, another connected candidate advertises a heavier chain,
		// and the sync peer is kept (startSync only runs without a sync peer; handleCheckSyncPeer returns when
		// topBlock == tip height; invs of other peers are ignored while below the last checkpoint).
		st := r.sm.VerifSnapshot()
		if st.HasSyncPeer {
			for i, lp := range r.lpeers {
				if lp == nil || lp.p.ID() != st.SyncPeerID || i == best.ID {
					continue
				}
				spTip := fs[i].TipIdx
				if tipHeightOf(t, res.TipHash) == int64(heightOf(r.tree, spTip)) && fs[i].Cum.Cmp(best.Cum) < 0 {
					return "c06-exhausted-sync-peer-kept-while-better-candidate-connected",
						fmt.Sprintf("the service holds all %d blocks of its sync peer (node %d) and keeps it; node %d, connected and advertising height %d, is never asked", heightOf(r.tree, spTip), i, best.ID, heightOf(r.tree, best.TipIdx))
				}
			}
		}
	}
	return "c06-other:" + scnKind(s), "unclassified"
}


// overlappingRequestsEndShort (finding C06-F5): the best honest node announced a block by inv while a sync getheaders to
// it was still unanswered; the inv added a second outstanding request to the same node (two request chains overlap).
// Afterwards every request was answered, and the LAST answers of the node consisted only of headers the table already
// held (a reply without a longest-chain header ends the requests: C06_no_lc_header_stops), nothing was requested after
// them, and the table ends as a proper prefix of that node's chain.
func overlappingRequestsEndShort(r *rig, res *scnResult, best *nodeFinal, t *tree) (bool, string) {
	if best == nil || best.TipIdx < 0 {
		return false, ""
	}
	h := best.Hist
	// (1) an inv sent while a request was outstanding, followed by one more request before the next answer
	outstanding, overlapAt := 0, -1
	for k, e := range h {
		switch {
		case !e.Sent && e.Kind == "getheaders":
			outstanding++
			if overlapAt == -2 && outstanding >= 2 {
				overlapAt = k
			}
		case e.Sent && e.Kind == "headers":
			if outstanding > 0 {
				outstanding--
			}
			if overlapAt == -2 {
				overlapAt = -1
			}
		case e.Sent && e.Kind == "inv" && len(e.Idx) > 0:
			if overlapAt == -1 && outstanding >= 1 {
				overlapAt = -2 // armed: the next event must be a request
			}
		}
	}
	if overlapAt < 0 || outstanding != 0 {
		return false, ""
	}
	// (2) the last answer is non-empty, known-only, and nothing was requested after it
	last := -1
	for k, e := range h {
		if e.Sent && e.Kind == "headers" {
			last = k
		}
	}
	if last < overlapAt || len(h[last].Idx) == 0 {
		return false, ""
	}
	for _, idx := range h[last].Idx {
		if _, ok := t.by[r.tree.disp[idx]]; !ok {
			return false, ""
		}
	}
	for _, e := range h[last+1:] {
		if !e.Sent && e.Kind == "getheaders" {
			return false, ""
		}
	}
	// (3) the table's tip is on the node's chain, strictly below its tip
	tipIdx, ok := r.tree.byHashDisp(res.TipHash)
	if !ok {
		return false, ""
	}
	path := r.tree.pathTo(best.TipIdx)
	th := r.tree.height[tipIdx]
	if th >= len(path) || path[th-1] != tipIdx {
		return false, ""
	}
	return true, fmt.Sprintf("node %d announced a block by inv while a sync request to it was unanswered: two request chains to the same node overlapped, its last answer (headers %s) held only headers the table already had, nothing more was requested; the table ends at height %d of the node's %d headers", best.ID, compactInts(h[last].Idx), th, len(path))
}

// sentHeadersAfterRequest: the node answered a getheaders with a non-empty headers message.
func sentHeadersAfterRequest(h []nodeEv) bool {
	seenGH := false
	for _, e := range h {
		if !e.Sent && e.Kind == "getheaders" {
			seenGH = true
		}
		if e.Sent && e.Kind == "headers" && seenGH {
			return true
		}
	}
	return false
}

func scnKind(s *scn) string {
	cp := "cpon"
	if s.CpOff {
		cp = "cpoff"
	}
	return fmt.Sprintf("%s-%s-%dpeers-%s", s.Engine, cp, len(s.Nodes), s.Sched)
}

// ---------------------------------------------------------------------------------------------
// generator

type genOpts struct {
	MaxLen int
	BigLen int     // thorough: occasionally a chain this long with cap 2000
	Fix    *linFix // thorough: the dimensions of the small matrix, fixed (nil = all drawn)
}

// linFix pins the matrix dimensions of genLinear (-1 = drawn at random).
type linFix struct {
	CpOff, CpMode, InitMode, NNodes, Cap, How, Loss, LossIdx int
}

func noFix() *linFix { return &linFix{-1, -1, -1, -1, -1, -1, -1, -1} }

func linearParents(n int) []int {
	p := make([]int, n)
	for i := range p {
		p[i] = i - 1
	}
	return p
}

func seq(a, b int) []int { // a..b-1
	var r []int
	for i := a; i < b; i++ {
		r = append(r, i)
	}
	return r
}

var capAlphabet = []int{1, 2, 7, 2000}

// pickCheckpoints: {one, several, last at tip} over heights 1..L of the main chain (tree index = height-1).
func pickCheckpoints(rng *rand.Rand, L int, mode int) []int {
	switch mode {
	case 0: // one
		return []int{rng.Intn(L)}
	case 1: // several
		k := 2 + rng.Intn(3)
		set := map[int]bool{}
		for i := 0; i < k; i++ {
			set[rng.Intn(L)] = true
		}
		var r []int
		for i := range set {
			r = append(r, i)
		}
		sort.Ints(r)
		return r
	case 2: // last one at the honest tip
		r := []int{L - 1}
		if L > 2 && rng.Intn(2) == 0 {
			r = append([]int{rng.Intn(L - 1)}, r...)
		}
		return r
	}
	return nil // none (experimental engine only)
}

// genLinear: 1..3 conformant nodes on ONE chain (full or lagging), any cap, any checkpoint list, any initial store,
// announcements by inv or headers from one or several nodes, optional loss of a peer mid-sync.
func genLinear(rng *rand.Rand, o genOpts, engine string) *scn {
	fx := o.Fix
	if fx == nil {
		fx = noFix()
	}
	// draw always (one stream whatever is pinned), then apply the pin
	pin := func(fixed, n int) int {
		r := rng.Intn(n)
		if fixed >= 0 {
			return fixed
		}
		return r
	}
	L := 5 + rng.Intn(o.MaxLen-4)
	big := o.BigLen > 0 && rng.Intn(6) == 0
	if big {
		L = o.BigLen/2 + rng.Intn(o.BigLen/2)
	}
	future := rng.Intn(4)
	total := L + future
	s := &scn{Engine: engine, Sched: "serial", Seed: rng.Int63n(1 << 30), Salt: rng.Uint32(), Parents: linearParents(total)}
	s.Bits = make([]uint32, total)
	for i := range s.Bits {
		s.Bits[i] = defaultBits
		if rng.Intn(5) == 0 {
			s.Bits[i] = bitsSmall[rng.Intn(len(bitsSmall))]
		}
	}
	if rng.Intn(4) == 0 {
		s.Sched = "free"
	}
	cpMode := pin(fx.CpMode, 3)
	if engine == "exp" {
		cpMode = pin(fx.CpMode, 4)
	} else {
		s.CpOff = pin(fx.CpOff, 4) == 0
	}
	s.Cps = pickCheckpoints(rng, L, cpMode)
	// initial store
	switch pin(fx.InitMode, 3) {
	case 1:
		s.Init = seq(0, 1+rng.Intn(L-1))
	case 2: // prefix + stale side branch: extra tree nodes off the main chain
		k := 2 + rng.Intn(L-2)
		f := rng.Intn(k - 1) // fork below the prefix tip: parent index f-1 (or genesis)
		m := 1 + rng.Intn(k-f-1+1)
		if m > k-f-1 {
			m = k - f - 1
		}
		s.Init = seq(0, k)
		if m > 0 {
			base := len(s.Parents)
			for j := 0; j < m; j++ {
				par := f - 1
				if j > 0 {
					par = base + j - 1
				}
				s.Parents = append(s.Parents, par)
				s.Bits = append(s.Bits, bitsSmall[0]) // work 1 each: m blocks < the k-f blocks (work >= 1 each) they compete with
				s.Init = append(s.Init, base+j)
			}
		}
	}
	nNodes := 1 + pin(fx.NNodes, 3)
	if engine == "exp" {
		nNodes = 1
	}
	full := rng.Intn(nNodes) // at least one node has the whole chain
	for i := 0; i < nNodes; i++ {
		n := scnNode{Path: seq(0, total), Pos: L, Cap: capAlphabet[pin(fx.Cap, len(capAlphabet))], Dir: "out", Honest: true, CloseAt: -1, StallAt: -1}
		if big {
			n.Cap = 2000
		}
		if rng.Intn(3) == 0 {
			n.Dir = "in"
		}
		if i != full && rng.Intn(2) == 0 {
			n.Pos = 1 + rng.Intn(L) // lags behind
		}
		s.Nodes = append(s.Nodes, n)
	}
	// peer loss: one of the OTHER nodes closes or stalls at a message index
	lossy := -1
	lossKind := pin(fx.Loss, 4) // 0,1 none; 2 close; 3 stall
	lossIdx := pin(fx.LossIdx, 4)
	if nNodes > 1 && lossKind >= 2 {
		lossy = (full + 1 + rng.Intn(nNodes-1)) % nNodes
		if lossKind == 2 {
			s.Nodes[lossy].CloseAt = lossIdx
		} else {
			s.Nodes[lossy].StallAt = lossIdx
		}
		s.Nodes[lossy].Honest = false
	}
	order := rng.Perm(nNodes)
	midsync := future > 0 && s.Sched == "serial" && rng.Intn(4) == 0
	if midsync {
		// a block is announced WHILE the initial sync is running: a few replies, the announcement, the rest
		for _, i := range order {
			s.Steps = append(s.Steps, scnStep{Kind: "connect", Node: i})
		}
		for k := rng.Intn(3); k > 0; k-- {
			s.Steps = append(s.Steps, scnStep{Kind: "serve", Node: order[rng.Intn(nNodes)]})
		}
		future--
		s.Steps = append(s.Steps, scnStep{Kind: "announce", Node: full, How: "inv", N: 1}, scnStep{Kind: "run"})
	} else if rng.Intn(2) == 0 {
		for _, i := range order {
			s.Steps = append(s.Steps, scnStep{Kind: "connect", Node: i})
		}
		s.Steps = append(s.Steps, scnStep{Kind: "run"})
	} else {
		for _, i := range order {
			s.Steps = append(s.Steps, scnStep{Kind: "connect", Node: i}, scnStep{Kind: "run"})
		}
	}
	if lossy >= 0 && s.Nodes[lossy].StallAt >= 0 {
		s.Steps = append(s.Steps, scnStep{Kind: "tick", N: 200}, scnStep{Kind: "run"})
	}
	// announcements: the nodes that have the whole chain learn the future blocks
	how := "inv"
	if pin(fx.How, 2) == 0 || engine == "exp" {
		how = "headers"
	}
	left := future
	for left > 0 {
		k := 1 + rng.Intn(left)
		left -= k
		announcers := 0
		for i, n := range s.Nodes {
			if n.Pos == L && i != lossy && (i == full || rng.Intn(2) == 0) {
				h := how
				if h == "inv" && rng.Intn(2) == 0 {
					h = "invx" // several blocks (announced ones + new ones) and tx entries in ONE inv
				}
				s.Steps = append(s.Steps, scnStep{Kind: "announce", Node: i, How: h, N: k})
				announcers++
			}
		}
		s.Steps = append(s.Steps, scnStep{Kind: "run"})
	}
	timePasses(s)
	return s
}

// timePasses: more than three minutes go by (the sync-peer watchdog gets its chance), then whatever it started runs.

// genReaders: a long-ish linear chain (several replies) synced from one honest node in free-running mode while background
// goroutines keep reading the store (scn.Readers): tip, locator, GET /api/v1/chain/tip/longest
func genReaders(rng *rand.Rand, engine string) *scn {
	L := 300 + rng.Intn(900)
	s := &scn{Engine: engine, Sched: "free", Seed: rng.Int63n(1 << 30), Salt: rng.Uint32(), Parents: linearParents(L), Readers: 3}
	s.Bits = make([]uint32, L)
	for i := range s.Bits {
		s.Bits[i] = defaultBits
	}
	switch rng.Intn(3) {
	case 0:
		s.Cps = []int{L - 1}
	case 1:
		s.Cps = []int{L / 3, 2 * L / 3}
	default:
		s.Cps = []int{L - 1}
		s.CpOff = engine == "legacy"
	}
	if engine == "exp" && rng.Intn(2) == 0 {
		s.Cps = nil
	}
	s.Nodes = append(s.Nodes, scnNode{Path: seq(0, L), Pos: L, Cap: 100 + rng.Intn(400), Dir: "out", Honest: true, CloseAt: -1, StallAt: -1})
	s.Steps = append(s.Steps, scnStep{Kind: "connect", Node: 0}, scnStep{Kind: "run"})
	return s
}


// genSameBlock: steady state with 2..4 nodes synced to the common tip; ONE new block is announced by inv by several of
// them. The first announcers are NOT the sync peer and do not deliver: they stall (service "current": their inv is
// honoured with a getheaders they never answer), or their inv is ignored by design (service not "current": the last
// checkpoint lies above the tip); sometimes a first announcer is healthy and delivers. Afterwards the sync peer — honest,
// conformant, answering — announces the very same block: it must be asked and the block stored.
func genSameBlock(rng *rand.Rand, o genOpts) *scn {
	L := 4 + rng.Intn(minInt(o.MaxLen, 14)-3)
	n := 2 + rng.Intn(3)
	s := &scn{Engine: "legacy", Sched: "serial", Seed: rng.Int63n(1 << 30), Salt: rng.Uint32(), Parents: linearParents(L + 1)}
	s.Bits = make([]uint32, L+1)
	for i := range s.Bits {
		s.Bits[i] = defaultBits
	}
	current := rng.Intn(2) == 0
	if current {
		s.Cps = []int{rng.Intn(L)} // the last checkpoint is at or below the common tip
	} else {
		s.Cps = []int{L} // the new block itself is the last checkpoint: below it the service is not current
	}
	for i := 0; i < n; i++ {
		s.Nodes = append(s.Nodes, scnNode{Path: seq(0, L+1), Pos: L, Cap: 2000, Dir: "out", Honest: true, CloseAt: -1, StallAt: -1})
		if rng.Intn(4) == 0 {
			s.Nodes[i].Dir = "in"
		}
	}
	sp := rng.Intn(n) // connected first and alone: the sync peer
	s.Steps = append(s.Steps, scnStep{Kind: "connect", Node: sp}, scnStep{Kind: "run"})
	var others []int
	for _, i := range rng.Perm(n) {
		if i != sp {
			others = append(others, i)
			s.Steps = append(s.Steps, scnStep{Kind: "connect", Node: i})
		}
	}
	s.Steps = append(s.Steps, scnStep{Kind: "run"})
	first := 1 + rng.Intn(len(others))
	for _, i := range others[:first] {
		if current && rng.Intn(3) != 0 {
			s.Nodes[i].Honest = false // it never answers: not a peer the service can converge on
			s.Steps = append(s.Steps, scnStep{Kind: "stall", Node: i})
		}
		s.Steps = append(s.Steps, scnStep{Kind: "announce", Node: i, How: "inv", N: 1}, scnStep{Kind: "run"})
	}
	spHow := "inv"
	if rng.Intn(3) == 0 {
		spHow = "invt" // transaction entries before and after the block entry
	}
	s.Steps = append(s.Steps, scnStep{Kind: "announce", Node: sp, How: spHow, N: 1}, scnStep{Kind: "run"})
	for _, i := range others[first:] {
		if rng.Intn(2) == 0 {
			s.Steps = append(s.Steps, scnStep{Kind: "announce", Node: i, How: "inv", N: 1}, scnStep{Kind: "run"})
		}
	}
	timePasses(s)
	return s
}


// genMidSyncInv: ONE honest node; in the middle of the initial sync (after 0..3 answers, a request outstanding) the node
// announces a new block by inv. Caps 1..10, with several checkpoints ahead or only the last one.
func genMidSyncInv(rng *rand.Rand) *scn {
	L := 10 + rng.Intn(22)
	s := &scn{Engine: "legacy", Sched: "serial", Seed: rng.Int63n(1 << 30), Salt: rng.Uint32(), Parents: linearParents(L + 1)}
	s.Bits = make([]uint32, L+1)
	for i := range s.Bits {
		s.Bits[i] = defaultBits
	}
	cap := 1 + rng.Intn(10)
	serves := rng.Intn(4)
	if rng.Intn(3) == 0 {
		s.Init = seq(0, 1+rng.Intn(L/3))
	}
	switch rng.Intn(4) {
	case 0:
		s.Cps = []int{L - 1}
	case 1:
		s.Cps = pickCheckpoints(rng, L, 1)
	default:
		// three checkpoints in a row right above what is stored when the announcement arrives
		base := len(s.Init) + serves*cap
		if base > L-5 {
			base = L - 5
		}
		s.Cps = []int{base + 1, base + 2, base + 3}
	}
	s.Nodes = append(s.Nodes, scnNode{Path: seq(0, L+1), Pos: L, Cap: cap, Dir: "out", Honest: true, CloseAt: -1, StallAt: -1})
	s.Steps = append(s.Steps, scnStep{Kind: "connect", Node: 0})
	for k := serves; k > 0; k-- {
		s.Steps = append(s.Steps, scnStep{Kind: "serve", Node: 0})
	}
	how := "inv"
	if rng.Intn(3) == 0 {
		how = "invt"
	}
	s.Steps = append(s.Steps, scnStep{Kind: "announce", Node: 0, How: how, N: 1}, scnStep{Kind: "run"})
	timePasses(s)
	return s
}

func timePasses(s *scn) {
	if s.Engine == "legacy" {
		s.Steps = append(s.Steps, scnStep{Kind: "tick", N: 200}, scnStep{Kind: "run"})
	}
}

// genFork: nodes on different branches of one tree; reply cap 2000; the service may start on a fork.
func genFork(rng *rand.Rand, o genOpts, engine string) *scn {
	L := 6 + rng.Intn(o.MaxLen-5)
	f := 1 + rng.Intn(L-2)   // fork after height f (tree index f-1 is the last common block)
	m := 1 + rng.Intn(L-f+2) // length of the side branch
	future := 1 + rng.Intn(2)
	s := &scn{Engine: engine, Sched: "serial", Seed: rng.Int63n(1 << 30), Salt: rng.Uint32(), Parents: linearParents(L + future)}
	side := []int{}
	for j := 0; j < m; j++ {
		par := f - 1
		if j > 0 {
			par = len(s.Parents) - 1
		}
		s.Parents = append(s.Parents, par)
		side = append(side, len(s.Parents)-1)
	}
	s.Bits = make([]uint32, len(s.Parents))
	for i := range s.Bits {
		s.Bits[i] = defaultBits
	}
	// no ties between offered tips, before or after the announcements: the main chain gets one heavier block
	// whenever the side branch has the length of the main chain at some point
	if m >= L-f && m <= L+future-f {
		s.Bits[f] = bitsSmall[2]
	}
	if rng.Intn(4) == 0 {
		s.Sched = "free"
	}
	if engine != "exp" {
		s.CpOff = rng.Intn(5) == 0
	}
	// checkpoints consistent with BOTH branches (at or below the fork point), or none for exp
	if engine == "exp" && rng.Intn(2) == 0 {
		s.Cps = nil
	} else {
		s.Cps = []int{rng.Intn(f)}
	}
	sidePath := append(seq(0, f), side...)
	mainHeavier := L-f >= m
	switch rng.Intn(3) {
	case 1:
		s.Init = seq(0, 1+rng.Intn(f))
	case 2: // the store already holds (part of) the lighter branch as its longest chain
		if mainHeavier {
			s.Init = append(seq(0, f), side[:1+rng.Intn(len(side))]...)
		} else {
			s.Init = seq(0, f+1+rng.Intn(L-f))
		}
	}
	nNodes := 1 + rng.Intn(3)
	if engine == "exp" {
		nNodes = 1
	}
	for i := 0; i < nNodes; i++ {
		n := scnNode{Path: seq(0, L+future), Pos: L, Cap: 2000, Dir: "out", Honest: true, CloseAt: -1, StallAt: -1}
		if i > 0 && rng.Intn(2) == 0 {
			n.Path, n.Pos = sidePath, len(sidePath)
		}
		if rng.Intn(3) == 0 {
			n.Dir = "in"
		}
		s.Nodes = append(s.Nodes, n)
	}
	for _, i := range rng.Perm(nNodes) {
		s.Steps = append(s.Steps, scnStep{Kind: "connect", Node: i})
		if rng.Intn(2) == 0 {
			s.Steps = append(s.Steps, scnStep{Kind: "run"})
		}
	}
	s.Steps = append(s.Steps, scnStep{Kind: "run"})
	how := "inv"
	if engine == "exp" || rng.Intn(2) == 0 {
		how = "headers"
	}
	for i, n := range s.Nodes {
		if n.Pos == L && len(n.Path) == L+future {
			h := how
			if h == "inv" && rng.Intn(2) == 0 {
				h = "invx"
			}
			s.Steps = append(s.Steps, scnStep{Kind: "announce", Node: i, How: h, N: future})
		}
	}
	s.Steps = append(s.Steps, scnStep{Kind: "run"})
	timePasses(s)
	return s
}

func scnNontrivial(s *scn) bool {
	// more than one round needed, or more than one peer, or an announcement / loss
	for _, st := range s.Steps {
		if st.Kind == "announce" || st.Kind == "tick" || st.Kind == "close" {
			return true
		}
	}
	if len(s.Nodes) > 1 {
		return true
	}
	for _, n := range s.Nodes {
		if n.Cap < n.Pos {
			return true
		}
	}
	return len(s.Cps) > 0
}

// ---------------------------------------------------------------------------------------------
// runner

func reportScn(c *Ctx, res *scnResult, rigErrs *int) {
	if res.Err != nil {
		*rigErrs++
		c.R.Count("rig-error", 1)
		c.R.Notes = append(c.R.Notes, fmt.Sprintf("%s: rig error: %v", res.Name, res.Err))
		return
	}
	c.R.Case(strings.Join(res.S.Ops(), "\n"), scnNontrivial(res.S))
	c.R.OracleChecked++
	for _, f := range res.Failures {
		c.R.Fail(f)
	}
	if a, ok := res.Info["accepted"].(string); ok {
		c.R.Count("accepted:"+a, 1)
	}
	c.R.Count("engine:"+res.S.Engine, 1)
	c.R.Count("sched:"+res.S.Sched, 1)
	c.R.Count(fmt.Sprintf("peers:%d", len(res.S.Nodes)), 1)
	if res.S.CpOff {
		c.R.Count("checkpoints:disabled", 1)
	} else {
		c.R.Count(fmt.Sprintf("checkpoints:%d", len(res.S.Cps)), 1)
	}
	switch {
	case len(res.S.Init) == 0:
		c.R.Count("init:genesis", 1)
	default:
		c.R.Count("init:preloaded", 1)
	}
	for _, n := range res.S.Nodes {
		c.R.Count(fmt.Sprintf("cap:%d", n.Cap), 1)
		c.R.Count("dir:"+n.Dir, 1)
		if n.CloseAt >= 0 {
			c.R.Count("loss:close", 1)
		}
		if n.StallAt >= 0 {
			c.R.Count("loss:stall", 1)
		}
	}
	for _, st := range res.S.Steps {
		if st.Kind == "announce" {
			c.R.Count("announce:"+st.How, 1)
		}
	}
	c.R.Count("events", len(res.Events))
}

func runC06(c *Ctx) error {
	c.R.Rule = "scenario = block tree (linear or forked, 5..60 headers quick / up to thousands thorough) x 1..3 scripted conformant nodes (full, lagging, other branch; cap 1/2/7/2000; inbound or outbound; close/stall at a message index) x engine {legacy, experimental} x checkpoints {disabled, one, several, last at tip, none(exp)} x initial store {genesis, prefix, prefix+stale fork, lighter branch} x an inv announcement by the sync peer at a random point of the initial sync (caps 1..10, with and without checkpoints ahead: finding C06-F5) x the SAME new block announced by inv by 2..4 nodes in steady state, first by non-sync nodes that stall or are ignored (service not current), then by the sync peer x announcements {inv, one inv that starts with tx entries (tx, tx, block, tx), one inv carrying announced + new blocks and tx entries, headers; one or several nodes} x a handful of syncs of 300..1200 headers (several replies) while background goroutines read the store (tip, locator, GET /api/v1/chain/tip/longest) x scheduling {serial with per-event trace comparison against the Lean model, free-running goroutines with seeded delays}; non-trivial = more than one request round or more than one peer or an announcement / peer loss; accepted (counted, not failed) per the property's proviso: the best peer's last, cap-limited answer brought only known headers, nothing was requested from it afterwards and it has not announced since"
	l := newSyncModel(c)
	defer l.Close()
	if c.Replay != "" {
		ops, err := lib.ReadReplayOps(c.Replay)
		if err != nil {
			return err
		}
		s, err := parseScn(ops)
		if err != nil {
			return err
		}
		res := runScenario("replay", s, oracleC06)
		n := 0
		reportScn(c, res, &n)
		l.check(c, res)
		if res.Err != nil {
			return res.Err
		}
		return nil
	}
	replayKnownC06(c, "C06", oracleC06)
	// corpus: the witnesses of the repaired defects run FIRST, as ordinary cases (a fixed entry suppresses nothing: if a
	// defect returns, its oracle signature is unlisted and the run ends in VIOLATION; the model would disagree as well)
	corpusErrs := 0
	for _, cs := range c06Corpus {
		s, err := parseScn(cs.Ops)
		if err != nil {
			return fmt.Errorf("corpus %s: %w", cs.Name, err)
		}
		res := runScenario("corpus-"+cs.Name, s, oracleC06)
		if res.Err != nil {
			res = runScenario("corpus-"+cs.Name+"-retry", s, oracleC06)
		}
		reportScn(c, res, &corpusErrs)
		l.check(c, res)
		c.R.Count("kind:corpus", 1)
	}
	if corpusErrs > 0 {
		c.R.Fail(lib.Failure{Case: "corpus", What: "a corpus scenario could not be evaluated (rig error, see notes)", Signature: "c06-other:rig-error"})
	}
	// a handful of syncs of a longer chain under concurrent reads of the store
	rrng := lib.Rng(c.Seed, "c06-readers")
	nReaders := 5
	if c.Thorough {
		nReaders = 40
	}
	for i := 0; i < nReaders; i++ {
		engine := "legacy"
		if i%5 == 4 {
			engine = "exp"
		}
		s := genReaders(rrng, engine)
		name := fmt.Sprintf("readers-%s-%d", engine, i)
		res := runScenario(name, s, oracleC06)
		if res.Err != nil {
			res = runScenario(name+"-retry", s, oracleC06)
		}
		reportScn(c, res, &corpusErrs)
		c.R.Count("kind:concurrent-reads", 1)
	}
	// the same new block announced by several nodes (own random stream: the main stream's scenarios stay what they were)
	srng := lib.Rng(c.Seed, "c06-same-block")
	nSame := 36
	if c.Thorough {
		nSame = 400
	}
	for i := 0; i < nSame; i++ {
		s := genSameBlock(srng, genOpts{MaxLen: 40})
		name := fmt.Sprintf("same-block-legacy-%d", i)
		res := runScenario(name, s, oracleC06)
		if res.Err != nil {
			res = runScenario(name+"-retry", s, oracleC06)
		}
		reportScn(c, res, &corpusErrs)
		l.check(c, res)
		c.R.Count("kind:same-block", 1)
	}
	// an announcement by the sync peer in the middle of the initial sync (finding C06-F5; own random stream)
	mrng0 := lib.Rng(c.Seed, "c06-midsync-inv")
	nMid := 24
	if c.Thorough {
		nMid = 300
	}
	for i := 0; i < nMid; i++ {
		s := genMidSyncInv(mrng0)
		name := fmt.Sprintf("midsync-inv-legacy-%d", i)
		res := runScenario(name, s, oracleC06)
		if res.Err != nil {
			res = runScenario(name+"-retry", s, oracleC06)
		}
		reportScn(c, res, &corpusErrs)
		l.check(c, res)
		c.R.Count("kind:midsync-inv", 1)
	}
	rng := lib.Rng(c.Seed, "c06-scenarios")
	o := genOpts{MaxLen: 40}
	budget := 60 * time.Second
	count := 900
	if c.Thorough {
		o = genOpts{MaxLen: 60, BigLen: 3000}
		budget = 12 * time.Minute
		count = 12000
	}
	start := time.Now()
	rigErrs := 0
	if c.Thorough {
		// the full small matrix, once: {engine} x {checkpoints disabled, enabled} x {one, several, last at tip, none(exp)}
		// x {genesis, prefix, stale fork} x peers 1..3 x cap {1,2,7,2000} x announce {headers, inv} x
		// {no loss, close at index 0..3, stall at index 0..3}; everything else (lengths, lagging, order, …) drawn
		mrng := lib.Rng(c.Seed, "c06-matrix")
		n := 0
		for _, engine := range []string{"legacy", "exp"} {
			cpoffs, cpmodes, peers := []int{0, 1}, []int{0, 1, 2}, []int{0, 1, 2}
			if engine == "exp" {
				cpoffs, cpmodes, peers = []int{1}, []int{0, 1, 2, 3}, []int{0}
			}
			for _, cpoff := range cpoffs {
				for _, cpm := range cpmodes {
					for initm := 0; initm < 3; initm++ {
						for _, np := range peers {
							for capi := range capAlphabet {
								for how := 0; how < 2; how++ {
									losses := [][2]int{{0, 0}}
									if np > 0 {
										for k := 0; k < 4; k++ {
											losses = append(losses, [2]int{2, k}, [2]int{3, k})
										}
									}
									for _, ls := range losses {
										om := genOpts{MaxLen: 24, Fix: &linFix{cpoff, cpm, initm, np, capi, how, ls[0], ls[1]}}
										s := genLinear(mrng, om, engine)
										name := fmt.Sprintf("matrix-%s-%d", engine, n)
										n++
										res := runScenario(name, s, oracleC06)
										if res.Err != nil {
											res = runScenario(name+"-retry", s, oracleC06)
										}
										reportScn(c, res, &rigErrs)
										l.check(c, res)
										c.R.Count("kind:matrix", 1)
									}
								}
							}
						}
					}
				}
			}
		}
		c.R.Exhaustive = true
		c.R.Notes = append(c.R.Notes, fmt.Sprintf("full small matrix: %d scenarios", n))
	}
	for i := 0; i < count && time.Since(start) < budget; i++ {
		engine := "legacy"
		if rng.Intn(3) == 0 {
			engine = "exp"
		}
		var s *scn
		kind := "linear"
		if rng.Intn(3) == 0 {
			kind = "fork"
			s = genFork(rng, o, engine)
		} else {
			s = genLinear(rng, o, engine)
		}
		name := fmt.Sprintf("%s-%s-%d", kind, engine, i)
		res := runScenario(name, s, oracleC06)
		if res.Err != nil { // infrastructure hiccup: one retry before it is reported
			res = runScenario(name+"-retry", s, oracleC06)
		}
		reportScn(c, res, &rigErrs)
		l.check(c, res)
		c.R.Count("kind:"+kind, 1)
		if len(c.R.Samples) < 6 && scnNontrivial(s) {
			c.R.Sample(map[string]any{"scenario": s.Ops()}, 6)
		}
	}
	c.R.ModelOps = l.ops()
	if rigErrs > 0 {
		c.R.Fail(lib.Failure{Case: "rig", What: fmt.Sprintf("%d scenarios could not be evaluated (rig errors, see notes)", rigErrs), Signature: "c06-other:rig-error"})
	}
	return nil
}

// c06Corpus: witnesses of defects this check found and /repo has repaired (KNOWN_FINDINGS `fixed` entries), and fixed
// scenarios of shapes the random generators hit rarely (the same block announced by several nodes).
var c06Corpus = []struct {
	Name string
	Ops  []string
}{
	{"F4a-8573612", []string{"c06 engine=legacy cpoff=1 cps=2 init= forbid= sched=serial seed=1 salt=1", "tree parents=0~4",
		"node path=0..4 pos=5 cap=2000 dir=out honest=1", "step connect 0", "step run"}},
	{"F4b-f49151a", []string{"c06 engine=legacy cpoff=0 cps=2 init= forbid= sched=serial seed=1 salt=1", "tree parents=0~6",
		"node path=0..6 pos=5 cap=2000 dir=out honest=1", "step connect 0", "step run", "step announce 0 inv 1", "step run",
		"step announce 0 inv 1", "step run"}},
	{"F4d-0b0b1e1", []string{"c06 engine=legacy cpoff=0 cps=2 init= forbid= sched=serial seed=1 salt=4", "tree parents=0~6",
		"node path=0..6 pos=5 cap=2000 dir=out honest=1", "step connect 0", "step announce 0 inv 1", "step run", "step tick 200",
		"step run", "step announce 0 inv 1", "step run"}},
	// a block announced in an inv whose FIRST entries are transactions (tx, tx, block, tx): the last block entry counts
	{"inv-tx-before-block", []string{"c06 engine=legacy cpoff=0 cps=2 init= forbid= sched=serial seed=1 salt=47", "tree parents=0~6",
		"node path=0..6 pos=5 cap=2000 dir=out honest=1", "step connect 0", "step run", "step announce 0 invt 1", "step run",
		"step announce 0 invt 1", "step run"}},
	// the same new block (#5) announced by inv by two nodes. Node 1 is not the sync peer and stalls: its inv is honoured
	// (the service is current) with a getheaders it never answers; then the sync peer node 0 announces the same block
	{"same-block-stalling-peer-first", []string{"c06 engine=legacy cpoff=0 cps=2 init= forbid= sched=serial seed=1 salt=31", "tree parents=0~5",
		"node path=0..5 pos=5 cap=2000 dir=out honest=1", "node path=0..5 pos=5 cap=2000 dir=out honest=0",
		"step connect 0", "step run", "step connect 1", "step run", "step stall 1", "step announce 1 inv 1", "step run",
		"step announce 0 inv 1", "step run"}},
	// … the service is NOT current (the new block is the last checkpoint): the inv of the healthy non-sync node 1 is
	// ignored by design, then the sync peer announces the same block
	{"same-block-ignored-peer-first", []string{"c06 engine=legacy cpoff=0 cps=5 init= forbid= sched=serial seed=1 salt=37", "tree parents=0~5",
		"node path=0..5 pos=5 cap=2000 dir=out honest=1", "node path=0..5 pos=5 cap=2000 dir=out honest=1",
		"step connect 0", "step run", "step connect 1", "step run", "step announce 1 inv 1", "step run",
		"step announce 0 inv 1", "step run"}},
	// … three announcers, the sync peer (node 2) last
	{"same-block-three-announcers", []string{"c06 engine=legacy cpoff=0 cps=6 init= forbid= sched=serial seed=1 salt=41", "tree parents=0~6",
		"node path=0..6 pos=6 cap=2000 dir=out honest=1", "node path=0..6 pos=6 cap=2000 dir=in honest=1", "node path=0..6 pos=6 cap=2000 dir=out honest=1",
		"step connect 2", "step run", "step connect 0", "step connect 1", "step run", "step announce 1 inv 1", "step run",
		"step announce 0 inv 1", "step run", "step announce 2 inv 1", "step run"}},
}

// replayKnownC06 replays the witnesses of the property's known findings.
func replayKnownC06(c *Ctx, prop string, oracle func(*rig, *scnResult)) {
	for _, k := range lib.KnownFor(c.Known, prop) {
		if len(k.Witness.Ops) == 0 {
			continue
		}
		s, err := parseScn(k.Witness.Ops)
		if err != nil {
			c.R.Notes = append(c.R.Notes, fmt.Sprintf("known finding %s: bad witness: %v", k.ID, err))
			c.R.KnownReplayed[k.ID] = "not-reproduced"
			continue
		}
		res := runScenario("known-"+k.ID, s, oracle)
		if res.Err != nil {
			res = runScenario("known-"+k.ID+"-retry", s, oracle)
		}
		st := "not-reproduced"
		for _, f := range res.Failures {
			if f.Signature == k.Signature {
				st = "reproduced"
			}
		}
		c.R.KnownReplayed[k.ID] = st
		c.R.Count("known-replayed", 1)
	}
}
