package main

// C05, a storage failure INSIDE one state update of a deep reorganisation. The other streams of the C05 runner inject
// kills and failed writes at the repository interface, where a state update of any size is one call. Here the failure is
// injected in the database itself (a SQLite trigger that refuses the update of ONE chosen row), during a reorganisation
// that relabels more than 500 headers in each direction — more than any plausible statement batch. After the failed
// submission: restart (database.Init on the same file), redelivery of the whole history; the table must equal the
// table of an uninterrupted ingestion of the same history. Oracle only (the model's prefixes are whole statements).

import (
	dbsql "database/sql"
	"fmt"
	"strings"
	"sync"
	"time"

	"github.com/bitcoin-sv/block-headers-service/verifharness/lib"
)

func c05DeepReorg(c *Ctx) error {
	depth := 520
	if c.Thorough {
		depth = 1300
	}
	// A1..A<depth> from genesis (longest), B1..B<depth> from genesis (stale: equal work, seen later), then B<depth+1>
	var nodes []Node
	for i := 0; i < depth; i++ {
		nodes = append(nodes, Node{Parent: i - 1, Bits: bitsSmall[1]})
	}
	for i := 0; i < depth; i++ {
		par := depth + i - 1
		if i == 0 {
			par = -1
		}
		nodes = append(nodes, Node{Parent: par, Bits: bitsSmall[1]})
	}
	nodes = append(nodes, Node{Parent: 2*depth - 1, Bits: bitsSmall[1]})
	buildTree(nodes, 6100+uint32(c.Seed), nil, false)
	ingestAll := func(ci *ChainImpl) {
		for i := range nodes {
			ci.Op("add " + nodes[i].Hdr.Hex())
		}
	}
	labels := func(ci *ChainImpl) (string, error) {
		rows, err := ci.Dump()
		if err != nil {
			return "", err
		}
		var sb strings.Builder
		lc, stale, other := 0, 0, 0
		for _, r := range rows {
			switch r.State {
			case "LONGEST_CHAIN":
				lc++
			case "STALE":
				stale++
			default:
				other++
			}
			sb.WriteString(r.Hash[:8] + ":" + r.State[:1] + " ")
		}
		return fmt.Sprintf("%d rows, %d longest / %d stale / %d other | %s", len(rows), lc, stale, other, sb.String()), nil
	}
	ref, err := newChainImpl("c05-deep-ref.db", lib.StackOpts{NoEngine: true})
	if err != nil {
		return err
	}
	ingestAll(ref)
	want, err := labels(ref)
	ref.Close()
	if err != nil {
		return err
	}
	// the row whose update is refused: the last row of the demoted branch, the first and the last row of the promoted one
	victims := map[string]int{"last header of the branch being demoted": depth - 1, "first header of the branch being promoted": depth, "last header of the branch being promoted": 2*depth - 1}
	for what, idx := range victims {
		ci, err := newChainImpl("c05-deep.db", lib.StackOpts{NoEngine: true})
		if err != nil {
			return err
		}
		for i := 0; i < len(nodes)-1; i++ {
			ci.Op("add " + nodes[i].Hdr.Hex())
		}
		victim := nodes[idx].Hdr.HashStr()
		if _, err := ci.DB.Exec(fmt.Sprintf("CREATE TRIGGER verif_refuse BEFORE UPDATE OF header_state ON headers WHEN OLD.hash = '%s' BEGIN SELECT RAISE(FAIL, 'injected storage failure'); END", victim)); err != nil {
			ci.Close()
			return err
		}
		out := ci.Op("add " + nodes[len(nodes)-1].Hdr.Hex())
		_, _ = ci.DB.Exec("DROP TRIGGER verif_refuse")
		if err := ci.Restart(); err != nil {
			ci.Close()
			return err
		}
		ingestAll(ci)
		got, err := labels(ci)
		ci.Close()
		if err != nil {
			return err
		}
		c.R.OracleChecked++
		c.R.Case("deep reorganisation, update refused for the "+what, true)
		c.R.Count("deep reorganisation with a row-level storage failure", 1)
		if got != want {
			gs, ws := got, want
			if i := strings.Index(gs, "|"); i > 0 {
				gs = gs[:i]
			}
			if i := strings.Index(ws, "|"); i > 0 {
				ws = ws[:i]
			}
			c.R.Fail(lib.Failure{Case: "deep reorganisation (" + what + ")",
				Ops:      []string{fmt.Sprintf("# c05 deep: A1..A%d longest, B1..B%d stale, then B%d reorganises; SQLite trigger refuses the state update of the %s; restart; redelivery of the whole history", depth, depth, depth+1, what)},
				What:     "after a storage failure inside one state update of a deep reorganisation, restart and redelivery do not reach the table of the uninterrupted run (the faulted submission answered: " + strings.Fields(out + " -")[0] + ")",
				Expected: ws, Observed: gs, Signature: "c05-deep-reorg-partial-state-update"})
		}
	}
	return c05CommitBlocked(c)
}

// c05CommitBlocked: a failure that only shows at COMMIT time. Another connection keeps a read cursor open on the
// table (as a slow API reader would), so the first write transaction of a reorganising submission cannot get its
// exclusive lock and its COMMIT fails after SQLite's busy timeout. The submission must be answered with an error and,
// after the reader is gone, restart and redelivery must reach the table of the uninterrupted run.
func c05CommitBlocked(c *Ctx) error {
	nodes := []Node{{Parent: -1, Bits: bitsSmall[1]}, {Parent: 0, Bits: bitsSmall[1]}, {Parent: 1, Bits: bitsSmall[1]},
		{Parent: -1, Bits: bitsSmall[1]}, {Parent: 3, Bits: bitsSmall[1]}, {Parent: 4, Bits: bitsSmall[1]}, {Parent: 5, Bits: bitsSmall[1]}}
	buildTree(nodes, 6300+uint32(c.Seed), nil, false)
	labels := func(ci *ChainImpl) string {
		rows, _ := ci.Dump()
		var sb strings.Builder
		for _, r := range rows {
			sb.WriteString(r.Hash[:8] + ":" + r.State[:1] + " ")
		}
		return sb.String()
	}
	ref, err := newChainImpl("c05-commit-ref.db", lib.StackOpts{NoEngine: true})
	if err != nil {
		return err
	}
	for i := range nodes {
		ref.Op("add " + nodes[i].Hdr.Hex())
	}
	want := labels(ref)
	ref.Close()
	ci, err := newChainImpl("c05-commit.db", lib.StackOpts{NoEngine: true})
	if err != nil {
		return err
	}
	defer ci.Close()
	for i := 0; i < len(nodes)-1; i++ {
		ci.Op("add " + nodes[i].Hdr.Hex())
	}
	rd, err := dbsql.Open("sqlite3", "file:"+ci.file)
	if err != nil {
		return err
	}
	rd.SetMaxOpenConns(1)
	cur, err := rd.Query("SELECT hash FROM headers")
	if err != nil {
		rd.Close()
		return err
	}
	cur.Next() // the cursor stays open: a shared lock is held
	// The reader goes away 7.5 s later (or when the submission has been answered): SQLite's busy timeout is 5 s, so
	// the FIRST write transaction of the submission (the demotion of the old branch) fails at COMMIT, and whatever
	// the service attempts after that finds the table free again — a failure that is swallowed there shows as a
	// half-done switch.
	var once sync.Once
	release := func() { once.Do(func() { cur.Close(); rd.Close() }) }
	timer := time.AfterFunc(7500*time.Millisecond, release)
	out := ci.Op("add " + nodes[len(nodes)-1].Hdr.Hex())
	timer.Stop()
	release()
	c.R.OracleChecked++
	c.R.Case("reorganising submission whose first COMMIT is blocked by a reader", true)
	c.R.Count("submission with a COMMIT-time storage failure (reader holds the table)", 1)
	rows, _ := ci.Dump()
	answered := strings.Fields(out + " -")[0]
	inTable := false
	for _, r := range rows {
		if r.Hash == nodes[len(nodes)-1].Hdr.HashStr() {
			inTable = true
		}
	}
	if answered == "stored" && !inTable {
		c.R.Fail(lib.Failure{Case: "commit blocked by a reader", Ops: []string{"# c05 commit: a second connection keeps a read cursor open on table headers while the reorganising header is submitted"},
			What: "the submission was answered 'stored' although its COMMIT failed: the header is not in the table", Expected: "an error answer, or the header in the table", Observed: out, Signature: "c05-commit-failure-reported-as-success"})
	}
	if err := ci.Restart(); err != nil {
		return err
	}
	for i := range nodes {
		ci.Op("add " + nodes[i].Hdr.Hex())
	}
	if got := labels(ci); got != want {
		c.R.Fail(lib.Failure{Case: "commit blocked by a reader", Ops: []string{"# c05 commit: a second connection keeps a read cursor open on table headers while the reorganising header is submitted; then the reader goes away, restart, redelivery of the whole history"},
			What: "after a COMMIT-time failure inside a reorganising submission (answered: " + answered + "), restart and redelivery do not reach the table of the uninterrupted run", Expected: want, Observed: got, Signature: "c05-commit-failure-not-recovered"})
	}
	return nil
}
