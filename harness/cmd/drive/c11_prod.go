package main

// C11, production webhook client: the other streams of the C11 runner drive WebhooksService through a scripted
// client; here the real transports/http/client is used against a real HTTP server on the loopback interface, with
// several webhooks on the SAME host:port (what one receiver application with several endpoints looks like):
// a healthy one registered first, one that accepts the request and never answers, a healthy one registered after it.
// Oracle: each healthy webhook receives exactly one POST per stored header — the one listed after the silent target
// at the latest once the client gives up on the silent one.

import (
	"encoding/json"
	"fmt"
	"io"
	"net/http"
	"net/http/httptest"
	"strings"
	"sync"
	"time"

	"github.com/bitcoin-sv/block-headers-service/verifharness/lib"
)

func parseEventJSON(data []byte) string {
	var ev struct {
		Operation string `json:"operation"`
		Header    struct {
			Height        int64       `json:"height"`
			Hash          string      `json:"hash"`
			Version       int64       `json:"version"`
			MerkleRoot    string      `json:"merkleRoot"`
			Timestamp     time.Time   `json:"creationTimestamp"`
			Nonce         uint32      `json:"nonce"`
			State         string      `json:"state"`
			CumulatedWork json.Number `json:"work"`
			PreviousBlock string      `json:"prevBlockHash"`
		} `json:"header"`
	}
	if err := json.Unmarshal(data, &ev); err != nil {
		return "unparsable:" + string(data)
	}
	h := ev.Header
	return fmt.Sprintf("%s %s,%s,%s,%d,%d,%d,%d,%s,%s", ev.Operation, h.Hash, h.PreviousBlock, h.MerkleRoot, h.Height, h.Version, h.Timestamp.Unix(), h.Nonce, h.CumulatedWork.String(), h.State)
}

// prodFirst: the first healthy webhook's address has upper-case letters in path and query (both case-sensitive parts
// of a URL): the events must arrive at exactly the registered address.
const prodFirst = "/First/BHS/newHeader?apiKey=AbC123xYz"

type prodHooks struct {
	srv     *httptest.Server
	st      *lib.Stack
	mu      sync.Mutex
	got     map[string][]string
	release chan struct{}
	name    string
	ops     []string
	want    []string
	started time.Time
}

func newProdHooks(tag string) (*prodHooks, error) {
	p := &prodHooks{got: map[string][]string{}, release: make(chan struct{})}
	p.srv = httptest.NewServer(http.HandlerFunc(func(w http.ResponseWriter, r *http.Request) {
		b, _ := io.ReadAll(r.Body)
		uri := r.URL.RequestURI() // path and query exactly as the service sent them (both are case-sensitive)
		p.mu.Lock()
		p.got[uri] = append(p.got[uri], parseEventJSON(b))
		nth := len(p.got[uri])
		p.mu.Unlock()
		// every fourth request to the healthy first webhook: the receiver has read (and recorded) the event and its
		// connection — a keep-alive connection reused from earlier deliveries — is cut before any answer. The service books
		// a failed delivery; the event must not be sent a second time (one ADD per stored header and channel)
		if uri == prodFirst && nth%4 == 3 {
			if hj, ok := w.(http.Hijacker); ok {
				if conn, _, err := hj.Hijack(); err == nil {
					_ = conn.Close()
					return
				}
			}
		}
		if strings.HasPrefix(r.URL.Path, "/silent") {
			select {
			case <-p.release:
			case <-r.Context().Done():
			}
		}
		w.WriteHeader(200)
		// a reply the client cannot have completely in hand when the response head arrives: flushed head, then a body
		// that keeps coming in pieces (what a receiver behind a streaming proxy answers)
		if f, ok := w.(http.Flusher); ok && uri == prodFirst {
			f.Flush()
			chunk := []byte(strings.Repeat("acknowledged ", 512))
			for i := 0; i < 12; i++ {
				_, _ = w.Write(chunk)
				f.Flush()
				if i == 3 {
					time.Sleep(2 * time.Millisecond)
				}
			}
			return
		}
		_, _ = w.Write([]byte("ok"))
	}))
	st, err := lib.NewStack(lib.StackOpts{File: lib.TempDB("c11-prod-" + tag + ".db"), NoEngine: true, MaxTries: 3})
	if err != nil {
		p.srv.Close()
		return nil, err
	}
	p.st = st
	for _, path := range []string{prodFirst, "/silent", "/after"} {
		if _, err := st.Svc.Webhooks.CreateWebhook("BEARER", "", "t", p.srv.URL+path); err != nil {
			p.close()
			return nil, fmt.Errorf("create webhook: %v", err)
		}
	}
	return p, nil
}

func (p *prodHooks) posts(path string) []string {
	p.mu.Lock()
	defer p.mu.Unlock()
	return append([]string(nil), p.got[path]...)
}

func (p *prodHooks) close() {
	select {
	case <-p.release:
	default:
		close(p.release)
	}
	p.srv.CloseClientConnections()
	p.srv.Close()
	if p.st != nil {
		p.st.Close()
	}
}

// verify is called at the end of the run: the webhook listed after the silent target has had `patience` since the
// end of its history's ingestion.
func (p *prodHooks) verify(c *Ctx, patience time.Duration) {
	want := strings.Join(sortedCopy(p.want), "\n")
	for _, path := range []string{prodFirst, "/after"} {
		budget := 5 * time.Second
		if path == "/after" {
			budget = time.Until(p.started.Add(patience))
			if budget < time.Second {
				budget = time.Second
			}
		}
		ok := waitFor(func() bool { return len(p.posts(path)) >= len(p.want) }, budget)
		time.Sleep(5 * time.Millisecond)
		got := strings.Join(sortedCopy(p.posts(path)), "\n")
		c.R.OracleChecked++
		if !ok || got != want {
			what := "production webhook client, three webhooks on one host:port (healthy, silent, healthy): the healthy webhook registered FIRST did not receive exactly one ADD per stored header"
			sig := "c11-events:prod-webhook-before-silent"
			if path == "/after" {
				what = fmt.Sprintf("production webhook client, three webhooks on one host:port (healthy, silent, healthy): the healthy webhook registered AFTER the silent one did not receive exactly one ADD per stored header within %s (%d expected, %d received)", patience, len(p.want), len(p.posts(path)))
				sig = "c11-events:prod-webhook-after-silent"
			}
			c.R.Fail(lib.Failure{Case: p.name, Ops: append([]string{}, p.ops...), What: what, Expected: want, Observed: got, Signature: sig})
		}
	}
	c.R.Count("history with production webhook client and a silent target", 1)
	p.close()
}
