package main

// C13 extra stream: getheaders answered THROUGH THE PEER, not by calling the service.
//
// Real store (SQLite, database.Init, Chains.Add), real server pieces of the inbound path
// (overlay VerifNewInboundServer: server + real SyncManager; VerifInboundPeerConnected =
// server.inboundPeerConnected → peer.Peer → serverPeer.OnGetHeaders), scripted remote peer over
// loopback TCP. After the handshake the remote writes k getheaders back-to-back and reads
// nothing; the server side of the socket is a slow reader's socket: its writes are held back
// until the peer's input handler has consumed all k requests (timer free — it comes back for
// more input), then released. The i-th `headers` reply must be the answer to the i-th request.
//
// ops (replayable):  c13peer store <n> <nstale>
//                    c13peer gh <stopHeight|-|u|s<j>> <locator entries: height | u<k> (unknown) | s<j> (j-th stale header)> …
//                    c13peer run                     (send everything queued so far pipelined, read the answers, judge)
//                    c13peer ask <stop> <locator…>   one getheaders followed by a ping; everything up to the pong is its answer:
//                                                    exactly one headers message, equal to what the chain says NOW (no time-out in the verdict)
//                    c13peer grow <m>                the node learns m more headers (Chains.Add on the service side)

import (
	"fmt"
	"net"
	"strconv"
	"strings"
	"sync"
	"time"

	"github.com/bitcoin-sv/block-headers-service/config"
	"github.com/bitcoin-sv/block-headers-service/domains"
	"github.com/bitcoin-sv/block-headers-service/internal/chaincfg"
	"github.com/bitcoin-sv/block-headers-service/internal/chaincfg/chainhash"
	"github.com/bitcoin-sv/block-headers-service/internal/wire"
	"github.com/bitcoin-sv/block-headers-service/transports/p2p"
	"github.com/bitcoin-sv/block-headers-service/transports/p2p/peer"
	"github.com/bitcoin-sv/block-headers-service/verifharness/lib"
)

const c13PeerSig = "c13-peer-pipelined-getheaders-wrong-answer"

// c13GateConn: server side of the TCP connection. Once armed it holds every Write back until
// released and reports when the reader comes back for more input after `target` bytes.
type c13GateConn struct {
	net.Conn
	mu      sync.Mutex
	armed   bool
	target  int
	read    int
	handled chan struct{}
	once    sync.Once
	release chan struct{}
}

func (g *c13GateConn) arm(target int) {
	g.mu.Lock()
	g.armed, g.target, g.read = true, target, 0
	g.mu.Unlock()
}

func (g *c13GateConn) Read(b []byte) (int, error) {
	g.mu.Lock()
	if g.armed && g.read >= g.target {
		g.once.Do(func() { close(g.handled) })
	}
	g.mu.Unlock()
	n, err := g.Conn.Read(b)
	g.mu.Lock()
	if g.armed {
		g.read += n
	}
	g.mu.Unlock()
	return n, err
}

func (g *c13GateConn) Write(b []byte) (int, error) {
	g.mu.Lock()
	armed := g.armed
	g.mu.Unlock()
	if armed {
		<-g.release
	}
	return g.Conn.Write(b)
}

type c13PeerReq struct {
	op      string
	locator []*chainhash.Hash
	stop    chainhash.Hash
}

type c13PeerRig struct {
	st      *lib.Stack
	srv     *p2p.VerifServer
	chain   []chainhash.Hash // longest chain by height (0 = genesis)
	height  map[chainhash.Hash]int
	stale   []chainhash.Hash
	tag     int   // next header tag / timestamp offset
	base    int64 // timestamp base
	nonce   uint64
	remote  net.Conn
	gate    *c13GateConn
	ln      net.Listener
	pending []c13PeerReq
}

func (r *c13PeerRig) close() {
	if r.remote != nil {
		_ = r.remote.Close()
	}
	if r.gate != nil {
		_ = r.gate.Close()
	}
	if r.ln != nil {
		_ = r.ln.Close()
	}
	if r.srv != nil {
		p2p.VerifStopInboundServer(r.srv)
	}
	if r.st != nil {
		r.st.Close()
	}
}

const c13PeerPver = uint32(70013)

func c13NewPeerRig(n, nstale int) (*c13PeerRig, error) {
	log := lib.DiscardLog()
	if config.TimeSource == nil {
		config.TimeSource = config.NewMedianTime(&log)
	}
	params := &chaincfg.MainNetParams
	st, err := lib.NewStack(lib.StackOpts{File: lib.TempDB(fmt.Sprintf("c13peer-%d.db", time.Now().UnixNano())), NoEngine: true,
		Checkpoints: []chaincfg.Checkpoint{{Height: 0, Hash: params.GenesisHash}}})
	if err != nil {
		return nil, err
	}
	r := &c13PeerRig{st: st, height: map[chainhash.Hash]int{}}
	r.chain = append(r.chain, *params.GenesisHash)
	r.height[*params.GenesisHash] = 0
	base := time.Now().Add(-2 * time.Hour).Unix()
	r.base, r.tag = base, n+1
	add := func(prev chainhash.Hash, tag int, at int, bits uint32) (chainhash.Hash, error) {
		src := domains.BlockHeaderSource{Version: 1, PrevBlock: prev, MerkleRoot: chainhash.DoubleHashH([]byte(fmt.Sprintf("c13peer-%d", tag))),
			Timestamp: time.Unix(base+int64(at), 0), Bits: bits, Nonce: uint32(tag)}
		h, err := st.Svc.Chains.Add(src)
		if err != nil {
			return chainhash.Hash{}, err
		}
		return h.Hash, nil
	}
	for h := 1; h <= n; h++ {
		hash, err := add(r.chain[h-1], h, h, 0x207fffff)
		if err != nil {
			r.close()
			return nil, fmt.Errorf("adding header %d: %w", h, err)
		}
		r.chain = append(r.chain, hash)
		r.height[hash] = h
	}
	// stale siblings (same work, stored later): known hashes that are not on the longest chain
	for j := 0; j < nstale; j++ {
		at := 1 + (j*37+11)%(n-1)
		hash, err := add(r.chain[at-1], 1000000+j, at, 0x207fffff)
		if err != nil {
			r.close()
			return nil, fmt.Errorf("adding stale header %d: %w", j, err)
		}
		r.stale = append(r.stale, hash)
	}
	if tip := st.Svc.Headers.GetTip(); tip == nil || int(tip.Height) != n || tip.Hash != r.chain[n] {
		r.close()
		return nil, fmt.Errorf("c13peer: the stored tip is not the header added at height %d", n)
	}
	if !st.Svc.Headers.IsCurrent() {
		r.close()
		return nil, fmt.Errorf("c13peer: the node does not consider itself current (getheaders would be ignored)")
	}
	peers := make(map[*peer.Peer]*peer.SyncState)
	r.srv, err = p2p.VerifNewInboundServer(st.Svc, peers, st.Cfg.P2P, params, &log)
	if err != nil {
		r.srv = nil
		r.close()
		return nil, err
	}
	r.ln, err = net.Listen("tcp", "127.0.0.1:0")
	if err != nil {
		r.close()
		return nil, err
	}
	accepted := make(chan net.Conn, 1)
	go func() {
		if c, err := r.ln.Accept(); err == nil {
			accepted <- c
		}
	}()
	r.remote, err = net.Dial("tcp", r.ln.Addr().String())
	if err != nil {
		r.close()
		return nil, err
	}
	select {
	case sc := <-accepted:
		r.gate = &c13GateConn{Conn: sc, handled: make(chan struct{}), release: make(chan struct{})}
	case <-time.After(30 * time.Second):
		r.close()
		return nil, fmt.Errorf("c13peer: loopback accept timed out")
	}
	p2p.VerifInboundPeerConnected(r.srv, r.gate, &log)
	// handshake of the scripted remote peer
	me := wire.NewNetAddressIPPort(net.ParseIP("127.0.0.1"), 18444, wire.SFNodeNetwork)
	you := wire.NewNetAddressIPPort(net.ParseIP("127.0.0.1"), 18445, wire.SFNodeNetwork)
	ver := wire.NewMsgVersion(me, you, 0xC13C13C13, 0)
	ver.ProtocolVersion = int32(c13PeerPver)
	ver.UserAgent = "/verif-scripted:0.1/"
	if err := wire.WriteMessage(r.remote, ver, c13PeerPver, params.Net); err != nil {
		r.close()
		return nil, err
	}
	gotVersion, gotVerack := false, false
	for !gotVersion || !gotVerack {
		msg, err := r.recv(60 * time.Second)
		if err != nil {
			r.close()
			return nil, fmt.Errorf("c13peer handshake: %w", err)
		}
		switch msg.(type) {
		case *wire.MsgVersion:
			gotVersion = true
		case *wire.MsgVerAck:
			gotVerack = true
		}
	}
	if err := wire.WriteMessage(r.remote, wire.NewMsgVerAck(), c13PeerPver, params.Net); err != nil {
		r.close()
		return nil, err
	}
	return r, nil
}

func (r *c13PeerRig) recv(timeout time.Duration) (wire.Message, error) {
	_ = r.remote.SetReadDeadline(time.Now().Add(timeout))
	msg, _, err := wire.ReadMessage(r.remote, c13PeerPver, wire.MainNet)
	return msg, err
}

func (r *c13PeerRig) entry(w string, salt int) (chainhash.Hash, error) {
	switch {
	case strings.HasPrefix(w, "u"):
		return chainhash.DoubleHashH([]byte(fmt.Sprintf("c13peer-unknown-%s-%d", w, salt))), nil
	case strings.HasPrefix(w, "s"):
		j, err := strconv.Atoi(w[1:])
		if err != nil || j >= len(r.stale) {
			return chainhash.Hash{}, fmt.Errorf("bad stale index %q", w)
		}
		return r.stale[j], nil
	}
	h, err := strconv.Atoi(w)
	if err != nil || h < 0 || h >= len(r.chain) {
		return chainhash.Hash{}, fmt.Errorf("bad height %q", w)
	}
	return r.chain[h], nil
}

func (r *c13PeerRig) queue(op string) error {
	w := strings.Fields(op)
	if len(w) < 3 {
		return fmt.Errorf("bad op %q", op)
	}
	req := c13PeerReq{op: op}
	if w[2] != "-" {
		h, err := r.entry(w[2], 7)
		if err != nil {
			return err
		}
		req.stop = h
	}
	for i, e := range w[3:] {
		h, err := r.entry(e, i)
		if err != nil {
			return err
		}
		hc := h
		req.locator = append(req.locator, &hc)
	}
	r.pending = append(r.pending, req)
	return nil
}

// grow: the node learns m more headers on top of its tip.
func (r *c13PeerRig) grow(m int) error {
	for i := 0; i < m; i++ {
		h := len(r.chain)
		src := domains.BlockHeaderSource{Version: 1, PrevBlock: r.chain[h-1], MerkleRoot: chainhash.DoubleHashH([]byte(fmt.Sprintf("c13peer-%d", r.tag))),
			Timestamp: time.Unix(r.base+int64(r.tag), 0), Bits: 0x207fffff, Nonce: uint32(r.tag)}
		r.tag++
		st, err := r.st.Svc.Chains.Add(src)
		if err != nil {
			return fmt.Errorf("growing the chain to height %d: %w", h, err)
		}
		if int(st.Height) != h || !st.IsLongestChain() {
			return fmt.Errorf("grown header stored at height %d state %s, wanted longest chain height %d", st.Height, st.State, h)
		}
		r.chain = append(r.chain, st.Hash)
		r.height[st.Hash] = h
	}
	return nil
}

// ask: one getheaders, then a ping. The peer handles its input in order and sends in order, so
// whatever `headers` messages arrive before the pong are the answer.
func (r *c13PeerRig) ask(c *Ctx, op string, ctxOps []string) error {
	if err := r.queue(op); err != nil {
		return err
	}
	q := r.pending[len(r.pending)-1]
	r.pending = r.pending[:len(r.pending)-1]
	gh := wire.NewMsgGetHeaders()
	gh.ProtocolVersion = c13PeerPver
	gh.BlockLocatorHashes = q.locator
	gh.HashStop = q.stop
	if err := wire.WriteMessage(r.remote, gh, c13PeerPver, wire.MainNet); err != nil {
		return err
	}
	r.nonce++
	nonce := 0xC13000000 + r.nonce
	if err := wire.WriteMessage(r.remote, wire.NewMsgPing(nonce), c13PeerPver, wire.MainNet); err != nil {
		return err
	}
	var answers [][]chainhash.Hash
	for {
		msg, err := r.recv(120 * time.Second)
		if err != nil {
			return fmt.Errorf("c13peer: no pong after %q: %w", op, err)
		}
		if h, ok := msg.(*wire.MsgHeaders); ok {
			var hs []chainhash.Hash
			for _, bh := range h.Headers {
				hs = append(hs, bh.BlockHash())
			}
			answers = append(answers, hs)
		}
		if p, ok := msg.(*wire.MsgPong); ok && p.Nonce == nonce {
			break
		}
	}
	c.R.OracleChecked++
	c.R.TracesValidated++
	c.R.Count("c13peer:sequential getheaders", 1)
	want := r.want(q)
	var svc []chainhash.Hash
	for _, h := range r.st.Svc.Headers.LocateHeaders(q.locator, &q.stop) {
		svc = append(svc, h.BlockHash())
	}
	same := func(a, b []chainhash.Hash) bool {
		if len(a) != len(b) {
			return false
		}
		for i := range a {
			if a[i] != b[i] {
				return false
			}
		}
		return true
	}
	switch {
	case len(answers) == 0:
		c.R.Fail(lib.Failure{Case: "c13peer", Ops: ctxOps, What: fmt.Sprintf("a getheaders (%s, tip height %d) got NO headers message at all: the pong to the ping sent right after it arrived first", op, len(r.chain)-1),
			Expected: "one headers message " + c13HashList(want), Observed: "none", Signature: "c13-peer-getheaders-not-answered"})
	case len(answers) > 1:
		c.R.Fail(lib.Failure{Case: "c13peer", Ops: ctxOps, What: fmt.Sprintf("a getheaders (%s) got %d headers messages", op, len(answers)),
			Expected: "one headers message", Observed: fmt.Sprint(len(answers)), Signature: "c13-peer-getheaders-answered-twice"})
	case !same(answers[0], want) || !same(answers[0], svc):
		c.R.Fail(lib.Failure{Case: "c13peer", Ops: ctxOps, What: fmt.Sprintf("the answer to getheaders (%s, tip height %d) is not the longest-chain headers following the highest locator entry up to the stop hash as the chain is NOW", op, len(r.chain)-1),
			Expected: c13HashList(want), Observed: c13HashList(answers[0]) + fmt.Sprintf(" (the service asked directly answers %s)", c13HashList(svc)), Signature: "c13-peer-sequential-getheaders-wrong-answer"})
	}
	return nil
}

// want: the property, from the harness' own record of the chain: the longest-chain headers
// following the HIGHEST locator entry on the longest chain (genesis when none), ascending, at most
// MaxBlockHeadersPerMsg, ending at the stop hash when that is on the longest chain.
func (r *c13PeerRig) want(q c13PeerReq) []chainhash.Hash {
	start := 0
	for _, l := range q.locator {
		if h, ok := r.height[*l]; ok && h > start {
			start = h
		}
	}
	limit := start + wire.MaxBlockHeadersPerMsg
	if h, ok := r.height[q.stop]; ok && h < limit {
		limit = h
	}
	var res []chainhash.Hash
	for h := start + 1; h <= limit && h < len(r.chain); h++ {
		res = append(res, r.chain[h])
	}
	return res
}

func c13HashList(hs []chainhash.Hash) string {
	if len(hs) == 0 {
		return "[]"
	}
	return fmt.Sprintf("[%d headers %s … %s]", len(hs), hs[0].String()[:12], hs[len(hs)-1].String()[:12])
}

// run sends the queued requests pipelined to a peer whose answers are held back, then reads and judges them.
func (r *c13PeerRig) run(c *Ctx, ctxOps []string) error {
	reqs := r.pending
	r.pending = nil
	if len(reqs) == 0 {
		return nil
	}
	// whatever the server says after the handshake (protoconf, sendheaders, its own getheaders …) comes first; it is skipped below
	var pipelined []byte
	for _, q := range reqs {
		gh := wire.NewMsgGetHeaders()
		gh.ProtocolVersion = c13PeerPver
		gh.BlockLocatorHashes = q.locator
		gh.HashStop = q.stop
		var buf strings.Builder
		if err := wire.WriteMessage(&buf, gh, c13PeerPver, wire.MainNet); err != nil {
			return err
		}
		pipelined = append(pipelined, buf.String()...)
	}
	// expected answers by the service the handler calls, asked directly (same store, nothing in between)
	var svcAns [][]chainhash.Hash
	for _, q := range reqs {
		var hs []chainhash.Hash
		for _, h := range r.st.Svc.Headers.LocateHeaders(q.locator, &q.stop) {
			hs = append(hs, h.BlockHash())
		}
		svcAns = append(svcAns, hs)
	}
	r.gate.arm(len(pipelined))
	werr := make(chan error, 1)
	go func() { _, err := r.remote.Write(pipelined); werr <- err }()
	select {
	case <-r.gate.handled:
	case <-time.After(120 * time.Second):
		return fmt.Errorf("c13peer: the peer did not consume %d pipelined getheaders within 120 s", len(reqs))
	}
	close(r.gate.release)
	if err := <-werr; err != nil {
		return err
	}
	var answers [][]chainhash.Hash
	for len(answers) < len(reqs) {
		msg, err := r.recv(120 * time.Second)
		if err != nil {
			c.R.OracleChecked++
			c.R.Fail(lib.Failure{Case: "c13peer", Ops: ctxOps, What: "a peer that pipelines getheaders did not get one headers reply per request",
				Expected: fmt.Sprintf("%d headers messages", len(reqs)), Observed: fmt.Sprintf("%d, then %v", len(answers), err), Signature: "c13-peer-getheaders-reply-missing"})
			return nil
		}
		if h, ok := msg.(*wire.MsgHeaders); ok {
			var hs []chainhash.Hash
			for _, bh := range h.Headers {
				hs = append(hs, bh.BlockHash())
			}
			answers = append(answers, hs)
		}
	}
	eq := func(a, b []chainhash.Hash) bool {
		if len(a) != len(b) {
			return false
		}
		for i := range a {
			if a[i] != b[i] {
				return false
			}
		}
		return true
	}
	big := 0
	for i, q := range reqs {
		c.R.OracleChecked++
		c.R.TracesValidated++
		want := r.want(q)
		if len(want) >= 1000 {
			big++
		}
		switch {
		case !eq(answers[i], want):
			c.R.Fail(lib.Failure{Case: "c13peer", Ops: ctxOps,
				What:     fmt.Sprintf("reply %d of %d to pipelined getheaders (%s) is not the longest-chain headers following the highest locator entry up to the stop hash", i+1, len(reqs), q.op),
				Expected: c13HashList(want), Observed: c13HashList(answers[i]) + fmt.Sprintf(" (the service asked directly answers %s)", c13HashList(svcAns[i])), Signature: c13PeerSig})
		case !eq(answers[i], svcAns[i]):
			c.R.Fail(lib.Failure{Case: "c13peer", Ops: ctxOps, What: fmt.Sprintf("reply %d differs from HeaderService.LocateHeaders for the same request (%s)", i+1, q.op),
				Expected: c13HashList(svcAns[i]), Observed: c13HashList(answers[i]), Signature: c13PeerSig})
		}
	}
	c.R.Case("c13peer|"+strings.Join(ctxOps, ";"), len(reqs) >= 3)
	c.R.Count("c13peer:pipelined-batches", 1)
	c.R.Count("c13peer:getheaders", len(reqs))
	c.R.Count("c13peer:answers>=1000 headers", big)
	return nil
}

// c13PeerRunOps interprets `c13peer …` ops.
func c13PeerRunOps(c *Ctx, ops []string) error {
	var r *c13PeerRig
	defer func() {
		if r != nil {
			r.close()
		}
	}()
	for i, op := range ops {
		w := strings.Fields(op)
		if len(w) < 2 || w[0] != "c13peer" {
			return fmt.Errorf("bad c13peer op %q", op)
		}
		switch w[1] {
		case "store":
			if r != nil {
				r.close()
			}
			n, _ := strconv.Atoi(w[2])
			ns := 0
			if len(w) > 3 {
				ns, _ = strconv.Atoi(w[3])
			}
			var err error
			if r, err = c13NewPeerRig(n, ns); err != nil {
				r = nil
				return err
			}
		case "gh":
			if r == nil {
				return fmt.Errorf("c13peer gh before store")
			}
			if err := r.queue(op); err != nil {
				return err
			}
		case "ask":
			if r == nil {
				return fmt.Errorf("c13peer ask before store")
			}
			if err := r.ask(c, op, ops[:i+1]); err != nil {
				return err
			}
		case "grow":
			if r == nil {
				return fmt.Errorf("c13peer grow before store")
			}
			m, _ := strconv.Atoi(w[2])
			if err := r.grow(m); err != nil {
				return err
			}
		case "run":
			if r == nil {
				return fmt.Errorf("c13peer run before store")
			}
			if err := r.run(c, ops[:i+1]); err != nil {
				return err
			}
			// one pipelined batch per connection (the gate is one-shot): a new store op starts the next
		default:
			return fmt.Errorf("bad c13peer op %q", op)
		}
	}
	return nil
}

// c13PeerReplay: is this a replay of c13peer ops?
func c13PeerReplay(c *Ctx) bool {
	if c.Replay == "" {
		return false
	}
	ops, err := lib.ReadReplayOps(c.Replay)
	return err == nil && len(ops) > 0 && strings.HasPrefix(ops[0], "c13peer ")
}

// c13PeerStream: the stream runC13 ends with (or the replay of its ops).
func c13PeerStream(c *Ctx) error {
	if c.Replay != "" {
		if !c13PeerReplay(c) {
			return nil
		}
		ops, _ := lib.ReadReplayOps(c.Replay)
		return c13PeerRunOps(c, ops)
	}
	rng := lib.Rng(c.Seed, "c13peer")
	type plan struct{ n, stale, k int }
	plans := []plan{{60 + rng.Intn(240), 4, 3 + rng.Intn(6)}, {60 + rng.Intn(240), 4, 10 + rng.Intn(31)}}
	if c.Thorough {
		plans = append(plans, plan{2300, 6, 40}, plan{120, 4, 25}, plan{300, 8, 40}, plan{2600, 4, 12})
	}
	for _, p := range plans {
		ops := []string{fmt.Sprintf("c13peer store %d %d", p.n, p.stale)}
		// a dialogue on the same connection first: a request repeated verbatim, repeated after the chain has grown
		// (a peer polling with its unchanged locator), with other requests in between
		{
			mk := func() string {
				lh := rng.Intn(p.n + 1)
				if rng.Intn(2) == 0 {
					lh = p.n - rng.Intn(4)
				}
				loc := []string{strconv.Itoa(lh)}
				for s := 1; lh-s > 0 && len(loc) < 8; s *= 2 {
					loc = append(loc, strconv.Itoa(lh-s))
				}
				stop := "-"
				if rng.Intn(4) == 0 {
					stop = "u"
				}
				return fmt.Sprintf("c13peer ask %s %s", stop, strings.Join(loc, " "))
			}
			a, b, d := mk(), mk(), mk()
			ops = append(ops, a, a, b, fmt.Sprintf("c13peer grow %d", 1+rng.Intn(3)), a, d, a, b, fmt.Sprintf("c13peer grow %d", 1+rng.Intn(3)), b, b)
		}
		for i := 0; i < p.k; i++ {
			// answers of very different sizes: locator low / high, stop absent / near / far / behind / stale / unknown
			lh := rng.Intn(p.n + 1)
			switch rng.Intn(4) {
			case 0:
				lh = rng.Intn(1 + p.n/10)
			case 1:
				lh = p.n - rng.Intn(1+p.n/10)
			}
			loc := []string{strconv.Itoa(lh)}
			for s := 1; lh-s > 0 && len(loc) < 12; s *= 2 {
				loc = append(loc, strconv.Itoa(lh-s))
			}
			if rng.Intn(4) == 0 {
				loc = append([]string{fmt.Sprintf("u%d", i), fmt.Sprintf("s%d", rng.Intn(p.stale))}, loc...)
			}
			if rng.Intn(3) == 0 {
				loc = append(loc, "0")
			}
			stop := "-"
			switch rng.Intn(8) {
			case 0, 1:
				if lh < p.n {
					stop = strconv.Itoa(lh + 1 + rng.Intn(min(p.n-lh, 5)))
				}
			case 2:
				stop = strconv.Itoa(1 + rng.Intn(p.n)) // (stop = genesis is the recorded finding K-C13-stop-genesis)
			case 3:
				stop = fmt.Sprintf("s%d", rng.Intn(p.stale))
			case 4:
				stop = "u"
			}
			ops = append(ops, fmt.Sprintf("c13peer gh %s %s", stop, strings.Join(loc, " ")))
		}
		ops = append(ops, "c13peer run")
		if err := c13PeerRunOps(c, ops); err != nil {
			return err
		}
		c.R.Sample(map[string]any{"stream": "c13peer", "ops": ops[:min(len(ops), 6)]}, 12)
	}
	return nil
}
