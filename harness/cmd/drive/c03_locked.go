package main

// C03, a parent lookup that has to wait: while a header whose parent IS stored is being submitted, another connection
// (a backup, a shell, a second reader) holds the SQLite file exclusively for 2.5 s — well inside SQLite's default busy
// timeout of 5 s. The submission may take that long or be answered with an error; what it may not do is store the
// header as if its parent were unknown (height 1, only its own work): height and cumulative work are derived from the
// stored parent. Oracle only.

import (
	dbsql "database/sql"
	"fmt"
	"math/big"
	"strings"
	"time"

	"github.com/bitcoin-sv/block-headers-service/verifharness/lib"
)

func c03LockedParent(c *Ctx) error {
	nodes := []Node{{Parent: -1, Bits: bitsSmall[1]}, {Parent: 0, Bits: bitsSmall[1]}}
	buildTree(nodes, 3900+uint32(c.Seed), nil, false)
	ci, err := newChainImpl("c03-locked.db", lib.StackOpts{NoEngine: true})
	if err != nil {
		return err
	}
	defer ci.Close()
	if out := ci.Op("add " + nodes[0].Hdr.Hex()); !strings.HasPrefix(out, "stored") {
		return nil
	}
	lk, err := dbsql.Open("sqlite3", "file:"+ci.file)
	if err != nil {
		return nil
	}
	defer lk.Close()
	lk.SetMaxOpenConns(1)
	if _, err := lk.Exec("BEGIN EXCLUSIVE"); err != nil {
		c.R.Notes = append(c.R.Notes, "c03 locked parent: "+err.Error())
		return nil
	}
	released := make(chan struct{})
	go func() {
		time.Sleep(2500 * time.Millisecond)
		_, _ = lk.Exec("ROLLBACK")
		close(released)
	}()
	out := ci.Op("add " + nodes[1].Hdr.Hex())
	<-released
	c.R.OracleChecked++
	c.R.Case("submission while another connection holds the database for 2.5 s", true)
	c.R.Count("submission whose parent lookup has to wait for a lock", 1)
	rows, err := ci.Dump()
	if err != nil {
		return err
	}
	var parent, child *DbRow
	for i := range rows {
		switch rows[i].Hash {
		case nodes[0].Hdr.HashStr():
			parent = &rows[i]
		case nodes[1].Hdr.HashStr():
			child = &rows[i]
		}
	}
	if parent == nil || child == nil {
		return nil // answered with an error and not stored: the peer will send it again
	}
	wantCum := new(big.Int).Add(parseBig(parent.Cum), refWorkBits(nodes[1].Hdr.Bits)).String()
	if child.Height != parent.Height+1 || child.Cum != wantCum || child.State == "ORPHAN" {
		c.R.Fail(lib.Failure{Case: "parent lookup behind a lock", Ops: []string{fmt.Sprintf("# c03 locked parent: A stored on genesis; a second connection holds BEGIN EXCLUSIVE for 2.5 s; B (child of A) submitted meanwhile (answer: %s)", strings.Fields(out + " -")[0])},
			What:     "a header whose parent is stored was stored as if the parent were unknown, because the parent lookup had to wait for a lock",
			Expected: fmt.Sprintf("height %d, cumulative work %s, not ORPHAN", parent.Height+1, wantCum),
			Observed: fmt.Sprintf("height %d, cumulative work %s, %s", child.Height, child.Cum, child.State), Signature: "c03-stored-parent-taken-for-unknown"})
	}
	return nil
}
