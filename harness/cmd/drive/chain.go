package main

// Shared by the chain-family properties (C01, C02, C03, C04, C05, C08, C11, C13, C15):
// header construction, the real SQL stack with a recording / fault-injecting decorator around
// repository.Headers, the operation vocabulary of the line protocol, history generators.

import (
	"crypto/sha256"
	"encoding/binary"
	"encoding/hex"
	"errors"
	"fmt"
	"math/big"
	"math/rand"
	"sort"
	"strconv"
	"strings"
	"sync"
	"time"

	"github.com/bitcoin-sv/block-headers-service/domains"
	"github.com/bitcoin-sv/block-headers-service/internal/chaincfg"
	"github.com/bitcoin-sv/block-headers-service/internal/chaincfg/chainhash"
	"github.com/bitcoin-sv/block-headers-service/notification"
	"github.com/bitcoin-sv/block-headers-service/repository"
	"github.com/bitcoin-sv/block-headers-service/service"
	"github.com/bitcoin-sv/block-headers-service/verifharness/lib"
)

// Hdr is an 80-byte header.
type Hdr struct {
	Version int32
	Prev    [32]byte // wire order
	Merkle  [32]byte
	Time    uint32
	Bits    uint32
	Nonce   uint32
}

// Bytes serialises independently of the repository's wire package.
func (h Hdr) Bytes() []byte {
	b := make([]byte, 80)
	binary.LittleEndian.PutUint32(b[0:], uint32(h.Version))
	copy(b[4:], h.Prev[:])
	copy(b[36:], h.Merkle[:])
	binary.LittleEndian.PutUint32(b[68:], h.Time)
	binary.LittleEndian.PutUint32(b[72:], h.Bits)
	binary.LittleEndian.PutUint32(b[76:], h.Nonce)
	return b
}

// Hash is sha256d of the serialisation (crypto/sha256: independent of the repo and of the Lean SHA-256).
func (h Hdr) Hash() [32]byte {
	a := sha256.Sum256(h.Bytes())
	return sha256.Sum256(a[:])
}

func display(h [32]byte) string {
	var r [32]byte
	for i := range h {
		r[i] = h[31-i]
	}
	return hex.EncodeToString(r[:])
}

// HashStr is the display form.
func (h Hdr) HashStr() string { return display(h.Hash()) }

// Hex is the `add` operand.
func (h Hdr) Hex() string { return hex.EncodeToString(h.Bytes()) }

// Source converts to the service's input type.
func (h Hdr) Source() domains.BlockHeaderSource {
	return domains.BlockHeaderSource{Version: h.Version, PrevBlock: chainhash.Hash(h.Prev), MerkleRoot: chainhash.Hash(h.Merkle),
		Timestamp: time.Unix(int64(h.Time), 0), Bits: h.Bits, Nonce: h.Nonce}
}

func hdrFromHex(s string) (Hdr, error) {
	b, err := hex.DecodeString(s)
	if err != nil || len(b) != 80 {
		return Hdr{}, errors.New("bad header hex")
	}
	var h Hdr
	h.Version = int32(binary.LittleEndian.Uint32(b[0:]))
	copy(h.Prev[:], b[4:36])
	copy(h.Merkle[:], b[36:68])
	h.Time = binary.LittleEndian.Uint32(b[68:])
	h.Bits = binary.LittleEndian.Uint32(b[72:])
	h.Nonce = binary.LittleEndian.Uint32(b[76:])
	return h, nil
}

// mainnet genesis
var genesisHdr = func() Hdr {
	var h Hdr
	h.Version = 1
	m, _ := hex.DecodeString("3ba3edfd7a7b12b27ac72c3e67768f617fc81bc3888a51323a9fb8aa4b1e5e4a")
	copy(h.Merkle[:], m)
	h.Time, h.Bits, h.Nonce = 1231006505, 0x1d00ffff, 2083236893
	return h
}()

// work alphabet: bits whose work is 0 (zero / negative / overflowing target), 1, 2, 3, and mainnet size.
var (
	bitsZero  = []uint32{0x00000000, 0x04923456, 0x2300ffff}
	bitsSmall = []uint32{0x21008000, 0x207fffff, 0x20400000} // work 1, 2, 3
	bitsBig   = uint32(0x1d00ffff)
	// work 2^31, 2^33, 2^62, 2^62.6, 2^63 (just above / exactly int64 max), 2^63.05, 2^64, 2^128
	bitsLattice = []uint32{0x1d01ffff, 0x1c7fffff, 0x1903ffff, 0x1902aaaa, 0x1901ffff, 0x19020000, 0x1901f000, 0x1900ffff, 0x11010000}
)

// ---------------------------------------------------------------------------------------------
// recording / fault-injecting decorator

type killed struct{ at int }

// RecRepo wraps repository.Headers: records the write sequence, can fail or kill at write k.
type RecRepo struct {
	repository.Headers
	Writes   []string
	nWrites  int
	FailAt   int // 1-based index of the write that returns an error instead (0 = none)
	KillAt   int // 0-based boundary: panic(killed) before executing write number KillAt+1 (-1 = none)
	Reads    []string
	sched    func(op string) // scheduler hook (C15); nil = none
	traceAll bool
}

var errInjected = errors.New("injected storage failure")

func (r *RecRepo) before(desc string) error {
	if r.sched != nil {
		r.sched(desc)
	}
	if r.KillAt >= 0 && r.nWrites == r.KillAt {
		panic(killed{r.nWrites})
	}
	r.nWrites++
	if r.FailAt > 0 && r.nWrites == r.FailAt {
		return errInjected
	}
	r.Writes = append(r.Writes, desc)
	return nil
}

func stateName(s domains.HeaderState) string { return string(s) }

// UpdateState records and forwards.
func (r *RecRepo) UpdateState(hs []chainhash.Hash, st domains.HeaderState) error {
	names := make([]string, len(hs))
	for i, h := range hs {
		names[i] = h.String()
	}
	sort.Strings(names)
	if err := r.before(fmt.Sprintf("W setstate:%s:%s", stateName(st), strings.Join(names, ","))); err != nil {
		return err
	}
	return r.Headers.UpdateState(hs, st)
}

// AddHeaderToDatabase records and forwards.
func (r *RecRepo) AddHeaderToDatabase(h domains.BlockHeader) error {
	if err := r.before("W insert:" + h.Hash.String()); err != nil {
		return err
	}
	return r.Headers.AddHeaderToDatabase(h)
}

func (r *RecRepo) read(op string) {
	if r.sched != nil {
		r.sched("R " + op)
	}
}

// reads that Add performs go through the scheduler hook
func (r *RecRepo) GetHeaderByHash(hash string) (*domains.BlockHeader, error) {
	r.read("byhash")
	return r.Headers.GetHeaderByHash(hash)
}
func (r *RecRepo) GetHeaderByHeight(height int32) (*domains.BlockHeader, error) {
	r.read("byheight")
	return r.Headers.GetHeaderByHeight(height)
}
func (r *RecRepo) GetTip() (*domains.BlockHeader, error) {
	r.read("tip")
	return r.Headers.GetTip()
}
func (r *RecRepo) GetStaleChainHeadersBackFrom(hash string) ([]*domains.BlockHeader, error) {
	r.read("staleback")
	return r.Headers.GetStaleChainHeadersBackFrom(hash)
}
func (r *RecRepo) GetLongestChainHeadersFromHeight(height int32) ([]*domains.BlockHeader, error) {
	r.read("lcfrom")
	return r.Headers.GetLongestChainHeadersFromHeight(height)
}

func (r *RecRepo) reset() {
	r.Writes, r.nWrites, r.FailAt, r.KillAt = nil, 0, 0, -1
}

// ---------------------------------------------------------------------------------------------
// the implementation side of the chain ops

// ChainImpl is the real stack plus what the ops need.
type ChainImpl struct {
	*lib.Stack
	Rec    *RecRepo
	file   string
	opts   lib.StackOpts
	Events *eventSink
	// C15: one chain service shared by concurrent submitters
	sharedRepo *switchRepo
	sharedSvc  service.Chains
}

func newChainImpl(name string, opts lib.StackOpts) (*ChainImpl, error) {
	ci := &ChainImpl{file: lib.TempDB(name)}
	opts.File = ci.file
	ci.opts = opts
	return ci, ci.open()
}

func (ci *ChainImpl) open() error {
	o := ci.opts
	ci.Rec = &RecRepo{KillAt: -1}
	o.WrapHeaders = func(h repository.Headers) repository.Headers { ci.Rec.Headers = h; return ci.Rec }
	st, err := lib.NewStack(o)
	if err != nil {
		return err
	}
	ci.Stack = st
	ci.Events = newEventSink()
	st.Svc.Notifier.AddChannel(ci.Events)
	st.Svc.Chains = service.NewChainsService(st.Repo, paramsWithIgnore(ci.opts.Ignore), st.Log, service.DefaultBlockHasher(), st.Svc.Notifier)
	return nil
}

// Restart closes the handle and runs database.Init on the same file again.
func (ci *ChainImpl) Restart() error {
	ci.Close()
	return ci.open()
}

// Reset starts from a fresh database file.
func (ci *ChainImpl) Reset() error {
	ci.Close()
	ci.file = lib.TempDB(fmt.Sprintf("%s-%d", "chain", time.Now().UnixNano()))
	ci.opts.File = ci.file
	return ci.open()
}

// DbRow is one row of table headers as stored.
type DbRow struct {
	ID      int64
	Hash    string
	Prev    string
	Merkle  string
	Height  int64
	Version int64
	Time    string
	Bits    string
	Nonce   int64
	Work    string
	Cum     string
	State   string
}

func (r DbRow) String() string {
	return fmt.Sprintf("%d,%s,%s,%s,%d,%d,%s,%s,%d,%s,%s,%s", r.ID, r.Hash, r.Prev, r.Merkle, r.Height, r.Version, r.Time, r.Bits, r.Nonce, r.Work, r.Cum, r.State)
}

const dumpSQL = `SELECT rowid-1, hash, previous_block, merkleroot, height, version, CAST(strftime('%s', timestamp) AS TEXT), CAST(bits AS TEXT), nonce, chainwork, cumulated_work, header_state FROM headers`

// Dump reads the whole table in rowid order.
func (ci *ChainImpl) Dump() ([]DbRow, error) {
	rows, err := ci.DB.Query(dumpSQL + " ORDER BY rowid")
	if err != nil {
		return nil, err
	}
	defer rows.Close()
	var res []DbRow
	for rows.Next() {
		var r DbRow
		if err := rows.Scan(&r.ID, &r.Hash, &r.Prev, &r.Merkle, &r.Height, &r.Version, &r.Time, &r.Bits, &r.Nonce, &r.Work, &r.Cum, &r.State); err != nil {
			return nil, err
		}
		res = append(res, r)
	}
	return res, rows.Err()
}

func dumpStr(rows []DbRow) string {
	ss := make([]string, len(rows))
	for i, r := range rows {
		ss[i] = r.String()
	}
	return strings.Join(ss, ";")
}

func (ci *ChainImpl) rowID(hash string) int64 {
	var id int64 = -1
	_ = ci.DB.QueryRow("SELECT rowid-1 FROM headers WHERE hash = ?", hash).Scan(&id)
	return id
}

// headerStr renders a domain header the way the Lean driver renders a row (id from the table).
func (ci *ChainImpl) headerStr(h *domains.BlockHeader) string {
	return domainRowStr(ci.rowID(h.Hash.String()), h)
}

func domainRowStr(id int64, h *domains.BlockHeader) string {
	w, c := "nil", "nil"
	if h.Chainwork != nil {
		w = h.Chainwork.String()
	}
	if h.CumulatedWork != nil {
		c = h.CumulatedWork.String()
	}
	return fmt.Sprintf("%d,%s,%s,%s,%d,%d,%d,%d,%d,%s,%s,%s", id, h.Hash.String(), h.PreviousBlock.String(), h.MerkleRoot.String(),
		h.Height, h.Version, h.Timestamp.Unix(), h.Bits, h.Nonce, w, c, string(h.State))
}

func classifyAddErr(err error) string {
	switch {
	case service.HeaderAlreadyExists.Is(err):
		return "duplicate"
	case service.BlockRejected.Is(err):
		return "rejected"
	case service.HeaderCreationFail.Is(err):
		return "error:HeaderCreationFail"
	case service.ChainUpdateFail.Is(err):
		return "error:ChainUpdateFail"
	case service.HeaderSaveFail.Is(err):
		return "error:HeaderSaveFail"
	}
	return "error:other:" + err.Error()
}

// Add calls service.Chains.Add under recover; result in the driver's canonical form.
func (ci *ChainImpl) Add(h Hdr) (out string, wasKilled bool) {
	ci.Rec.Writes = nil
	ci.Rec.nWrites = 0
	var res *domains.BlockHeader
	var err error
	pan := ""
	func() {
		defer func() {
			if r := recover(); r != nil {
				if _, ok := r.(killed); ok {
					wasKilled = true
					return
				}
				pan = fmt.Sprint(r)
			}
		}()
		res, err = ci.Svc.Chains.Add(h.Source())
	}()
	if wasKilled {
		return "killed", true
	}
	var parts []string
	switch {
	case pan != "":
		parts = append(parts, "panic")
	case err != nil:
		parts = append(parts, classifyAddErr(err))
	default:
		parts = append(parts, "stored "+ci.headerStr(res))
	}
	parts = append(parts, ci.Rec.Writes...)
	return strings.Join(parts, " | "), false
}

// Op executes one line of the chain vocabulary on the implementation.
func (ci *ChainImpl) Op(line string) string {
	ws := strings.Fields(line)
	if len(ws) >= 2 && ws[0] == "verify" {
		if e, err := strconv.Atoi(ws[1]); err == nil {
			ci.Cfg.MerkleRoot.MaxBlockHeightExcess = e
		}
	}
	if ci.Engine != nil {
		if out, ok := ci.QueryOp(line); ok {
			return out
		}
	}
	switch {
	case len(ws) == 1 && ws[0] == "reset":
		if err := ci.Reset(); err != nil {
			return "error:" + err.Error()
		}
		return "ok"
	case len(ws) >= 1 && ws[0] == "forbid":
		var ig []*chainhash.Hash
		for _, s := range ws[1:] {
			h, err := chainhash.NewHashFromStr(s)
			if err != nil {
				return "bad-hash"
			}
			ig = append(ig, h)
		}
		ci.opts.Ignore = ig
		ci.Svc.Chains = service.NewChainsService(ci.Repo, paramsWithIgnore(ig), ci.Log, service.DefaultBlockHasher(), ci.Svc.Notifier)
		return "ok"
	case len(ws) == 2 && ws[0] == "add":
		h, err := hdrFromHex(ws[1])
		if err != nil {
			return "bad-header"
		}
		ci.Rec.FailAt, ci.Rec.KillAt = 0, -1
		out, _ := ci.Add(h)
		return out
	case len(ws) == 3 && ws[0] == "crash":
		k, err1 := strconv.Atoi(ws[1])
		h, err2 := hdrFromHex(ws[2])
		if err1 != nil || err2 != nil {
			return "bad-header"
		}
		ci.Rec.FailAt, ci.Rec.KillAt = 0, k
		_, wasKilled := ci.Add(h)
		n := ci.Rec.nWrites
		ci.Rec.KillAt = -1
		_ = wasKilled
		return fmt.Sprintf("crashed %d", n)
	case len(ws) == 1 && ws[0] == "restart":
		if err := ci.Restart(); err != nil {
			return "error:" + err.Error()
		}
		return "ok"
	case len(ws) == 2 && ws[0] == "hashof":
		h, err := hdrFromHex(ws[1])
		if err != nil {
			return "bad-header"
		}
		src := h.Source()
		bh := service.DefaultBlockHasher().BlockHash(&src)
		return bh.String()
	case len(ws) == 1 && ws[0] == "tip":
		t := ci.Svc.Headers.GetTip()
		if t == nil {
			return "none"
		}
		return ci.headerStr(t)
	case len(ws) == 2 && ws[0] == "state":
		h, err := ci.Svc.Headers.GetHeaderByHash(ws[1])
		if err != nil || h == nil {
			return "not-found"
		}
		return ci.headerStr(h)
	case len(ws) == 1 && ws[0] == "dump":
		rows, err := ci.Dump()
		if err != nil {
			return "error:" + err.Error()
		}
		return dumpStr(rows)
	case len(ws) == 1 && ws[0] == "count":
		return fmt.Sprint(ci.Svc.Headers.CountHeaders())
	}
	return "bad-op"
}

// ---------------------------------------------------------------------------------------------
// notification sink

type eventSink struct {
	mu     sync.Mutex
	events []string
}

func newEventSink() *eventSink { return &eventSink{} }

func eventStr(ev any) string {
	e, ok := ev.(*domains.HeaderEvent)
	if !ok || e == nil || e.Header == nil {
		return fmt.Sprintf("unexpected-event:%T", ev)
	}
	h := e.Header
	c := "nil"
	if h.CumulatedWork != nil {
		c = h.CumulatedWork.String()
	}
	return fmt.Sprintf("%s %s,%s,%s,%d,%d,%d,%d,%s,%s", e.Operation, h.Hash, h.PreviousBlock, h.MerkleRoot, h.Height, h.Version, h.Timestamp.Unix(), h.Nonce, c, string(h.State))
}

// Notify implements notification.Channel (called on its own goroutine by the Notifier).
func (e *eventSink) Notify(ev notification.Event) {
	e.mu.Lock()
	e.events = append(e.events, eventStr(ev))
	e.mu.Unlock()
}

// Take waits until at least n events arrived (or the timeout) and returns and clears them.
func (e *eventSink) Take(n int, timeout time.Duration) []string {
	deadline := time.Now().Add(timeout)
	for {
		e.mu.Lock()
		if len(e.events) >= n || time.Now().After(deadline) {
			r := e.events
			e.events = nil
			e.mu.Unlock()
			return r
		}
		e.mu.Unlock()
		time.Sleep(200 * time.Microsecond)
	}
}

func paramsWithIgnore(ig []*chainhash.Hash) *chaincfg.Params {
	p := chaincfg.MainNetParams
	p.HeadersToIgnore = ig
	return &p
}

// ---------------------------------------------------------------------------------------------
// history generation

// Node of a generated block tree.
type Node struct {
	Parent    int // index of parent node; -1 = genesis; -2 = unknown hash
	Bits      uint32
	Hdr       Hdr
	DupMerkle int // k>0: carry the merkle root of node k-1 (two blocks with one merkle root); 0: its own
}

// buildTree fills in headers (parents first: parent index < own index, or negative).
func buildTree(nodes []Node, salt uint32, rng *rand.Rand, extremes bool) {
	for i := range nodes {
		var h Hdr
		h.Version = int32(1 + i%3)
		switch {
		case nodes[i].Parent == -1:
			h.Prev = genesisHdr.Hash()
		case nodes[i].Parent == -2:
			u := sha256.Sum256([]byte(fmt.Sprintf("unknown-%d-%d", salt, i)))
			h.Prev = u
		default:
			h.Prev = nodes[nodes[i].Parent].Hdr.Hash()
		}
		h.Merkle = sha256.Sum256([]byte(fmt.Sprintf("merkle-%d-%d", salt, i)))
		if k := nodes[i].DupMerkle; k > 0 && k-1 < i {
			h.Merkle = nodes[k-1].Hdr.Merkle
		}
		h.Time = 1600000000 + uint32(i)*600 + salt%600
		h.Bits = nodes[i].Bits
		h.Nonce = salt*1000003 + uint32(i)
		if extremes && rng != nil {
			switch rng.Intn(12) {
			case 0:
				h.Version = -2147483648
			case 1:
				h.Version = 2147483647
			case 2:
				h.Version = -1
			case 3:
				h.Nonce = 0xffffffff
			case 4:
				h.Time = 0
			case 5:
				h.Time = 0xffffffff
			case 6:
				h.Nonce = 0
			case 7:
				// wall-clock corners of daylight-saving zones (the harness runs with TZ=Europe/Warsaw): the hour the clock shows
				// twice (2023-10-29 00:00–01:59 UTC), the hour it skips (2024-03-31 01:00 UTC), a leap day, the epoch + 1 day
				dst := []uint32{1698537600, 1698539400, 1698541199, 1698541200, 1698543000, 1711846800, 1711848600, 1709164800, 86400, 951782400}
				h.Time = dst[rng.Intn(len(dst))]
			}
		}
		nodes[i].Hdr = h
	}
}

// refWorkBits is the oracle's own work function (reference arithmetic from c19.go).
func refWorkBits(bits uint32) *big.Int { return refWork(refTarget(bits)) }

// randomHistory: a tree of n nodes with tie-rich works, delivered in a random order with duplicates.
// zeroOnTip=false avoids zero-work bits (so that the known zero-work finding cannot occur).
func randomHistory(rng *rand.Rand, n int, salt uint32, allowZero bool, extremes bool) (nodes []Node, order []int) {
	nodes = make([]Node, n)
	for i := range nodes {
		r := rng.Intn(100)
		switch {
		case i == 0 || r < 45:
			// extend the most recent node or genesis: long chains
			if i == 0 {
				nodes[i].Parent = -1
			} else {
				nodes[i].Parent = i - 1
			}
		case r < 85:
			nodes[i].Parent = rng.Intn(i+1) - 1 // any earlier node or genesis: forks
		case r < 93:
			nodes[i].Parent = -2 // unknown parent: orphan
		default:
			nodes[i].Parent = rng.Intn(i+1) - 1
		}
		b := rng.Intn(100)
		switch {
		case extremes && allowZero && b < 5:
			nodes[i].Bits = rng.Uint32() // any 32-bit pattern is legal input
		case allowZero && b < 12:
			nodes[i].Bits = bitsZero[rng.Intn(len(bitsZero))]
		case b < 80:
			nodes[i].Bits = bitsSmall[rng.Intn(len(bitsSmall))]
		case b < 90:
			nodes[i].Bits = bitsBig
		case b < 95:
			// works around machine-word boundaries (2^31 … 2^64, 2^128): comparisons and sums that leave a native integer
			nodes[i].Bits = bitsLattice[rng.Intn(len(bitsLattice))]
		default:
			nodes[i].Bits = bitsSmall[0]
		}
	}
	buildTree(nodes, salt, rng, extremes)
	order = make([]int, 0, n+n/8)
	switch rng.Intn(3) {
	case 0: // in order
		for i := 0; i < n; i++ {
			order = append(order, i)
		}
	case 1: // mostly in order with local swaps (children before parents -> orphans)
		for i := 0; i < n; i++ {
			order = append(order, i)
		}
		for k := 0; k < n/6; k++ {
			i := rng.Intn(n)
			j := i + rng.Intn(4)
			if j < n {
				order[i], order[j] = order[j], order[i]
			}
		}
	default:
		order = rng.Perm(n)
	}
	// duplicates ~10%
	for k := 0; k < n/10+1; k++ {
		i := rng.Intn(len(order))
		order = append(order[:i+1], append([]int{order[rng.Intn(i+1)]}, order[i+1:]...)...)
	}
	return nodes, order
}

func shaStr(s string) [32]byte { return sha256.Sum256([]byte(s)) }

// hexToWire converts a display hash to wire order.
func hexToWire(s string) ([32]byte, error) {
	var r [32]byte
	b, err := hex.DecodeString(s)
	if err != nil || len(b) != 32 {
		return r, errors.New("bad hash")
	}
	for i := range b {
		r[i] = b[31-i]
	}
	return r, nil
}
