package main

// Regenerated module BHS.Gen.WireConsts (C14): what the wire model takes from
// the code rather than from my reading of it —
//   - the command table of makeEmptyMessage (go/ast: case label -> concrete type; emitted as an
//     inductive MsgType + a table of command bytes, so the model dispatches on the code's own types),
//   - protocol-version thresholds and size limits (compiled values),
//   - the excessive-block-size the service passes to wire.SetLimits (config),
//   - MaxPayloadLength(pver) of every modelled message type, evaluated on the
//     real types at the threshold protocol versions (under SetLimits as cmd/main.go
//     calls it), as a finite table the model's maxPayloadLength is proved equal to.

import (
	"fmt"
	"go/ast"
	"go/parser"
	"go/token"
	"path/filepath"
	"sort"
	"strconv"
	"strings"

	"github.com/bitcoin-sv/block-headers-service/config"
	"github.com/bitcoin-sv/block-headers-service/internal/wire"
)

func init() { register("WireConsts", genWireConsts) }

// wireTypes instantiates the message types the model covers, by Go type name.
var wireTypes = map[string]func() wire.Message{
	"MsgVersion":     func() wire.Message { return &wire.MsgVersion{} },
	"MsgVerAck":      func() wire.Message { return &wire.MsgVerAck{} },
	"MsgGetAddr":     func() wire.Message { return &wire.MsgGetAddr{} },
	"MsgAddr":        func() wire.Message { return &wire.MsgAddr{} },
	"MsgGetBlocks":   func() wire.Message { return &wire.MsgGetBlocks{} },
	"MsgInv":         func() wire.Message { return &wire.MsgInv{} },
	"MsgGetData":     func() wire.Message { return &wire.MsgGetData{} },
	"MsgNotFound":    func() wire.Message { return &wire.MsgNotFound{} },
	"MsgPing":        func() wire.Message { return &wire.MsgPing{} },
	"MsgPong":        func() wire.Message { return &wire.MsgPong{} },
	"MsgGetHeaders":  func() wire.Message { return &wire.MsgGetHeaders{} },
	"MsgHeaders":     func() wire.Message { return &wire.MsgHeaders{} },
	"MsgMemPool":     func() wire.Message { return &wire.MsgMemPool{} },
	"MsgReject":      func() wire.Message { return &wire.MsgReject{} },
	"MsgSendHeaders": func() wire.Message { return &wire.MsgSendHeaders{} },
	"MsgFeeFilter":   func() wire.Message { return &wire.MsgFeeFilter{} },
	"MsgProtoconf":   func() wire.Message { return &wire.MsgProtoconf{} },
}

// wireCommandTable parses makeEmptyMessage: (command string, concrete type name) in switch order.
func wireCommandTable() ([][2]string, error) {
	fset := token.NewFileSet()
	f, err := parser.ParseFile(fset, filepath.Join(*repo, "internal/wire/message.go"), nil, 0)
	if err != nil {
		return nil, err
	}
	consts := map[string]string{}
	var fn *ast.FuncDecl
	for _, d := range f.Decls {
		switch d := d.(type) {
		case *ast.GenDecl:
			if d.Tok != token.CONST {
				continue
			}
			for _, s := range d.Specs {
				vs := s.(*ast.ValueSpec)
				for i, n := range vs.Names {
					if i < len(vs.Values) {
						if bl, ok := vs.Values[i].(*ast.BasicLit); ok && bl.Kind == token.STRING {
							v, err := strconv.Unquote(bl.Value)
							if err == nil {
								consts[n.Name] = v
							}
						}
					}
				}
			}
		case *ast.FuncDecl:
			if d.Name.Name == "makeEmptyMessage" {
				fn = d
			}
		}
	}
	if fn == nil {
		return nil, fmt.Errorf("makeEmptyMessage not found in internal/wire/message.go")
	}
	var sw *ast.SwitchStmt
	ast.Inspect(fn.Body, func(n ast.Node) bool {
		if s, ok := n.(*ast.SwitchStmt); ok && sw == nil {
			sw = s
		}
		return true
	})
	if sw == nil {
		return nil, fmt.Errorf("makeEmptyMessage: no switch")
	}
	var res [][2]string
	for _, st := range sw.Body.List {
		cc := st.(*ast.CaseClause)
		if cc.List == nil {
			continue // default
		}
		if len(cc.Body) != 1 {
			return nil, fmt.Errorf("makeEmptyMessage: case with %d statements (expected one assignment)", len(cc.Body))
		}
		as, ok := cc.Body[0].(*ast.AssignStmt)
		if !ok || len(as.Rhs) != 1 {
			return nil, fmt.Errorf("makeEmptyMessage: unsupported case body")
		}
		ue, ok := as.Rhs[0].(*ast.UnaryExpr)
		if !ok || ue.Op != token.AND {
			return nil, fmt.Errorf("makeEmptyMessage: case body is not msg = &T{}")
		}
		cl, ok := ue.X.(*ast.CompositeLit)
		if !ok || len(cl.Elts) != 0 {
			return nil, fmt.Errorf("makeEmptyMessage: case body is not msg = &T{}")
		}
		tn, ok := cl.Type.(*ast.Ident)
		if !ok {
			return nil, fmt.Errorf("makeEmptyMessage: unsupported type expression")
		}
		for _, lab := range cc.List {
			var cmd string
			switch l := lab.(type) {
			case *ast.Ident:
				v, ok := consts[l.Name]
				if !ok {
					return nil, fmt.Errorf("makeEmptyMessage: unknown constant %s", l.Name)
				}
				cmd = v
			case *ast.BasicLit:
				v, err := strconv.Unquote(l.Value)
				if err != nil {
					return nil, err
				}
				cmd = v
			default:
				return nil, fmt.Errorf("makeEmptyMessage: unsupported case label")
			}
			res = append(res, [2]string{cmd, tn.Name})
		}
	}
	return res, nil
}

// wirePverSamples: every threshold protocol version with both neighbours, plus the ends.
func wirePverSamples() []uint32 {
	th := []uint32{wire.MultipleAddressVersion, wire.NetAddressTimeVersion, wire.BIP0031Version, wire.BIP0035Version,
		wire.BIP0037Version, wire.RejectVersion, wire.BIP0111Version, wire.SendHeadersVersion, wire.FeeFilterVersion,
		wire.ProtoconfVerisosn, wire.ProtocolVersion}
	set := map[uint32]bool{0: true, 1: true, 70016: true, 4294967295: true}
	for _, t := range th {
		set[t] = true
		set[t+1] = true
		if t > 0 {
			set[t-1] = true
		}
	}
	var res []uint32
	for v := range set {
		res = append(res, v)
	}
	sort.Slice(res, func(i, j int) bool { return res[i] < res[j] })
	return res
}

func genWireConsts() (string, error) {
	table, err := wireCommandTable()
	if err != nil {
		return "", err
	}
	var b strings.Builder
	b.WriteString(genHeader)
	b.WriteString("namespace BHS.Gen.WireC\n\n")
	nat := func(name string, v any) { fmt.Fprintf(&b, "def %s : Nat := %v\n", name, v) }
	nat("protocolVersion", wire.ProtocolVersion)
	nat("multipleAddressVersion", wire.MultipleAddressVersion)
	nat("netAddressTimeVersion", wire.NetAddressTimeVersion)
	nat("bip0031Version", wire.BIP0031Version)
	nat("bip0035Version", wire.BIP0035Version)
	nat("bip0037Version", wire.BIP0037Version)
	nat("rejectVersion", wire.RejectVersion)
	nat("sendHeadersVersion", wire.SendHeadersVersion)
	nat("feeFilterVersion", wire.FeeFilterVersion)
	nat("protoconfVersion", wire.ProtoconfVerisosn)
	nat("maxProtoconfPayload", wire.MaxProtoconfPayload)
	nat("hashSize", 32)
	nat("mainNet", uint32(wire.MainNet))
	nat("testNet", uint32(wire.TestNet))
	nat("testNet3", uint32(wire.TestNet3))
	nat("simNet", uint32(wire.SimNet))
	b.WriteString("-- config.ExcessiveBlockSize: what cmd/main.go passes to wire.SetLimits\n")
	nat("excessiveBlockSize", uint32(config.ExcessiveBlockSize))
	bytesLit := func(x string) string {
		var parts []string
		for _, c := range []byte(x) {
			parts = append(parts, strconv.Itoa(int(c)))
		}
		return "[" + strings.Join(parts, ", ") + "]"
	}
	b.WriteString("-- CmdBlock / CmdTx (MsgReject carries a hash only for these)\n")
	fmt.Fprintf(&b, "def cmdBlock : List UInt8 := %s\n", bytesLit(wire.CmdBlock))
	fmt.Fprintf(&b, "def cmdTx : List UInt8 := %s\n", bytesLit(wire.CmdTx))
	b.WriteString("\n-- concrete message types named in makeEmptyMessage (internal/wire/message.go)\n")
	b.WriteString("inductive MsgType where\n")
	seenT := map[string]bool{}
	for _, e := range table {
		if !seenT[e[1]] {
			seenT[e[1]] = true
			fmt.Fprintf(&b, "  | %s\n", e[1])
		}
	}
	b.WriteString("  deriving DecidableEq, Repr\n")
	b.WriteString("\n-- makeEmptyMessage: command bytes -> concrete type, in switch order\n")
	b.WriteString("def commandTable : List (List UInt8 × MsgType) := [\n")
	for i, e := range table {
		sep := ","
		if i == len(table)-1 {
			sep = ""
		}
		fmt.Fprintf(&b, "  (%s, .%s)%s -- %q\n", bytesLit(e[0]), e[1], sep, e[0])
	}
	b.WriteString("]\n")
	// Command() of the modelled types (what WriteMessage puts into the header).
	b.WriteString("\n-- Command() of every modelled type\n")
	b.WriteString("def typeCommand : List (MsgType × List UInt8) := [\n")
	var tc []string
	seenT = map[string]bool{}
	for _, e := range table {
		mk, ok := wireTypes[e[1]]
		if !ok || seenT[e[1]] {
			continue
		}
		seenT[e[1]] = true
		tc = append(tc, fmt.Sprintf("  (.%s, %s)", e[1], bytesLit(mk().Command())))
	}
	b.WriteString(strings.Join(tc, ",\n"))
	b.WriteString("\n]\n")
	// MaxPayloadLength table, evaluated on the real types under the service's SetLimits.
	wire.SetLimits(config.ExcessiveBlockSize)
	b.WriteString("\n-- (type, pver, MaxPayloadLength(pver)) on the real types after wire.SetLimits(config.ExcessiveBlockSize)\n")
	b.WriteString("def maxPayloadTable : List (MsgType × Nat × Nat) := [\n")
	var rows []string
	seenT = map[string]bool{}
	for _, e := range table {
		mk, ok := wireTypes[e[1]]
		if !ok || seenT[e[1]] {
			continue // a type outside the model (block, tx, filters, cf*)
		}
		seenT[e[1]] = true
		for _, pv := range wirePverSamples() {
			rows = append(rows, fmt.Sprintf("  (.%s, %d, %d)", e[1], pv, mk().MaxPayloadLength(pv)))
		}
	}
	b.WriteString(strings.Join(rows, ",\n"))
	b.WriteString("\n]\n")
	b.WriteString("\nend BHS.Gen.WireC\n")
	return b.String(), nil
}
