package main

// Gen.SyncMgr: the event handlers of the default sync engine — transports/p2p/p2psync/manager.go handleNewPeerMsg,
// handleDonePeerMsg, handleHeadersMsg, handleInvMsg, handleCheckSyncPeer and every function of that file they reach
// (isSyncCandidate, startSync, updateSyncPeer, topBlock, current, findNextHeaderCheckpoint, verifyCheckpointHeight,
// requestForNextHeaderBatch, sendGetHeadersWithPassedParams, searchForFinalBlock), plus `New` — TRANSLATED statement by
// statement into Lean `do` blocks over the handler monad of lean/BHS/Model/SyncPrim.lean (`SyncM H`: the hand model's
// `Sync.State` + the recorded `Sync.Action`s + the panic fault). The call graph is discovered from the roots (callees are
// emitted first, recursion is refused), so an inlined, renamed, added or removed helper changes the generated module.
// Refinement theorems: lean/BHS/Props/SyncMgrGen.lean (generated handler = hand model function of BHS/Model/Sync.lean).
//
// SUBSET (everything else: `file:line:col: unsupported: …`, exit 1, the module is replaced by an empty one)
//   statements   `x := e`, `x = e`, `a, b := f(…)`, `a, b = f(…)` (`_` allowed), `var x T` (zero value), assignment to the
//                manager fields of smFields and to `state.SyncCandidate` of a range variable over sm.peerStates,
//                `_, ok := sm.peerStates[k]`, `sm.peerStates[p] = &peerpkg.SyncState{SyncCandidate: c}`, `delete(sm.peerStates, p)`,
//                `if [init;] c {…} [else if …] [else {…}]`, `return e…`, `break`, `continue`,
//                `for [k|_], v := range xs {…}` over a slice or over sm.peerStates, `for i := e; i >= 0; i-- {…}`,
//                expression statements that are calls of translated functions, of the primitive table or of the skip list.
//                A loop body becomes its own definition `<func>_loop<n>` (captured variables are parameters, the outer
//                variables the body assigns are the loop state) returning Ctl.next / Ctl.brk / Ctl.ret.
//   expressions  identifiers, nil, true/false, integer literals, unary - ! & *, && || (short-circuit: an operand that can
//                fault or call a handler function is wrapped in andThen / orElse), == != < <= > >= + - * &, len, append(xs, x),
//                xs[i], field selection (through a nullable pointer: `deref`, faults on nil), slice literals, integer
//                conversions (identity), file-level integer / duration constants, calls of translated functions and of the
//                primitive table.
//   types        see smGoTy: *peerpkg.Peer ↦ Nat (nullable: Option Nat), int/int32/int64 ↦ Int, *chaincfg.Checkpoint ↦
//                Option (Nat × H), *chainhash.Hash ↦ H (a `var x *chainhash.Hash` ↦ Option H), *domains.BlockHeader ↦
//                Option (Row H), domains.BlockHeader ↦ Row H, wire headers / BlockHeaderSource ↦ Src H, *wire.InvVect ↦
//                Bool × H, error ↦ Option GoErr; *headersMsg / *invMsg parameters are flattened into their two fields.
// FOLDED       `sm.chainParams == &chaincfg.RegressionNetParams` is `isRegressionNet` (= false: the regression-test network
//                is outside the model); an `if` on exactly this condition keeps only its else branch (noted in the output).
// PRIMITIVE TABLE: smPeerMethods, smServiceCalls and the cases of (*smFn).call — Go ↦ the definitions of SyncPrim.lean.
// SKIP LIST (not translated; their arguments are scanned for index expressions and dereferences of nullable pointers,
//   which are emitted as fault checks `let _ ← index …` / `let _ ← deref …`):
//   <x>.log.<Level>().Msg/Msgf(…); peerpkg.SyncStatesMtx.Lock/Unlock() (one handler goroutine); sm.logSyncState(…);
//   <peer>.SetSyncPeer(…); everything that only touches the UNMODELLED STATE sm.syncPeerState (network-speed
//   bookkeeping: assignments, `defer sm.syncPeerState.updateNetwork(…)`) and sm.startHeader (never read elsewhere);
//   a local that is only used inside skipped calls (its initialiser must be in smPureInit).
//   sm.syncPeerState.validNetworkSpeed(…) ↦ env.violations and time.Since(sm.syncPeerState.lastBlockTime) ↦
//   env.sinceLastBlock are INPUTS of the tick (Env).

import (
	"fmt"
	"go/ast"
	"go/parser"
	"go/token"
	"os"
	"path/filepath"
	"regexp"
	"sort"
	"strings"
)

func init() { register("SyncMgr", genSyncMgr) }

type smKind string

var smLeanTy = map[smKind]string{"int": "Int", "bool": "Bool", "peer": "Nat", "peerp": "Option Nat", "peers": "List Nat",
	"hash": "H", "hashp": "Option H", "hashes": "List H", "cp": "Nat × H", "cpp": "Option (Nat × H)", "cps": "List (Nat × H)",
	"hdr": "Row H", "hdrp": "Option (Row H)", "src": "Src H", "srcs": "List (Src H)", "inv": "Bool × H", "invs": "List (Bool × H)",
	"err": "Option GoErr", "sstate": "SyncStateV", "unit": "Unit"}

// Go type text ↦ kind (parameters, results, `var` declarations)
var smGoTy = map[string]smKind{"int": "int", "int32": "int", "int64": "int", "bool": "bool", "error": "err",
	"*peerpkg.Peer": "peer", "*chainhash.Hash": "hash", "[]*chainhash.Hash": "hashes", "domains.BlockLocator": "hashes",
	"*chaincfg.Checkpoint": "cpp", "domains.BlockHeader": "hdr", "*domains.BlockHeader": "hdrp", "[]*wire.InvVect": "invs",
	"[]*peerpkg.Peer": "peers"}

// `var x T`: kind and zero value
var smVarTy = map[string][2]string{"*peerpkg.Peer": {"peerp", "none"}, "*chainhash.Hash": {"hashp", "none"}, "error": {"err", "none"},
	"bool": {"bool", "false"}, "int": {"int", "(0 : Int)"}}

var smElem = map[smKind]smKind{"peers": "peer", "hashes": "hash", "cps": "cp", "srcs": "src", "invs": "inv"}
var smNullable = map[smKind]smKind{"peerp": "peer", "hashp": "hash", "cpp": "cp", "hdrp": "hdr"}
var smWrap = map[smKind]smKind{"peer": "peerp", "hash": "hashp", "cp": "cpp", "hdr": "hdrp"}

// flattened message parameters: Go struct type ↦ (field, kind)…
var smMsgParams = map[string][][2]string{"*headersMsg": {{"peer", "peer"}, {"headers", "srcs"}}, "*invMsg": {{"peer", "peer"}, {"inv", "invs"}}}

// identity fields of the wire messages
var smIdentityFields = map[string]bool{"Headers": true, "InvList": true}

// manager fields: Go name ↦ (kind, getter, setter); getter "" = not readable, setter "" = not assignable
var smFields = map[string][3]string{
	"syncPeer":         {"peerp", "(← getSyncPeer)", "setSyncPeer"},
	"headersFirstMode": {"bool", "(← getHeadersFirstMode)", "setHeadersFirstMode"},
	"nextCheckpoint":   {"cpp", "(← getNextCheckpoint)", "setNextCheckpoint"},
	"checkpoints":      {"cps", "cfg.checkpoints", ""},
}

// unmodelled state (see header)
var smUnmodelled = map[string]bool{"syncPeerState": true, "startHeader": true}

// peer methods: Go ↦ (Lean primitive, result kind); arguments are translated by position
var smPeerMethods = map[string][2]string{"Connected": {"peerConnected", "bool"}, "LastBlock": {"peerLastBlock", "int"}, "StartingHeight": {"peerStartingHeight", "int"},
	"Disconnect": {"peerDisconnect", "unit"}, "UpdateLastAnnouncedBlock": {"peerUpdateLastAnnouncedBlock", "unit"},
	"UpdateLastBlockHeight": {"peerUpdateLastBlockHeight", "unit"}, "SetSyncPeer": {"peerSetSyncPeer", "unit"},
	"PushGetHeadersMsg": {"peerPushGetHeadersMsg", "err"}}
var smPeerArgKinds = map[string][]smKind{"UpdateLastAnnouncedBlock": {"hash"}, "UpdateLastBlockHeight": {"int"}, "SetSyncPeer": {"bool"},
	"PushGetHeadersMsg": {"hashes", "hash"}}

// sm.Services.<Svc>.<Method> ↦ (Lean primitive, result kinds, needs cfg)
type smSvc struct {
	lean string
	args []smKind
	res  []smKind
	cfg  bool
}

var smServiceCalls = map[string]smSvc{
	"Headers.GetTipHeight":        {"headersGetTipHeight", nil, []smKind{"int"}, false},
	"Headers.GetTip":              {"headersGetTip", nil, []smKind{"hdrp"}, false},
	"Headers.LatestHeaderLocator": {"headersLatestHeaderLocator", nil, []smKind{"hashes"}, false},
	"Headers.IsCurrent":           {"headersIsCurrent", nil, []smKind{"bool"}, true},
	"Headers.GetHeightByHash":     {"headersGetHeightByHash", []smKind{"hash"}, []smKind{"int", "err"}, false},
	"Chains.Add":                  {"chainsAdd", []smKind{"src"}, []smKind{"hdrp", "err"}, true},
}

// calls that may appear inside skipped calls / log-only initialisers without being looked at (pure, total)
var smPureInSkip = map[string]bool{"String": true, "Addr": true, "Error": true, "ID": true, "UserAgent": true, "CountHeaders": true,
	"LastBlock": true, "Now": true, "BytesReceived": true, "GetTip": true}

var smLocalLogRe = regexp.MustCompile(`^(\w+)\.(Trace|Debug|Info|Warn|Error)\(\)\.(Msgf|Msg)$`)
var smLogRe = regexp.MustCompile(`^\w+\.log\.(Trace|Debug|Info|Warn|Error)\(\)\.(Msgf|Msg)$`)

var smReserved = func() map[string]bool {
	m := map[string]bool{}
	for _, w := range strings.Fields(`abbrev at attribute axiom break by calc catch class continue def deriving do else end
		example export extends finally for from fun have if import in include inductive infix infixl infixr instance let local
		macro match meta mut mutual namespace nofun nomatch noncomputable nonrec notation omit opaque open partial postfix
		prefix private protected public repeat return scoped section show structure suffices syntax then theorem this try
		universe unless unsafe until using variable where while with exists cfg env H some none pure deref index act
		carried_ r_ kv_ randInt lenOf enumerate downFrom forRange panic_ getSt default`) {
		m[w] = true
	}
	return m
}()

type smVal struct {
	s  string
	k  smKind
	ks []smKind // several results (a call with a result list)
	fx bool     // can fault or has effects: must not be evaluated out of order
}

type smVar struct {
	lean string
	k    smKind
	ord  int    // declaration order (deterministic parameter lists)
	key  string // for an sstate range variable: the Lean name of the key variable
	skip bool   // log-only local
}

type smFunc struct {
	decl    *ast.FuncDecl
	lean    string
	params  [][2]string // (lean name, kind) after flattening; the receiver / sm parameter is dropped
	results []smKind
	state   int
	text    []string // the finished definitions (loop bodies first)
}

type smGen struct {
	fset   *token.FileSet
	src    []byte
	funcs  map[string]*smFunc
	order  []*smFunc
	consts map[string]ast.Expr
	used   map[string]bool // constants referenced
	err    error
}

// smFn: one definition being emitted (a function or a loop body)
type smFn struct {
	g       *smGen
	f       *smFunc
	name    string
	scopes  []map[string]*smVar
	taken   map[string]bool
	nvars   int
	out     []string
	results []smKind
	loop    *smLoop // non-nil inside a loop body
	nloops  *int
	logOnly map[*ast.Object]bool
	mut     map[*ast.Object]bool
	curInd  int // indentation of the statement being translated
}

type smLoop struct {
	carried []*smVar
}

func (g *smGen) fail(n ast.Node, msg string, a ...any) {
	if g.err == nil {
		g.err = fmt.Errorf("%s: unsupported: %s", g.fset.Position(n.Pos()), fmt.Sprintf(msg, a...))
	}
}

func (g *smGen) goText(n ast.Node) string {
	p, e := g.fset.Position(n.Pos()), g.fset.Position(n.End())
	if e.Offset > len(g.src) {
		return "?"
	}
	return strings.Join(strings.Fields(string(g.src[p.Offset:e.Offset])), " ")
}

func smSel(e ast.Expr) string {
	switch x := e.(type) {
	case *ast.Ident:
		return x.Name
	case *ast.SelectorExpr:
		return smSel(x.X) + "." + x.Sel.Name
	case *ast.StarExpr:
		return "*" + smSel(x.X)
	case *ast.ArrayType:
		if x.Len == nil {
			return "[]" + smSel(x.Elt)
		}
	case *ast.CallExpr:
		return smSel(x.Fun) + "()"
	case *ast.MapType:
		return "map[" + smSel(x.Key) + "]" + smSel(x.Value)
	}
	return "?"
}

// ---- scopes

func (fn *smFn) push() { fn.scopes = append(fn.scopes, map[string]*smVar{}) }
func (fn *smFn) pop()  { fn.scopes = fn.scopes[:len(fn.scopes)-1] }

func (fn *smFn) declare(goName string, k smKind) *smVar {
	base := strings.ReplaceAll(goName, ".", "_")
	if smReserved[base] || fn.g.funcs[base] != nil {
		base += "_"
	}
	name := base
	for i := 1; fn.taken[name]; i++ {
		name = fmt.Sprintf("%s_%d", base, i)
	}
	fn.taken[name] = true
	fn.nvars++
	v := &smVar{lean: name, k: k, ord: fn.nvars}
	fn.scopes[len(fn.scopes)-1][goName] = v
	return v
}

func (fn *smFn) lookup(goName string) *smVar {
	for i := len(fn.scopes) - 1; i >= 0; i-- {
		if v, ok := fn.scopes[i][goName]; ok {
			return v
		}
	}
	return nil
}

func (fn *smFn) emit(ind int, s string) { fn.out = append(fn.out, strings.Repeat("  ", ind)+s) }

func (fn *smFn) isSM(e ast.Expr) bool {
	id, ok := e.(*ast.Ident)
	if !ok {
		return false
	}
	return id.Obj != nil && fn.smObj(id.Obj)
}

// the receiver or a parameter of type *SyncManager
func (fn *smFn) smObj(o *ast.Object) bool {
	if f, ok := o.Decl.(*ast.Field); ok {
		return smSel(f.Type) == "*SyncManager"
	}
	// New: `sm := SyncManager{…}`
	if a, ok := o.Decl.(*ast.AssignStmt); ok && len(a.Rhs) == 1 {
		if cl, ok := a.Rhs[0].(*ast.CompositeLit); ok && smSel(cl.Type) == "SyncManager" {
			return true
		}
	}
	return false
}

// the fields New may set in its composite literal (configuration and plumbing; the state fields must be zero)
var smNewFields = map[string]bool{"log": true, "peerNotifier": true, "chainParams": true, "peerStates": true, "msgChan": true,
	"quit": true, "minSyncPeerNetworkSpeed": true, "blocksToConfirmFork": true, "Services": true, "checkpoints": true}

// parameter types that are erased: the configuration (cfg) and the peer map handed to New (empty: the model's initial table)
var smErasedParams = map[string]bool{"*Config": true, "map[*peerpkg.Peer]*peerpkg.SyncState": true}

// ---- expressions

func smParen(s string) string {
	if strings.ContainsAny(s, " ") && !(strings.HasPrefix(s, "(") && smBalanced(s)) {
		return "(" + s + ")"
	}
	return s
}

// s starts with "(" — is that paren closed only at the very end?
func smBalanced(s string) bool {
	d := 0
	for i, c := range s {
		if c == '(' {
			d++
		} else if c == ')' {
			d--
			if d == 0 && i != len(s)-1 {
				return false
			}
		}
	}
	return d == 0
}

func (fn *smFn) coerce(n ast.Node, v smVal, want smKind) smVal {
	if want == "" || v.k == want {
		return v
	}
	if smWrap[v.k] == want {
		return smVal{s: "(some " + smParen(v.s) + ")", k: want, fx: v.fx}
	}
	if smNullable[v.k] == want {
		return smVal{s: "(← deref " + smParen(v.s) + ")", k: want, fx: true}
	}
	fn.g.fail(n, "a value of kind %s where %s is needed: %s", v.k, want, fn.g.goText(n))
	return smVal{s: "default", k: want}
}

func smIsNil(e ast.Expr) bool { id, ok := e.(*ast.Ident); return ok && id.Name == "nil" }

func (fn *smFn) expr(e ast.Expr, want smKind) smVal {
	g := fn.g
	switch x := e.(type) {
	case *ast.ParenExpr:
		return fn.expr(x.X, want)
	case *ast.Ident:
		switch x.Name {
		case "nil":
			if _, ok := smNullable[want]; ok || want == "err" {
				return smVal{s: "none", k: want}
			}
			g.fail(e, "nil of unknown kind")
			return smVal{s: "none", k: want}
		case "true", "false":
			return smVal{s: x.Name, k: "bool"}
		case "zeroHash":
			return smVal{s: "cfg.zero", k: "hash"}
		}
		if v := fn.lookup(x.Name); v != nil {
			if v.skip {
				g.fail(e, "the log-only variable %s is used", x.Name)
			}
			return fn.coerce(e, smVal{s: v.lean, k: v.k}, want)
		}
		if c, ok := g.consts[x.Name]; ok {
			_ = c
			g.used[x.Name] = true
			return smVal{s: x.Name, k: "int"}
		}
		g.fail(e, "identifier %s", x.Name)
	case *ast.BasicLit:
		if x.Kind == token.INT {
			return smVal{s: "(" + x.Value + " : Int)", k: "int"}
		}
		g.fail(e, "literal %s", x.Value)
	case *ast.UnaryExpr:
		switch x.Op {
		case token.NOT:
			v := fn.expr(x.X, "bool")
			return smVal{s: "(!" + smParen(v.s) + ")", k: "bool", fx: v.fx}
		case token.SUB:
			if l, ok := x.X.(*ast.BasicLit); ok && l.Kind == token.INT {
				return smVal{s: "(-" + l.Value + " : Int)", k: "int"}
			}
			v := fn.expr(x.X, "int")
			return smVal{s: "(-" + smParen(v.s) + ")", k: "int", fx: v.fx}
		case token.AND:
			// &xs[i] of a checkpoint slice is a non-nil *Checkpoint; &x of a hash / header value is the value
			v := fn.expr(x.X, "")
			if v.k == "cp" && want != "cp" {
				return fn.coerce(e, smVal{s: "(some " + smParen(v.s) + ")", k: "cpp", fx: v.fx}, want)
			}
			return fn.coerce(e, v, want)
		}
	case *ast.StarExpr:
		v := fn.expr(x.X, "")
		if t, ok := smNullable[v.k]; ok {
			return fn.coerce(e, smVal{s: "(← deref " + smParen(v.s) + ")", k: t, fx: true}, want)
		}
		return fn.coerce(e, v, want)
	case *ast.BinaryExpr:
		return fn.coerce(e, fn.binary(x), want)
	case *ast.SelectorExpr:
		return fn.coerce(e, fn.selector(x), want)
	case *ast.IndexExpr:
		xs := fn.expr(x.X, "")
		el, ok := smElem[xs.k]
		if !ok {
			g.fail(e, "index of %s", g.goText(x.X))
			return smVal{}
		}
		i := fn.expr(x.Index, "int")
		return fn.coerce(e, smVal{s: "(← index " + smParen(xs.s) + " " + smParen(i.s) + ")", k: el, fx: true}, want)
	case *ast.CompositeLit:
		ty := smSel(x.Type)
		if k, ok := smGoTy[ty]; ok && smElem[k] != "" {
			var parts []string
			fx := false
			for _, el := range x.Elts {
				v := fn.expr(el, smElem[k])
				parts = append(parts, v.s)
				fx = fx || v.fx
			}
			return smVal{s: "[" + strings.Join(parts, ", ") + "]", k: k, fx: fx}
		}
		g.fail(e, "composite literal %s", ty)
	case *ast.CallExpr:
		v := fn.call(x)
		if len(v.ks) > 1 {
			g.fail(e, "a call with several results in an expression: %s", g.goText(e))
		}
		return fn.coerce(e, v, want)
	}
	if g.err == nil {
		g.fail(e, "expression %s", g.goText(e))
	}
	return smVal{s: "default", k: want}
}

func (fn *smFn) isRegtestRef(e ast.Expr) bool {
	u, ok := e.(*ast.UnaryExpr)
	return ok && u.Op == token.AND && smSel(u.X) == "chaincfg.RegressionNetParams"
}

func (fn *smFn) isChainParams(e ast.Expr) bool {
	s, ok := e.(*ast.SelectorExpr)
	return ok && s.Sel.Name == "chainParams" && fn.isSM(s.X)
}

// regtest comparison: +1 `==`, -1 `!=`, 0 none
func (fn *smFn) regtestCmp(e ast.Expr) int {
	b, ok := e.(*ast.BinaryExpr)
	if !ok || (b.Op != token.EQL && b.Op != token.NEQ) {
		return 0
	}
	if (fn.isChainParams(b.X) && fn.isRegtestRef(b.Y)) || (fn.isChainParams(b.Y) && fn.isRegtestRef(b.X)) {
		if b.Op == token.EQL {
			return 1
		}
		return -1
	}
	return 0
}

func (fn *smFn) binary(x *ast.BinaryExpr) smVal {
	g := fn.g
	switch x.Op {
	case token.LAND, token.LOR:
		a := fn.expr(x.X, "bool")
		b := fn.expr(x.Y, "bool")
		if !b.fx {
			op := " && "
			if x.Op == token.LOR {
				op = " || "
			}
			return smVal{s: "(" + a.s + op + b.s + ")", k: "bool", fx: a.fx}
		}
		f := "andThen"
		if x.Op == token.LOR {
			f = "orElse"
		}
		return smVal{s: "(← " + f + " " + smParen(a.s) + " (do pure " + smParen(b.s) + "))", k: "bool", fx: true}
	case token.EQL, token.NEQ:
		if c := fn.regtestCmp(x); c != 0 {
			if c > 0 {
				return smVal{s: "isRegressionNet", k: "bool"}
			}
			return smVal{s: "(!isRegressionNet)", k: "bool"}
		}
		// <inv>.Type == wire.InvTypeBlock
		if s, ok := x.X.(*ast.SelectorExpr); ok && s.Sel.Name == "Type" && smSel(x.Y) == "wire.InvTypeBlock" {
			v := fn.expr(s.X, "inv")
			r := "(invIsBlock " + smParen(v.s) + ")"
			if x.Op == token.NEQ {
				r = "(!" + r + ")"
			}
			return smVal{s: r, k: "bool", fx: v.fx}
		}
		if smIsNil(x.Y) || smIsNil(x.X) {
			o := x.X
			if smIsNil(x.X) {
				o = x.Y
			}
			v := fn.expr(o, "")
			if _, ok := smNullable[v.k]; !ok && v.k != "err" {
				g.fail(x, "comparison of a %s with nil: %s", v.k, g.goText(x))
			}
			m := ".isNone"
			if x.Op == token.NEQ {
				m = ".isSome"
			}
			return smVal{s: smParen(v.s) + m, k: "bool", fx: v.fx}
		}
		a := fn.expr(x.X, "")
		b := fn.expr(x.Y, "")
		if a.k != b.k {
			if smWrap[a.k] == b.k {
				a = fn.coerce(x.X, a, b.k)
			} else if smWrap[b.k] == a.k {
				b = fn.coerce(x.Y, b, a.k)
			} else {
				g.fail(x, "comparison of %s with %s: %s", a.k, b.k, g.goText(x))
			}
		}
		switch a.k {
		case "int", "hash", "peer", "peerp", "bool":
		default:
			g.fail(x, "comparison on kind %s: %s", a.k, g.goText(x))
		}
		op := " = "
		if x.Op == token.NEQ {
			op = " ≠ "
		}
		return smVal{s: "(decide (" + a.s + op + b.s + "))", k: "bool", fx: a.fx || b.fx}
	case token.LSS, token.LEQ, token.GTR, token.GEQ:
		a := fn.expr(x.X, "int")
		b := fn.expr(x.Y, "int")
		op := map[token.Token]string{token.LSS: " < ", token.LEQ: " ≤ ", token.GTR: " > ", token.GEQ: " ≥ "}[x.Op]
		return smVal{s: "(decide (" + a.s + op + b.s + "))", k: "bool", fx: a.fx || b.fx}
	case token.ADD, token.SUB, token.MUL:
		a := fn.expr(x.X, "int")
		b := fn.expr(x.Y, "int")
		op := map[token.Token]string{token.ADD: " + ", token.SUB: " - ", token.MUL: " * "}[x.Op]
		return smVal{s: "(" + a.s + op + b.s + ")", k: "int", fx: a.fx || b.fx}
	case token.AND:
		a := fn.expr(x.X, "int")
		b := fn.expr(x.Y, "int")
		return smVal{s: "(bitAnd " + smParen(a.s) + " " + smParen(b.s) + ")", k: "int", fx: a.fx || b.fx}
	}
	g.fail(x, "operator %s", x.Op)
	return smVal{}
}

func (fn *smFn) selector(x *ast.SelectorExpr) smVal {
	g := fn.g
	name := x.Sel.Name
	switch smSel(x) {
	case "config.DisableCheckpoints":
		return smVal{s: "cfg.disableCp", k: "bool"}
	case "wire.SFNodeNetwork":
		return smVal{s: "sfNodeNetwork", k: "int"}
	case "time.Second":
		return smVal{s: "timeSecond", k: "int"}
	}
	if fn.isSM(x.X) {
		if f, ok := smFields[name]; ok && f[1] != "" {
			return smVal{s: f[1], k: smKind(f[0])}
		}
		g.fail(x, "manager field %s", name)
		return smVal{}
	}
	// flattened message parameter
	if id, ok := x.X.(*ast.Ident); ok {
		if v := fn.lookup(id.Name + "." + name); v != nil {
			return smVal{s: v.lean, k: v.k}
		}
	}
	v := fn.expr(x.X, "")
	if smIdentityFields[name] && (v.k == "srcs" || v.k == "invs") {
		return v
	}
	base := v
	if t, ok := smNullable[v.k]; ok {
		base = smVal{s: "(← deref " + smParen(v.s) + ")", k: t, fx: true}
	}
	switch {
	case base.k == "cp" && name == "Height":
		return smVal{s: "(cpHeight " + smParen(base.s) + ")", k: "int", fx: base.fx}
	case base.k == "cp" && name == "Hash":
		return smVal{s: "(cpHash " + smParen(base.s) + ")", k: "hash", fx: base.fx}
	case base.k == "hdr" && name == "Height":
		return smVal{s: "(rowHeight " + smParen(base.s) + ")", k: "int", fx: base.fx}
	case base.k == "hdr" && name == "Hash":
		return smVal{s: smParen(base.s) + ".hash", k: "hash", fx: base.fx}
	case base.k == "inv" && name == "Hash":
		return smVal{s: "(invHash " + smParen(base.s) + ")", k: "hash", fx: base.fx}
	case base.k == "sstate" && name == "SyncCandidate":
		return smVal{s: base.s + ".syncCandidate", k: "bool"}
	}
	g.fail(x, "field %s of a %s", name, v.k)
	return smVal{}
}

func (fn *smFn) args(c *ast.CallExpr, kinds []smKind) (string, bool) {
	if len(c.Args) != len(kinds) {
		fn.g.fail(c, "%d arguments where %d are expected: %s", len(c.Args), len(kinds), fn.g.goText(c))
		return "", false
	}
	s, fx := "", false
	for i, a := range c.Args {
		v := fn.expr(a, kinds[i])
		s += " " + smParen(v.s)
		fx = fx || v.fx
	}
	return s, fx
}

func smResult(lean string, res []smKind) smVal {
	if len(res) == 0 {
		return smVal{s: lean, k: "unit", fx: true}
	}
	if len(res) == 1 {
		return smVal{s: "(← " + lean + ")", k: res[0], fx: true}
	}
	return smVal{s: lean, k: "", ks: res, fx: true}
}

func (fn *smFn) call(c *ast.CallExpr) smVal {
	g := fn.g
	name := smSel(c.Fun)
	// conversions
	switch name {
	case "int", "int32", "int64", "uint64", "big.NewInt", "domains.BlockLocator", "domains.BlockHeaderSource":
		if len(c.Args) == 1 {
			return fn.expr(c.Args[0], "")
		}
	case "len":
		v := fn.expr(c.Args[0], "")
		if smElem[v.k] == "" {
			g.fail(c, "len of a %s", v.k)
		}
		return smVal{s: "(lenOf " + smParen(v.s) + ")", k: "int", fx: v.fx}
	case "append":
		if len(c.Args) == 2 {
			xs := fn.expr(c.Args[0], "")
			x := fn.expr(c.Args[1], smElem[xs.k])
			return smVal{s: "(" + xs.s + " ++ [" + x.s + "])", k: xs.k, fx: xs.fx || x.fx}
		}
	case "rand.Int":
		if len(c.Args) == 2 && smSel(c.Args[0]) == "rand.Reader" {
			n := fn.expr(c.Args[1], "int")
			return smVal{s: "randInt env " + smParen(n.s), ks: []smKind{"int", "err"}, fx: true}
		}
	case "atomic.LoadInt32":
		if u, ok := c.Args[0].(*ast.UnaryExpr); ok && u.Op == token.AND {
			if s, ok := u.X.(*ast.SelectorExpr); ok && s.Sel.Name == "shutdown" && fn.isSM(s.X) {
				return smVal{s: "(← shutdownFlag)", k: "int"}
			}
		}
	case "fmt.Errorf":
		for _, a := range c.Args[1:] {
			fn.scanFaults(a, fn.curInd, nil)
		}
		return smVal{s: "(some GoErr.other)", k: "err"}
	case "time.Since":
		if len(c.Args) == 1 && strings.HasSuffix(smSel(c.Args[0]), ".syncPeerState.lastBlockTime") {
			return smVal{s: "env.sinceLastBlock", k: "int"}
		}
	}
	sel, ok := c.Fun.(*ast.SelectorExpr)
	if !ok {
		// plain function of the file
		if id, ok := c.Fun.(*ast.Ident); ok {
			if f := g.funcs[id.Name]; f != nil && f.decl.Recv == nil {
				return fn.callFunc(c, f, c.Args)
			}
		}
		g.fail(c, "call %s", g.goText(c))
		return smVal{}
	}
	m := sel.Sel.Name
	// x.Int64()
	if m == "Int64" && len(c.Args) == 0 {
		return fn.expr(sel.X, "int")
	}
	// service.<Code>.Is(err)
	if m == "Is" && strings.HasPrefix(smSel(sel.X), "service.") && len(c.Args) == 1 {
		e := fn.expr(c.Args[0], "err")
		return smVal{s: "(errIs \"" + strings.TrimPrefix(smSel(sel.X), "service.") + "\" " + smParen(e.s) + ")", k: "bool", fx: e.fx}
	}
	// methods of the manager
	if fn.isSM(sel.X) {
		if f := g.funcs[m]; f != nil && f.decl.Recv != nil {
			return fn.callFunc(c, f, c.Args)
		}
		g.fail(c, "manager method %s", m)
		return smVal{}
	}
	if s2, ok := sel.X.(*ast.SelectorExpr); ok {
		// sm.peerNotifier.BanPeer(p)
		if s2.Sel.Name == "peerNotifier" && fn.isSM(s2.X) && m == "BanPeer" && len(c.Args) == 1 {
			p := fn.expr(c.Args[0], "peer")
			return smVal{s: "banPeer " + smParen(p.s), k: "unit", fx: true}
		}
		// sm.syncPeerState.validNetworkSpeed(sm.minSyncPeerNetworkSpeed)
		if s2.Sel.Name == "syncPeerState" && fn.isSM(s2.X) && m == "validNetworkSpeed" {
			return smVal{s: "env.violations", k: "int"}
		}
		// sm.Services.<Svc>.<Method>(…)
		if s3, ok := s2.X.(*ast.SelectorExpr); ok && s3.Sel.Name == "Services" && (fn.isSM(s3.X) || smSel(s3.X) == "config") {
			if p, ok := smServiceCalls[s2.Sel.Name+"."+m]; ok {
				a, _ := fn.args(c, p.args)
				lean := p.lean
				if p.cfg {
					lean += " cfg"
				}
				return smResult(lean+a, p.res)
			}
			g.fail(c, "service call %s.%s", s2.Sel.Name, m)
			return smVal{}
		}
	}
	// methods on a peer / a header
	recv := fn.expr(sel.X, "")
	switch recv.k {
	case "peer", "peerp":
		p := fn.coerce(sel.X, recv, "peer")
		if m == "Services" && len(c.Args) == 0 {
			return smVal{s: "(← peerServices env " + smParen(p.s) + ")", k: "int", fx: p.fx}
		}
		if pm, ok := smPeerMethods[m]; ok {
			a, _ := fn.args(c, smPeerArgKinds[m])
			return smResult(pm[0]+" "+smParen(p.s)+a, func() []smKind {
				if pm[1] == "unit" {
					return nil
				}
				return []smKind{smKind(pm[1])}
			}())
		}
	case "hdr", "hdrp":
		h := fn.coerce(sel.X, recv, "hdr")
		if m == "IsLongestChain" && len(c.Args) == 0 {
			return smVal{s: "(rowIsLongestChain " + smParen(h.s) + ")", k: "bool", fx: h.fx}
		}
	}
	g.fail(c, "call %s", g.goText(c))
	return smVal{}
}

func (fn *smFn) callFunc(c *ast.CallExpr, f *smFunc, args []ast.Expr) smVal {
	g := fn.g
	g.translate(f)
	// drop an explicit sm argument
	var rest []ast.Expr
	for _, a := range args {
		if fn.isSM(a) {
			continue
		}
		rest = append(rest, a)
	}
	s := f.lean + " cfg env"
	i := 0
	for _, a := range rest {
		if i >= len(f.params) {
			g.fail(c, "too many arguments: %s", g.goText(c))
			return smVal{}
		}
		// a flattened message parameter cannot be passed on
		v := fn.expr(a, smKind(f.params[i][1]))
		s += " " + smParen(v.s)
		i++
	}
	if i != len(f.params) {
		g.fail(c, "argument count of %s: %s", f.lean, g.goText(c))
	}
	return smResult(s, f.results)
}

// ---- skipped calls

func (fn *smFn) isSkippedCall(c *ast.CallExpr) bool {
	name := smSel(c.Fun)
	if smLogRe.MatchString(name) {
		return true
	}
	if m := smLocalLogRe.FindStringSubmatch(name); m != nil {
		if v := fn.lookup(m[1]); v != nil && v.skip {
			return true
		}
	}
	switch name {
	case "peerpkg.SyncStatesMtx.Lock", "peerpkg.SyncStatesMtx.Unlock":
		return true
	}
	if sel, ok := c.Fun.(*ast.SelectorExpr); ok {
		if sel.Sel.Name == "logSyncState" && fn.isSM(sel.X) {
			return true
		}
		if fn.touchesUnmodelled(sel.X) {
			return true
		}
	}
	return false
}

func (fn *smFn) touchesUnmodelled(e ast.Expr) bool {
	for {
		s, ok := e.(*ast.SelectorExpr)
		if !ok {
			return false
		}
		if smUnmodelled[s.Sel.Name] && fn.isSM(s.X) {
			return true
		}
		e = s.X
	}
}

// scanFaults: the arguments of a skipped call are evaluated by Go: indexing and dereferences in them can panic
func (fn *smFn) scanFaults(e ast.Expr, ind int, seen map[string]bool) {
	if seen == nil {
		seen = map[string]bool{}
	}
	emit := func(s string) {
		if !seen[s] {
			seen[s] = true
			fn.emit(ind, s)
		}
	}
	nullableBase := func(x ast.Expr) (string, bool) {
		switch y := x.(type) {
		case *ast.Ident:
			if v := fn.lookup(y.Name); v != nil && !v.skip {
				if _, ok := smNullable[v.k]; ok {
					return v.lean, true
				}
			}
		case *ast.SelectorExpr:
			if fn.isSM(y.X) {
				if f, ok := smFields[y.Sel.Name]; ok {
					if _, ok := smNullable[smKind(f[0])]; ok {
						return f[1], true
					}
				}
			}
		}
		return "", false
	}
	var walk func(x ast.Expr)
	walk = func(x ast.Expr) {
		switch y := x.(type) {
		case *ast.ParenExpr:
			walk(y.X)
		case *ast.BinaryExpr:
			walk(y.X)
			walk(y.Y)
		case *ast.UnaryExpr:
			walk(y.X)
		case *ast.StarExpr:
			if b, ok := nullableBase(y.X); ok {
				emit("let _ ← deref " + smParen(b))
			} else {
				walk(y.X)
			}
		case *ast.SelectorExpr:
			if b, ok := nullableBase(y.X); ok {
				emit("let _ ← deref " + smParen(b))
			} else if fn.touchesUnmodelled(y) {
			} else {
				walk(y.X)
			}
		case *ast.IndexExpr:
			walk(y.Index)
			if id, ok := y.X.(*ast.Ident); ok {
				if v := fn.lookup(id.Name); v != nil && v.skip {
					return // a log-only map
				}
			}
			xs := fn.expr(y.X, "")
			if smElem[xs.k] == "" {
				fn.g.fail(y, "index inside a skipped call: %s", fn.g.goText(y))
				return
			}
			i := fn.expr(y.Index, "int")
			emit("let _ ← index " + smParen(xs.s) + " " + smParen(i.s))
		case *ast.CallExpr:
			if sel, ok := y.Fun.(*ast.SelectorExpr); ok && smPureInSkip[sel.Sel.Name] {
				if b, ok := nullableBase(sel.X); ok {
					emit("let _ ← deref " + smParen(b))
				} else {
					walk(sel.X)
				}
				for _, a := range y.Args {
					walk(a)
				}
				return
			}
			if smSel(y.Fun) == "len" {
				return
			}
			fn.g.fail(y, "call inside a skipped call: %s", fn.g.goText(y))
		case *ast.Ident, *ast.BasicLit:
		default:
			fn.g.fail(x, "expression inside a skipped call: %s", fn.g.goText(x))
		}
	}
	walk(e)
}

func (fn *smFn) skipCall(c *ast.CallExpr, ind int) {
	fn.emit(ind, "-- skipped: "+smShort(fn.g.goText(c)))
	seen := map[string]bool{}
	// the chain x.log.Level().Msgf(args): only the last call has arguments
	for _, a := range c.Args {
		fn.scanFaults(a, ind, seen)
	}
}

func smShort(s string) string {
	if len(s) > 110 {
		return s[:107] + "..."
	}
	return s
}

// ---- statements

func (fn *smFn) carriedTuple() string {
	if fn.loop == nil {
		return ""
	}
	var n []string
	for _, v := range fn.loop.carried {
		n = append(n, v.lean)
	}
	if len(n) == 0 {
		return "()"
	}
	if len(n) == 1 {
		return n[0]
	}
	return "(" + strings.Join(n, ", ") + ")"
}

func (fn *smFn) retZero() string {
	if len(fn.results) == 0 {
		return "()"
	}
	return ""
}

func (fn *smFn) emitReturn(ind int, val string) {
	if fn.loop != nil {
		fn.emit(ind, "return Ctl.ret "+smParen(val))
	} else {
		fn.emit(ind, "return "+val)
	}
}

func (fn *smFn) block(list []ast.Stmt, ind int) {
	fn.push()
	n := len(fn.out)
	for _, s := range list {
		fn.stmt(s, ind)
	}
	emitted := false
	for _, l := range fn.out[n:] {
		if !strings.HasPrefix(strings.TrimSpace(l), "--") {
			emitted = true
		}
	}
	if !emitted {
		fn.emit(ind, "pure ()")
	}
	fn.pop()
}

// an `if` that only maintains unmodelled state: condition and body mention nothing else
func (fn *smFn) onlyUnmodelled(s ast.Stmt) bool {
	switch x := s.(type) {
	case *ast.AssignStmt:
		for _, l := range x.Lhs {
			if !fn.touchesUnmodelled(l) {
				return false
			}
		}
		return true
	case *ast.IfStmt:
		if x.Init != nil || x.Else != nil {
			return false
		}
		b, ok := x.Cond.(*ast.BinaryExpr)
		if !ok || !(fn.touchesUnmodelled(b.X) && smIsNil(b.Y)) {
			return false
		}
		for _, t := range x.Body.List {
			if !fn.onlyUnmodelled(t) {
				return false
			}
		}
		return true
	}
	return false
}

func (fn *smFn) bindResults(ind int, lhs []ast.Expr, define bool, v smVal, n ast.Node) {
	g := fn.g
	if len(lhs) != len(v.ks) {
		g.fail(n, "result count: %s", g.goText(n))
		return
	}
	var names []string
	anyMut := false
	for i, l := range lhs {
		id, ok := l.(*ast.Ident)
		if !ok {
			g.fail(l, "target %s", g.goText(l))
			return
		}
		if id.Name == "_" {
			names = append(names, "_")
			continue
		}
		if define && (fn.lookupLocal(id.Name) == nil) {
			va := fn.declare(id.Name, v.ks[i])
			if fn.logOnly[id.Obj] {
				va.skip = true
			}
			if fn.mut[id.Obj] {
				anyMut = true
			}
			names = append(names, va.lean)
		} else {
			va := fn.lookup(id.Name)
			if va == nil {
				g.fail(l, "assignment to unknown %s", id.Name)
				return
			}
			if va.k != v.ks[i] {
				g.fail(l, "%s is a %s, the result is a %s", id.Name, va.k, v.ks[i])
			}
			names = append(names, va.lean)
		}
	}
	pat := "(" + strings.Join(names, ", ") + ")"
	if len(names) == 1 {
		pat = names[0]
	}
	if define {
		kw := "let "
		if anyMut {
			kw = "let mut "
		}
		fn.emit(ind, kw+pat+" ← "+v.s)
	} else {
		fn.emit(ind, pat+" ← "+v.s)
	}
}

func (fn *smFn) lookupLocal(goName string) *smVar {
	return fn.scopes[len(fn.scopes)-1][goName]
}

func (fn *smFn) assign(x *ast.AssignStmt, ind int) {
	g := fn.g
	define := x.Tok == token.DEFINE
	if x.Tok != token.DEFINE && x.Tok != token.ASSIGN {
		g.fail(x, "assignment operator %s", x.Tok)
		return
	}
	// unmodelled state
	allUn := true
	for _, l := range x.Lhs {
		if !fn.touchesUnmodelled(l) {
			allUn = false
		}
	}
	if allUn {
		fn.emit(ind, "-- skipped (unmodelled state): "+smShort(g.goText(x)))
		return
	}
	// _, exists := sm.peerStates[k]
	if len(x.Lhs) == 2 && len(x.Rhs) == 1 {
		if ix, ok := x.Rhs[0].(*ast.IndexExpr); ok {
			if s, ok := ix.X.(*ast.SelectorExpr); ok && s.Sel.Name == "peerStates" && fn.isSM(s.X) {
				if id, ok := x.Lhs[0].(*ast.Ident); !ok || id.Name != "_" {
					g.fail(x, "the value of a peerStates lookup is used")
					return
				}
				k := fn.expr(ix.Index, "")
				prim := "peerStatesHas"
				if k.k == "peerp" {
					prim = "peerStatesHasOpt"
				} else if k.k != "peer" {
					g.fail(ix, "peerStates key of kind %s", k.k)
				}
				fn.bindResults(ind, x.Lhs[1:], define, smVal{s: prim + " " + smParen(k.s), ks: []smKind{"bool"}}, x)
				return
			}
		}
	}
	if len(x.Rhs) == 1 && len(x.Lhs) > 1 {
		c, ok := x.Rhs[0].(*ast.CallExpr)
		if !ok {
			g.fail(x, "multi-assignment %s", g.goText(x))
			return
		}
		v := fn.call(c)
		fn.bindResults(ind, x.Lhs, define, v, x)
		return
	}
	if len(x.Lhs) != 1 || len(x.Rhs) != 1 {
		g.fail(x, "assignment %s", g.goText(x))
		return
	}
	lhs, rhs := x.Lhs[0], x.Rhs[0]
	switch l := lhs.(type) {
	case *ast.Ident:
		if define && strings.HasPrefix(smSel(rhs), "config.Logger.") {
			va := fn.declare(l.Name, "unit")
			va.skip = true
			fn.emit(ind, "-- skipped (logger): "+smShort(g.goText(x)))
			return
		}
		if cl, ok := rhs.(*ast.CompositeLit); ok && define && smSel(cl.Type) == "SyncManager" {
			for _, el := range cl.Elts {
				kv, ok := el.(*ast.KeyValueExpr)
				if !ok || !smNewFields[smSel(kv.Key)] {
					g.fail(el, "field of the SyncManager literal: %s", g.goText(el))
					return
				}
			}
			fn.emit(ind, "-- "+l.Name+" := SyncManager{…}: configuration and plumbing only; syncPeer, headersFirstMode, nextCheckpoint start as their zero values")
			return
		}
		if define {
			// log-only local
			if fn.logOnly[l.Obj] {
				ok := false
				switch r := rhs.(type) {
				case *ast.CompositeLit:
					ok = true
				case *ast.CallExpr:
					if s, isSel := r.Fun.(*ast.SelectorExpr); isSel && smPureInSkip[s.Sel.Name] {
						ok = true
					}
				}
				if !ok {
					g.fail(x, "initialiser of the log-only variable %s", l.Name)
				}
				va := fn.declare(l.Name, "unit")
				va.skip = true
				fn.emit(ind, "-- skipped (only used in log lines): "+smShort(g.goText(x)))
				return
			}
			v := fn.expr(rhs, "")
			if len(v.ks) > 1 {
				g.fail(x, "several results bound to one variable")
				return
			}
			if v.k == "unit" || v.k == "" {
				g.fail(x, "value of %s", g.goText(rhs))
				return
			}
			va := fn.declare(l.Name, v.k)
			kw := "let "
			if fn.mut[l.Obj] {
				kw = "let mut "
			}
			fn.emit(ind, kw+va.lean+" : "+smLeanTy[v.k]+" := "+v.s)
			return
		}
		va := fn.lookup(l.Name)
		if va == nil {
			g.fail(x, "assignment to %s", l.Name)
			return
		}
		v := fn.expr(rhs, va.k)
		fn.emit(ind, va.lean+" := "+v.s)
	case *ast.SelectorExpr:
		// sm.field = e
		if fn.isSM(l.X) {
			f, ok := smFields[l.Sel.Name]
			if !ok || f[2] == "" {
				g.fail(x, "assignment to manager field %s", l.Sel.Name)
				return
			}
			v := fn.expr(rhs, smKind(f[0]))
			fn.emit(ind, f[2]+" "+smParen(v.s))
			return
		}
		// state.SyncCandidate = e (range variable over sm.peerStates)
		if id, ok := l.X.(*ast.Ident); ok && l.Sel.Name == "SyncCandidate" {
			if va := fn.lookup(id.Name); va != nil && va.k == "sstate" && va.key != "" {
				v := fn.expr(rhs, "bool")
				fn.emit(ind, "peerStatesSetCandidate "+va.key+" "+smParen(v.s))
				return
			}
		}
		g.fail(x, "assignment to %s", g.goText(lhs))
	case *ast.IndexExpr:
		// sm.peerStates[peer] = &peerpkg.SyncState{SyncCandidate: c}
		if s, ok := l.X.(*ast.SelectorExpr); ok && s.Sel.Name == "peerStates" && fn.isSM(s.X) {
			u, ok := rhs.(*ast.UnaryExpr)
			if ok && u.Op == token.AND {
				if cl, ok := u.X.(*ast.CompositeLit); ok && smSel(cl.Type) == "peerpkg.SyncState" && len(cl.Elts) == 1 {
					if kv, ok := cl.Elts[0].(*ast.KeyValueExpr); ok && smSel(kv.Key) == "SyncCandidate" {
						p := fn.expr(l.Index, "peer")
						c := fn.expr(kv.Value, "bool")
						fn.emit(ind, "peerStatesPut "+smParen(p.s)+" "+smParen(c.s))
						return
					}
				}
			}
		}
		g.fail(x, "assignment to %s", g.goText(lhs))
	default:
		g.fail(x, "assignment to %s", g.goText(lhs))
	}
}

func (fn *smFn) ifStmt(x *ast.IfStmt, ind int, kw string) {
	g := fn.g
	if fn.onlyUnmodelled(x) {
		fn.emit(ind, "-- skipped (unmodelled state): "+smShort(g.goText(x)))
		return
	}
	// folded: if sm.chainParams == &chaincfg.RegressionNetParams {…} else {…}
	if c := fn.regtestCmp(x.Cond); c != 0 && x.Init == nil && kw == "if " {
		keep := x.Else
		if c < 0 {
			keep = x.Body
		}
		fn.emit(ind, "-- folded: "+g.goText(x.Cond)+" — the regression-test network is outside the model (isRegressionNet = false)")
		if b, ok := keep.(*ast.BlockStmt); ok && keep != nil {
			fn.push()
			for _, s := range b.List {
				fn.stmt(s, ind)
			}
			fn.pop()
		} else if keep != nil {
			g.fail(x, "folded if with an else-if")
		}
		return
	}
	fn.push()
	if x.Init != nil {
		if kw != "if " {
			g.fail(x, "else-if with an init statement")
		}
		fn.stmt(x.Init, ind)
	}
	c := fn.expr(x.Cond, "bool")
	fn.emit(ind, kw+c.s+" then")
	fn.block(x.Body.List, ind+1)
	switch e := x.Else.(type) {
	case nil:
	case *ast.BlockStmt:
		fn.emit(ind, "else")
		fn.block(e.List, ind+1)
	case *ast.IfStmt:
		fn.ifStmt(e, ind, "else if ")
	}
	fn.pop()
}

func (fn *smFn) stmt(s ast.Stmt, ind int) {
	g := fn.g
	if g.err != nil {
		return
	}
	fn.curInd = ind
	switch x := s.(type) {
	case *ast.ExprStmt:
		c, ok := x.X.(*ast.CallExpr)
		if !ok {
			g.fail(s, "statement %s", g.goText(s))
			return
		}
		if fn.isSkippedCall(c) {
			fn.skipCall(c, ind)
			return
		}
		if smSel(c.Fun) == "delete" && len(c.Args) == 2 {
			if sl, ok := c.Args[0].(*ast.SelectorExpr); ok && sl.Sel.Name == "peerStates" && fn.isSM(sl.X) {
				p := fn.expr(c.Args[1], "peer")
				fn.emit(ind, "peerStatesDelete "+smParen(p.s))
				return
			}
		}
		v := fn.call(c)
		if len(v.ks) > 1 {
			fn.emit(ind, "let _ ← "+v.s)
		} else if v.k == "unit" {
			fn.emit(ind, v.s)
		} else {
			fn.emit(ind, "let _ := "+v.s)
		}
	case *ast.AssignStmt:
		fn.assign(x, ind)
	case *ast.DeclStmt:
		gd, ok := x.Decl.(*ast.GenDecl)
		if !ok || gd.Tok != token.VAR || len(gd.Specs) != 1 {
			g.fail(s, "declaration %s", g.goText(s))
			return
		}
		vs := gd.Specs[0].(*ast.ValueSpec)
		if len(vs.Names) != 1 || len(vs.Values) != 0 {
			g.fail(s, "declaration %s", g.goText(s))
			return
		}
		t, ok := smVarTy[smSel(vs.Type)]
		if !ok {
			g.fail(s, "var of type %s", smSel(vs.Type))
			return
		}
		va := fn.declare(vs.Names[0].Name, smKind(t[0]))
		kw := "let "
		if fn.mut[vs.Names[0].Obj] {
			kw = "let mut "
		}
		fn.emit(ind, kw+va.lean+" : "+smLeanTy[va.k]+" := "+t[1])
	case *ast.IfStmt:
		fn.ifStmt(x, ind, "if ")
	case *ast.ReturnStmt:
		var kept []ast.Expr
		for _, r := range x.Results {
			if u, ok := r.(*ast.UnaryExpr); ok && u.Op == token.AND && fn.isSM(u.X) {
				continue
			}
			kept = append(kept, r)
		}
		x = &ast.ReturnStmt{Return: x.Return, Results: kept}
		if len(x.Results) != len(fn.results) {
			g.fail(s, "return with %d values", len(x.Results))
			return
		}
		var parts []string
		for i, r := range x.Results {
			v := fn.expr(r, fn.results[i])
			parts = append(parts, v.s)
		}
		switch len(parts) {
		case 0:
			fn.emitReturn(ind, "()")
		case 1:
			fn.emitReturn(ind, parts[0])
		default:
			fn.emitReturn(ind, "("+strings.Join(parts, ", ")+")")
		}
	case *ast.BranchStmt:
		if fn.loop == nil || x.Label != nil {
			g.fail(s, "%s outside a loop body", x.Tok)
			return
		}
		switch x.Tok {
		case token.CONTINUE:
			fn.emit(ind, "return Ctl.next "+fn.carriedTuple())
		case token.BREAK:
			fn.emit(ind, "return Ctl.brk "+fn.carriedTuple())
		default:
			g.fail(s, "%s", x.Tok)
		}
	case *ast.DeferStmt:
		if fn.touchesUnmodelled(x.Call.Fun) {
			fn.emit(ind, "-- skipped (unmodelled state): "+smShort(g.goText(s)))
			return
		}
		g.fail(s, "defer %s", g.goText(x.Call))
	case *ast.RangeStmt:
		fn.rangeLoop(x, ind)
	case *ast.ForStmt:
		fn.countDown(x, ind)
	case *ast.BlockStmt:
		fn.block(x.List, ind)
	default:
		g.fail(s, "statement %s", g.goText(s))
	}
}

// ---- loops

// identifiers of the enclosing function a statement list assigns / mentions
func smWalkIdents(n ast.Node, f func(id *ast.Ident, assigned bool)) {
	ast.Inspect(n, func(m ast.Node) bool {
		switch x := m.(type) {
		case *ast.AssignStmt:
			if x.Tok != token.DEFINE {
				for _, l := range x.Lhs {
					if id, ok := l.(*ast.Ident); ok {
						f(id, true)
					}
				}
			}
		case *ast.IncDecStmt:
			if id, ok := x.X.(*ast.Ident); ok {
				f(id, true)
			}
		case *ast.Ident:
			f(x, false)
		}
		return true
	})
}

// emitLoop: body becomes <func>_loop<n>; `elem` declares the loop variables in the body's scope
func (fn *smFn) emitLoop(n ast.Node, body *ast.BlockStmt, xs smVal, elemTy string, elem func(b *smFn) []string, ind int) {
	g := fn.g
	// outer variables the body assigns (carried) / mentions (captured)
	carried := map[*smVar]bool{}
	captured := map[*smVar]bool{}
	inner := map[*ast.Object]bool{}
	ast.Inspect(body, func(m ast.Node) bool {
		switch x := m.(type) {
		case *ast.AssignStmt:
			if x.Tok == token.DEFINE {
				for _, l := range x.Lhs {
					if id, ok := l.(*ast.Ident); ok && id.Obj != nil {
						inner[id.Obj] = true
					}
				}
			}
		case *ast.ValueSpec:
			for _, id := range x.Names {
				if id.Obj != nil {
					inner[id.Obj] = true
				}
			}
		}
		return true
	})
	if r, ok := n.(*ast.RangeStmt); ok {
		for _, e := range []ast.Expr{r.Key, r.Value} {
			if id, ok := e.(*ast.Ident); ok && id.Obj != nil {
				inner[id.Obj] = true
			}
		}
	}
	if f, ok := n.(*ast.ForStmt); ok {
		if a, ok := f.Init.(*ast.AssignStmt); ok {
			if id, ok := a.Lhs[0].(*ast.Ident); ok && id.Obj != nil {
				inner[id.Obj] = true
			}
		}
	}
	smWalkIdents(body, func(id *ast.Ident, assigned bool) {
		if id.Obj == nil || inner[id.Obj] || fn.logOnly[id.Obj] {
			return
		}
		v := fn.lookup(id.Name)
		if v == nil {
			for _, sc := range fn.scopes {
				for n, w := range sc {
					if strings.HasPrefix(n, id.Name+".") {
						captured[w] = true
					}
				}
			}
			return
		}
		if v.skip {
			return
		}
		if assigned {
			carried[v] = true
		} else {
			captured[v] = true
		}
	})
	sortVars := func(m map[*smVar]bool) []*smVar {
		var l []*smVar
		for v := range m {
			l = append(l, v)
		}
		sort.Slice(l, func(i, j int) bool { return l[i].ord < l[j].ord })
		return l
	}
	for v := range carried {
		delete(captured, v)
	}
	car, cap := sortVars(carried), sortVars(captured)
	*fn.nloops++
	name := fmt.Sprintf("%s_loop%d", fn.f.lean, *fn.nloops)
	// the body
	b := &smFn{g: g, f: fn.f, name: name, taken: map[string]bool{}, results: fn.results, nloops: fn.nloops, logOnly: fn.logOnly, mut: fn.mut}
	b.push()
	sig := "def " + name + " (cfg : Sync.Cfg H) (env : Env)"
	call := name + " cfg env"
	for _, v := range cap {
		nv := b.declare(smGoName(fn, v), v.k)
		nv.key = v.key
		sig += " (" + nv.lean + " : " + smLeanTy[v.k] + ")"
		call += " " + v.lean
	}
	b.taken["carried_"] = true
	var carTys, carNames []string
	b.loop = &smLoop{}
	for _, v := range car {
		nv := b.declare(smGoName(fn, v), v.k)
		b.loop.carried = append(b.loop.carried, nv)
		carTys = append(carTys, smLeanTy[v.k])
		carNames = append(carNames, v.lean)
	}
	sigma := "Unit"
	if len(carTys) > 0 {
		sigma = strings.Join(carTys, " × ")
	}
	rho := smResultTy(fn.results)
	elems := elem(b)
	sig += " (" + elems[0] + " : " + elemTy + ") (carried_ : " + sigma + ") : SyncM H (Ctl " + smParen(sigma) + " " + smParen(rho) + ") := do"
	b.emit(0, sig)
	for _, l := range elems[1:] {
		b.emit(1, l)
	}
	switch len(car) {
	case 0:
	case 1:
		b.emit(1, "let mut "+b.loop.carried[0].lean+" := carried_")
	default:
		b.emit(1, "let mut "+b.carriedTuple()+" := carried_")
	}
	b.push()
	for _, s := range body.List {
		b.stmt(s, 1)
	}
	b.pop()
	b.emit(1, "return Ctl.next "+b.carriedTuple())
	fn.f.text = append(fn.f.text, "/-- body of the loop `"+smShort(smLoopHead(g, n))+"` of "+fn.f.decl.Name.Name+" -/\n"+strings.Join(b.out, "\n"))
	// the loop itself
	init := "()"
	if len(carNames) == 1 {
		init = carNames[0]
	} else if len(carNames) > 1 {
		init = "(" + strings.Join(carNames, ", ") + ")"
	}
	fn.emit(ind, "match ← forRange "+smParen(xs.s)+" "+init+" ("+call+") with")
	if fn.loop != nil {
		fn.emit(ind, "| LoopOut.ret r_ => return Ctl.ret r_")
	} else {
		fn.emit(ind, "| LoopOut.ret r_ => return r_")
	}
	if len(carNames) == 0 {
		fn.emit(ind, "| LoopOut.done _ => pure ()")
	} else {
		fn.emit(ind, "| LoopOut.done carried_ => "+init+" := carried_")
	}
}

func smLoopHead(g *smGen, n ast.Node) string {
	t := g.goText(n)
	if i := strings.Index(t, "{"); i > 0 {
		return strings.TrimSpace(t[:i])
	}
	return t
}

// the Go name under which an outer variable is known
func smGoName(fn *smFn, v *smVar) string {
	for i := len(fn.scopes) - 1; i >= 0; i-- {
		for n, w := range fn.scopes[i] {
			if w == v {
				return n
			}
		}
	}
	return v.lean
}

func smResultTy(res []smKind) string {
	switch len(res) {
	case 0:
		return "Unit"
	case 1:
		return smLeanTy[res[0]]
	}
	var p []string
	for _, k := range res {
		p = append(p, smLeanTy[k])
	}
	return strings.Join(p, " × ")
}

func (fn *smFn) rangeLoop(x *ast.RangeStmt, ind int) {
	g := fn.g
	if x.Tok != token.DEFINE {
		g.fail(x, "range without :=")
		return
	}
	name := func(e ast.Expr) string {
		if id, ok := e.(*ast.Ident); ok {
			return id.Name
		}
		return "_"
	}
	// over sm.peerStates
	if s, ok := x.X.(*ast.SelectorExpr); ok && s.Sel.Name == "peerStates" && fn.isSM(s.X) {
		fn.emitLoop(x, x.Body, smVal{s: "(← peerStatesRange)"}, "Nat × SyncStateV", func(b *smFn) []string {
			k, v := "_", "_"
			var kv *smVar
			if name(x.Key) != "_" {
				kv = b.declare(name(x.Key), "peer")
				k = kv.lean
			}
			if x.Value != nil && name(x.Value) != "_" {
				vv := b.declare(name(x.Value), "sstate")
				if kv != nil {
					vv.key = kv.lean
				}
				v = vv.lean
			}
			return []string{"kv_", "let (" + k + ", " + v + ") := kv_"}
		}, ind)
		return
	}
	xs := fn.expr(x.X, "")
	el, ok := smElem[xs.k]
	if !ok {
		g.fail(x, "range over a %s", xs.k)
		return
	}
	if name(x.Key) == "_" || x.Key == nil {
		fn.emitLoop(x, x.Body, xs, smLeanTy[el], func(b *smFn) []string {
			if x.Value == nil || name(x.Value) == "_" {
				return []string{"_x"}
			}
			return []string{b.declare(name(x.Value), el).lean}
		}, ind)
		return
	}
	// with the index: over the enumerated list
	fn.emitLoop(x, x.Body, smVal{s: "(enumerate " + smParen(xs.s) + ")"}, "Int × "+smParen(smLeanTy[el]), func(b *smFn) []string {
		k := b.declare(name(x.Key), "int").lean
		v := "_"
		if x.Value != nil && name(x.Value) != "_" {
			v = b.declare(name(x.Value), el).lean
		}
		return []string{"kv_", "let (" + k + ", " + v + ") := kv_"}
	}, ind)
}

// for i := e; i >= 0; i-- {…}
func (fn *smFn) countDown(x *ast.ForStmt, ind int) {
	g := fn.g
	a, ok := x.Init.(*ast.AssignStmt)
	if !ok || a.Tok != token.DEFINE || len(a.Lhs) != 1 || len(a.Rhs) != 1 {
		g.fail(x, "for loop %s", smLoopHead(g, x))
		return
	}
	id, ok := a.Lhs[0].(*ast.Ident)
	c, ok2 := x.Cond.(*ast.BinaryExpr)
	p, ok3 := x.Post.(*ast.IncDecStmt)
	if !ok || !ok2 || !ok3 || c.Op != token.GEQ || smSel(c.X) != id.Name || p.Tok != token.DEC || smSel(p.X) != id.Name {
		g.fail(x, "for loop %s (only `for i := e; i >= 0; i--`)", smLoopHead(g, x))
		return
	}
	if l, ok := c.Y.(*ast.BasicLit); !ok || l.Value != "0" {
		g.fail(x, "for loop %s (only `for i := e; i >= 0; i--`)", smLoopHead(g, x))
		return
	}
	// the body must not assign the loop variable
	bad := false
	smWalkIdents(x.Body, func(i *ast.Ident, assigned bool) {
		if assigned && i.Obj == id.Obj {
			bad = true
		}
	})
	if bad {
		g.fail(x, "the loop variable is assigned in the body")
		return
	}
	e := fn.expr(a.Rhs[0], "int")
	fn.emitLoop(x, x.Body, smVal{s: "(downFrom " + smParen(e.s) + ")"}, "Int", func(b *smFn) []string {
		return []string{b.declare(id.Name, "int").lean}
	}, ind)
}

// ---- functions

func (g *smGen) paramKinds(fd *ast.FuncDecl) ([][3]string, bool) {
	var ps [][3]string // go name, field ("" = plain), kind
	for _, f := range fd.Type.Params.List {
		ty := smSel(f.Type)
		for _, n := range f.Names {
			if ty == "*SyncManager" || smErasedParams[ty] {
				continue
			}
			if m, ok := smMsgParams[ty]; ok {
				for _, fk := range m {
					ps = append(ps, [3]string{n.Name, fk[0], fk[1]})
				}
				continue
			}
			k, ok := smGoTy[ty]
			if !ok {
				g.fail(f, "parameter type %s", ty)
				return nil, false
			}
			ps = append(ps, [3]string{n.Name, "", string(k)})
		}
	}
	return ps, true
}

func (g *smGen) translate(f *smFunc) {
	if f.state == 2 || g.err != nil {
		return
	}
	if f.state == 1 {
		g.fail(f.decl, "recursion through %s", f.decl.Name.Name)
		return
	}
	f.state = 1
	fd := f.decl
	ps, ok := g.paramKinds(fd)
	if !ok {
		return
	}
	f.results = nil
	if fd.Type.Results != nil {
		for _, r := range fd.Type.Results.List {
			n := len(r.Names)
			if n == 0 {
				n = 1
			}
			ty := smSel(r.Type)
			if ty == "*SyncManager" { // New
				continue
			}
			k, ok := smGoTy[ty]
			if !ok {
				g.fail(r, "result type %s", ty)
				return
			}
			for i := 0; i < n; i++ {
				f.results = append(f.results, k)
			}
		}
	}
	nl := 0
	fn := &smFn{g: g, f: f, name: f.lean, taken: map[string]bool{}, results: f.results, nloops: &nl}
	fn.analyse(fd)
	fn.push()
	sig := "def " + f.lean + " (cfg : Sync.Cfg H) (env : Env)"
	var muts []string
	f.params = nil
	for _, p := range ps {
		key, lean := p[0], p[0]
		if p[1] != "" {
			key, lean = p[0]+"."+p[1], p[0]+"_"+p[1]
		}
		v := fn.declare(key, smKind(p[2]))
		if v.lean == key && p[1] != "" {
			// flattened name
			delete(fn.taken, v.lean)
			v.lean = lean
			fn.taken[lean] = true
		}
		sig += " (" + v.lean + " : " + smLeanTy[v.k] + ")"
		f.params = append(f.params, [2]string{v.lean, p[2]})
		for _, fl := range fd.Type.Params.List {
			for _, n := range fl.Names {
				if n.Name == p[0] && p[1] == "" && fn.mut[n.Obj] {
					muts = append(muts, v.lean)
				}
			}
		}
	}
	sig += " : SyncM H " + smParen(smResultTy(f.results)) + " := do"
	fn.emit(0, sig)
	for _, m := range muts {
		fn.emit(1, "let mut "+m+" := "+m)
	}
	fn.push()
	for _, s := range fd.Body.List {
		fn.stmt(s, 1)
	}
	fn.pop()
	// a function without results may end without a return
	if len(f.results) == 0 {
		fn.emit(1, "return ()")
	}
	doc := "/-- " + g.goText(&ast.FuncDecl{Recv: fd.Recv, Name: fd.Name, Type: fd.Type}) + " -/\n"
	if g.err == nil {
		f.text = append(f.text, doc+strings.Join(fn.out, "\n"))
		g.order = append(g.order, f)
	}
	f.state = 2
}

// analyse: which locals are reassigned (`let mut`), which are only used inside skipped calls
func (fn *smFn) analyse(fd *ast.FuncDecl) {
	fn.mut = map[*ast.Object]bool{}
	fn.logOnly = map[*ast.Object]bool{}
	smWalkIdents(fd.Body, func(id *ast.Ident, assigned bool) {
		if assigned && id.Obj != nil {
			fn.mut[id.Obj] = true
		}
	})
	// multi-assignments with `=`
	uses := map[*ast.Object]int{}
	skipUses := map[*ast.Object]int{}
	defs := map[*ast.Object]bool{}
	var walk func(n ast.Node, skipped bool)
	walk = func(n ast.Node, skipped bool) {
		ast.Inspect(n, func(m ast.Node) bool {
			switch x := m.(type) {
			case *ast.CallExpr:
				if !skipped && fn.isSkippedCall(x) {
					walk(x, true)
					return false
				}
			case *ast.AssignStmt:
				if x.Tok == token.DEFINE {
					for _, l := range x.Lhs {
						if id, ok := l.(*ast.Ident); ok && id.Obj != nil {
							defs[id.Obj] = true
						}
					}
					for _, r := range x.Rhs {
						walk(r, skipped)
					}
					return false
				}
			case *ast.Ident:
				if x.Obj != nil {
					uses[x.Obj]++
					if skipped {
						skipUses[x.Obj]++
					}
				}
			}
			return true
		})
	}
	walk(fd.Body, false)
	for o := range defs {
		if uses[o] > 0 && uses[o] == skipUses[o] {
			fn.logOnly[o] = true
		}
	}
}

func genSyncMgr() (string, error) {
	path := filepath.Join(*repo, "transports/p2p/p2psync/manager.go")
	fset := token.NewFileSet()
	file, err := parser.ParseFile(fset, path, nil, parser.ParseComments)
	if err != nil {
		return "", err
	}
	src, err := os.ReadFile(path)
	if err != nil {
		return "", err
	}
	g := &smGen{fset: fset, src: src, funcs: map[string]*smFunc{}, consts: map[string]ast.Expr{}, used: map[string]bool{}}
	var constOrder []string
	for _, d := range file.Decls {
		switch x := d.(type) {
		case *ast.FuncDecl:
			if x.Recv != nil && smSel(x.Recv.List[0].Type) != "*SyncManager" {
				continue
			}
			g.funcs[x.Name.Name] = &smFunc{decl: x, lean: x.Name.Name}
		case *ast.GenDecl:
			if x.Tok == token.CONST {
				for _, sp := range x.Specs {
					vs := sp.(*ast.ValueSpec)
					if len(vs.Names) == 1 && len(vs.Values) == 1 {
						g.consts[vs.Names[0].Name] = vs.Values[0]
						constOrder = append(constOrder, vs.Names[0].Name)
					}
				}
			}
		}
	}
	roots := []string{"New", "handleNewPeerMsg", "handleDonePeerMsg", "handleHeadersMsg", "handleInvMsg", "handleCheckSyncPeer"}
	for _, r := range roots {
		f := g.funcs[r]
		if f == nil {
			return "", fmt.Errorf("%s: function %s not found", path, r)
		}
		g.translate(f)
	}
	if g.err != nil {
		return "", g.err
	}
	var b strings.Builder
	b.WriteString(genHeader)
	b.WriteString("-- transports/p2p/p2psync/manager.go: the event handlers and the functions they reach, translated by gen_syncmgr.go\n")
	b.WriteString("-- (subset, primitive table, skip list, folded conditions: see its header; vocabulary: BHS/Model/SyncPrim.lean).\n")
	b.WriteString("import BHS.Model.SyncPrim\n\nset_option linter.unusedVariables false\n\nnamespace BHS.Gen.SyncMgr\nopen BHS BHS.Chain BHS.Sync\nvariable {H : Type} [DecidableEq H]\n\n")
	// constants
	cfn := &smFn{g: g, taken: map[string]bool{}}
	cfn.push()
	for _, n := range constOrder {
		if !g.used[n] {
			continue
		}
		v := cfn.expr(g.consts[n], "int")
		if g.err != nil {
			return "", g.err
		}
		b.WriteString("/-- const " + n + " = " + g.goText(g.consts[n]) + " -/\ndef " + n + " : Int := " + v.s + "\n\n")
	}
	var names []string
	for _, f := range g.order {
		for _, t := range f.text {
			b.WriteString(t + "\n\n")
		}
		names = append(names, "\""+f.lean+"\"")
	}
	b.WriteString("/-- the translated functions, callees first -/\ndef translated : List String := [" + strings.Join(names, ", ") + "]\n\n")
	b.WriteString("end BHS.Gen.SyncMgr\n")
	return b.String(), nil
}
