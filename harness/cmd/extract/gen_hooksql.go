package main

// Gen.HookSql — the facts of /repo's working tree the webhook model (C12) relies on:
// column lists of the webhook statements, the table's columns and defaults after all
// migrations, the fields dto.ToWebhook / dto.ToDbWebhook copy, the arguments
// repository.UpdateWebhook passes and the order sql.UpdateWebhook binds them, and the
// places that (would) restore MaxTries / guard an empty header name.

import (
	"fmt"
	"go/ast"
	"go/parser"
	"go/token"
	"os"
	"path/filepath"
	"regexp"
	"sort"
	"strconv"
	"strings"
)

func init() { register("HookSql", genHookSql) }

func leanStrList(xs []string) string {
	q := make([]string, len(xs))
	for i, x := range xs {
		q[i] = strconv.Quote(x)
	}
	return "[" + strings.Join(q, ", ") + "]"
}

func splitCols(s string) []string {
	var res []string
	for _, c := range strings.Split(s, ",") {
		c = strings.TrimSpace(c)
		if c != "" {
			res = append(res, c)
		}
	}
	return res
}

func parseGo(path string) (*token.FileSet, *ast.File, error) {
	fset := token.NewFileSet()
	f, err := parser.ParseFile(fset, path, nil, 0)
	return fset, f, err
}

// funcDecl finds a function (recv == "" for plain functions, else the receiver's type name).
func funcDecl(f *ast.File, recv, name string) *ast.FuncDecl {
	for _, d := range f.Decls {
		fd, ok := d.(*ast.FuncDecl)
		if !ok || fd.Name.Name != name {
			continue
		}
		r := ""
		if fd.Recv != nil && len(fd.Recv.List) == 1 {
			t := fd.Recv.List[0].Type
			if st, ok := t.(*ast.StarExpr); ok {
				t = st.X
			}
			if id, ok := t.(*ast.Ident); ok {
				r = id.Name
			}
		}
		if r == recv {
			return fd
		}
	}
	return nil
}

// literalKeys returns the keys of the first composite literal whose type ends in typeName.
func literalKeys(n ast.Node, typeName string) ([]string, bool) {
	var keys []string
	found := false
	ast.Inspect(n, func(x ast.Node) bool {
		cl, ok := x.(*ast.CompositeLit)
		if !ok || found {
			return true
		}
		tn := ""
		switch t := cl.Type.(type) {
		case *ast.Ident:
			tn = t.Name
		case *ast.SelectorExpr:
			tn = t.Sel.Name
		}
		if tn != typeName {
			return true
		}
		found = true
		for _, e := range cl.Elts {
			if kv, ok := e.(*ast.KeyValueExpr); ok {
				if id, ok := kv.Key.(*ast.Ident); ok {
					keys = append(keys, id.Name)
				}
			}
		}
		return false
	})
	return keys, found
}

func genHookSql() (string, error) {
	// --- statements ---------------------------------------------------------
	_, f, err := parseGo(filepath.Join(*repo, "database/sql/webhooks.go"))
	if err != nil {
		return "", err
	}
	consts := map[string]string{}
	for _, d := range f.Decls {
		gd, ok := d.(*ast.GenDecl)
		if !ok || gd.Tok != token.CONST {
			continue
		}
		for _, sp := range gd.Specs {
			vs := sp.(*ast.ValueSpec)
			for i, n := range vs.Names {
				if i < len(vs.Values) {
					if bl, ok := vs.Values[i].(*ast.BasicLit); ok && bl.Kind == token.STRING {
						s, _ := strconv.Unquote(bl.Value)
						consts[n.Name] = strings.Join(strings.Fields(s), " ")
					}
				}
			}
		}
	}
	need := func(name string, re string) ([]string, error) {
		s, ok := consts[name]
		if !ok {
			return nil, fmt.Errorf("constant %s not found in database/sql/webhooks.go", name)
		}
		m := regexp.MustCompile(re).FindStringSubmatch(s)
		if m == nil {
			return nil, fmt.Errorf("statement %s has an unexpected shape: %q", name, s)
		}
		return m, nil
	}
	ins, err := need("sqlInsertWebhook", `^INSERT INTO webhooks\(([^)]*)\) VALUES\(([^)]*)\)$`)
	if err != nil {
		return "", err
	}
	selOne, err := need("sqlGetWebhookByURL", `^SELECT (.*) FROM webhooks WHERE (\w+) = \?$`)
	if err != nil {
		return "", err
	}
	selAll, err := need("sqlGetAllWebhooks", `^SELECT (.*) FROM webhooks$`)
	if err != nil {
		return "", err
	}
	del, err := need("sqlDeleteWebhookByURL", `^DELETE FROM webhooks WHERE (\w+) = :(\w+)$`)
	if err != nil {
		return "", err
	}
	upd, err := need("sqlUpdateWebhook", `^UPDATE webhooks SET (.*) WHERE (\w+) IN \(\?\)$`)
	if err != nil {
		return "", err
	}
	var updCols []string
	for _, c := range splitCols(upd[1]) {
		p := strings.Split(c, "=")
		if len(p) != 2 || strings.TrimSpace(p[1]) != "?" {
			return "", fmt.Errorf("UPDATE assignment of unexpected shape: %q", c)
		}
		updCols = append(updCols, strings.TrimSpace(p[0]))
	}
	// the order sql.UpdateWebhook binds its parameters: arguments of sqlx.In after the statement
	var bind []string
	if fd := funcDecl(f, "HeadersDb", "UpdateWebhook"); fd != nil {
		ast.Inspect(fd, func(x ast.Node) bool {
			ce, ok := x.(*ast.CallExpr)
			if !ok {
				return true
			}
			if se, ok := ce.Fun.(*ast.SelectorExpr); ok && se.Sel.Name == "In" && len(ce.Args) > 1 {
				if id, ok := ce.Args[0].(*ast.Ident); ok && id.Name == "sqlUpdateWebhook" {
					for _, a := range ce.Args[1:] {
						if id, ok := a.(*ast.Ident); ok {
							bind = append(bind, id.Name)
						} else {
							bind = append(bind, "?")
						}
					}
				}
			}
			return true
		})
	}
	var updParams []string
	if fd := funcDecl(f, "HeadersDb", "UpdateWebhook"); fd != nil {
		for _, p := range fd.Type.Params.List {
			for _, n := range p.Names {
				updParams = append(updParams, n.Name)
			}
		}
	}
	if len(bind) == 0 || len(updParams) == 0 {
		return "", fmt.Errorf("sql.UpdateWebhook: cannot find the sqlx.In call / the parameter list")
	}

	// --- table after all migrations -----------------------------------------
	migs, _ := filepath.Glob(filepath.Join(*repo, "database/migrations/*.up.sql"))
	sort.Slice(migs, func(i, j int) bool {
		a, _ := strconv.Atoi(strings.SplitN(filepath.Base(migs[i]), "_", 2)[0])
		b, _ := strconv.Atoi(strings.SplitN(filepath.Base(migs[j]), "_", 2)[0])
		return a < b
	})
	type col struct{ name, def string }
	var cols []col
	pk := ""
	created := false
	reCreate := regexp.MustCompile(`(?is)CREATE TABLE\s+webhooks\s*\((.*?)\)\s*;`)
	reRename := regexp.MustCompile(`(?i)ALTER TABLE\s+webhooks\s+RENAME COLUMN\s+(\w+)\s+TO\s+(\w+)`)
	reOther := regexp.MustCompile(`(?i)(ALTER TABLE\s+webhooks\s+(ADD|DROP|ALTER)|DROP TABLE\s+webhooks)`)
	reDefault := regexp.MustCompile(`(?i)DEFAULT\s+('[^']*'|\w+)`)
	for _, mg := range migs {
		b, err := os.ReadFile(mg)
		if err != nil {
			return "", err
		}
		src := string(b)
		if m := reCreate.FindStringSubmatch(src); m != nil {
			created = true
			for _, c := range splitCols(m[1]) {
				fs := strings.Fields(c)
				if len(fs) < 2 {
					return "", fmt.Errorf("webhooks column of unexpected shape: %q", c)
				}
				d := ""
				if dm := reDefault.FindStringSubmatch(c); dm != nil {
					d = dm[1]
				}
				if strings.Contains(strings.ToUpper(c), "PRIMARY KEY") {
					pk = fs[0]
				}
				cols = append(cols, col{fs[0], d})
			}
		}
		for _, m := range reRename.FindAllStringSubmatch(src, -1) {
			for i := range cols {
				if strings.EqualFold(cols[i].name, m[1]) {
					cols[i].name = m[2]
				}
			}
			if strings.EqualFold(pk, m[1]) {
				pk = m[2]
			}
		}
		if reOther.MatchString(src) {
			return "", fmt.Errorf("%s alters the webhooks table in a way the extractor does not understand", filepath.Base(mg))
		}
	}
	if !created {
		return "", fmt.Errorf("no CREATE TABLE webhooks in database/migrations")
	}

	// --- DTO ----------------------------------------------------------------
	_, fdto, err := parseGo(filepath.Join(*repo, "repository/dto/webhooks.go"))
	if err != nil {
		return "", err
	}
	var toHook, toDb []string
	if fd := funcDecl(fdto, "DbWebhook", "ToWebhook"); fd != nil {
		ks, ok := literalKeys(fd, "Webhook")
		if !ok {
			return "", fmt.Errorf("dto.ToWebhook: no notification.Webhook literal")
		}
		toHook = ks
		// fields assigned after the literal count as well
		ast.Inspect(fd, func(x ast.Node) bool {
			if as, ok := x.(*ast.AssignStmt); ok {
				for _, l := range as.Lhs {
					if se, ok := l.(*ast.SelectorExpr); ok {
						toHook = append(toHook, se.Sel.Name)
					}
				}
			}
			return true
		})
	} else {
		return "", fmt.Errorf("dto.ToWebhook not found")
	}
	if fd := funcDecl(fdto, "", "ToDbWebhook"); fd != nil {
		ks, ok := literalKeys(fd, "DbWebhook")
		if !ok {
			return "", fmt.Errorf("dto.ToDbWebhook: no DbWebhook literal")
		}
		toDb = ks
	} else {
		return "", fmt.Errorf("dto.ToDbWebhook not found")
	}

	// --- repository.UpdateWebhook: which fields of the webhook reach the statement
	_, frepo, err := parseGo(filepath.Join(*repo, "database/repository/webhooks_repository.go"))
	if err != nil {
		return "", err
	}
	var repoArgs []string
	if fd := funcDecl(frepo, "WebhooksRepository", "UpdateWebhook"); fd != nil {
		ast.Inspect(fd, func(x ast.Node) bool {
			ce, ok := x.(*ast.CallExpr)
			if !ok {
				return true
			}
			if se, ok := ce.Fun.(*ast.SelectorExpr); ok && se.Sel.Name == "UpdateWebhook" {
				for _, a := range ce.Args[1:] {
					if s, ok := a.(*ast.SelectorExpr); ok {
						repoArgs = append(repoArgs, s.Sel.Name)
					} else {
						repoArgs = append(repoArgs, "?")
					}
				}
			}
			return true
		})
	}
	if len(repoArgs) == 0 {
		return "", fmt.Errorf("repository.UpdateWebhook: call of db.UpdateWebhook not found")
	}

	// --- where MaxTries is (re)stored, where an empty header name is guarded --
	var maxSites, emptyGuards []string
	scan := func(rel string, skipFuncs map[string]bool, deliveryFuncs map[string]bool) error {
		_, ff, err := parseGo(filepath.Join(*repo, rel))
		if err != nil {
			return err
		}
		for _, d := range ff.Decls {
			fd, ok := d.(*ast.FuncDecl)
			if !ok || fd.Body == nil {
				continue
			}
			name := rel + ":" + fd.Name.Name
			ast.Inspect(fd.Body, func(x ast.Node) bool {
				switch n := x.(type) {
				case *ast.AssignStmt:
					for _, l := range n.Lhs {
						if se, ok := l.(*ast.SelectorExpr); ok && se.Sel.Name == "MaxTries" && !skipFuncs[fd.Name.Name] {
							maxSites = append(maxSites, name)
						}
					}
				case *ast.KeyValueExpr:
					if id, ok := n.Key.(*ast.Ident); ok && id.Name == "MaxTries" && !skipFuncs[fd.Name.Name] {
						maxSites = append(maxSites, name)
					}
				case *ast.BinaryExpr:
					if deliveryFuncs[fd.Name.Name] && (n.Op == token.EQL || n.Op == token.NEQ) {
						for _, e := range []ast.Expr{n.X, n.Y} {
							if bl, ok := e.(*ast.BasicLit); ok && bl.Kind == token.STRING && (bl.Value == `""` || bl.Value == "``") {
								emptyGuards = append(emptyGuards, name)
							}
						}
					}
				}
				return true
			})
		}
		return nil
	}
	for _, it := range []struct {
		rel      string
		skip     map[string]bool
		delivery map[string]bool
	}{
		{"notification/webhooks.go", map[string]bool{"CreateWebhook": true}, map[string]bool{"Notify": true}},
		{"notification/webhooks_service.go", nil, map[string]bool{"Notify": true}},
		{"repository/dto/webhooks.go", nil, nil},
		{"database/repository/webhooks_repository.go", nil, nil},
		{"transports/http/client/webhook_target.go", nil, map[string]bool{"callRequest": true, "Call": true}},
	} {
		if err := scan(it.rel, it.skip, it.delivery); err != nil {
			return "", err
		}
	}

	var b strings.Builder
	b.WriteString(genHeader)
	b.WriteString("-- webhook statements (database/sql/webhooks.go), table (database/migrations), DTO (repository/dto/webhooks.go)\n")
	b.WriteString("namespace BHS.Gen.HookSql\n\n")
	fmt.Fprintf(&b, "def insertCols : List String := %s\n", leanStrList(splitCols(ins[1])))
	fmt.Fprintf(&b, "def selectByUrlCols : List String := %s\n", leanStrList(splitCols(selOne[1])))
	fmt.Fprintf(&b, "def selectByUrlWhere : String := %s\n", strconv.Quote(selOne[2]))
	fmt.Fprintf(&b, "def selectAllCols : List String := %s\n", leanStrList(splitCols(selAll[1])))
	fmt.Fprintf(&b, "def deleteWhere : String := %s\n", strconv.Quote(del[1]))
	fmt.Fprintf(&b, "def updateSetCols : List String := %s\n", leanStrList(updCols))
	fmt.Fprintf(&b, "def updateWhere : String := %s\n", strconv.Quote(upd[2]))
	fmt.Fprintf(&b, "/-- parameters of sql.UpdateWebhook after ctx, and the order they are bound to the statement's placeholders -/\n")
	fmt.Fprintf(&b, "def updateParams : List String := %s\n", leanStrList(updParams[1:]))
	fmt.Fprintf(&b, "def updateBind : List String := %s\n", leanStrList(bind))
	fmt.Fprintf(&b, "/-- fields of the webhook that repository.UpdateWebhook passes, in parameter order -/\n")
	fmt.Fprintf(&b, "def repoUpdateArgs : List String := %s\n", leanStrList(repoArgs))
	var cn, cd []string
	for _, c := range cols {
		cn = append(cn, c.name)
		cd = append(cd, c.def)
	}
	fmt.Fprintf(&b, "def tableCols : List String := %s\n", leanStrList(cn))
	fmt.Fprintf(&b, "def tableDefaults : List String := %s\n", leanStrList(cd))
	fmt.Fprintf(&b, "def primaryKey : String := %s\n", strconv.Quote(pk))
	fmt.Fprintf(&b, "def toWebhookFields : List String := %s\n", leanStrList(toHook))
	fmt.Fprintf(&b, "def toDbWebhookFields : List String := %s\n", leanStrList(toDb))
	fmt.Fprintf(&b, "/-- functions (other than notification.CreateWebhook) that set a MaxTries field -/\n")
	fmt.Fprintf(&b, "def maxTriesRestoredSites : List String := %s\n", leanStrList(maxSites))
	fmt.Fprintf(&b, "/-- delivery functions (Webhook.Notify, WebhooksService.Notify, client callRequest) that compare something with \"\" -/\n")
	fmt.Fprintf(&b, "def emptyNameGuards : List String := %s\n", leanStrList(emptyGuards))
	b.WriteString("\nend BHS.Gen.HookSql\n")
	return b.String(), nil
}
