package main

// Gen.Verdict: the verdict classification of dto.ToMerkleRootConfirmation and the severity order of
// merkleroots.convertState, TRANSLATED from the Go source (not transcribed by hand):
//   * the if / else-if / else chain that assigns `confmState` becomes a Lean if-chain; receiver fields become
//     parameters; int32 arithmetic is rendered with explicit signed wrap-around (BHS.wrapS 32), `int32(x)` of an
//     int as BHS.wrapS 32 x; the named string constants are resolved from domains/merkleroots.go;
//   * the `switch s { case X: return n … default: return d }` of convertState becomes a Lean if-chain.
// Anything outside this shape is a translation error: the obligation (C02_verdict_translated) is then broken.

import (
	"fmt"
	"go/ast"
	"go/parser"
	"go/token"
	"path/filepath"
	"strconv"
	"strings"
)

func init() { register("Verdict", genVerdict) }

type vtrans struct {
	fset   *token.FileSet
	recv   string
	fields map[string]string // selector text (after the receiver) -> Lean parameter
	consts map[string]string // domains.X -> Lean string literal
	err    error
}

func (t *vtrans) fail(n ast.Node, msg string) {
	if t.err == nil {
		t.err = fmt.Errorf("%s: unsupported: %s", t.fset.Position(n.Pos()), msg)
	}
}

func selText(e ast.Expr) string {
	switch x := e.(type) {
	case *ast.Ident:
		return x.Name
	case *ast.SelectorExpr:
		return selText(x.X) + "." + x.Sel.Name
	}
	return "?"
}

// int32 expression -> Lean Int expression (value of the int32)
func (t *vtrans) intExpr(e ast.Expr) string {
	switch x := e.(type) {
	case *ast.ParenExpr:
		return "(" + t.intExpr(x.X) + ")"
	case *ast.SelectorExpr, *ast.Ident:
		s := selText(e)
		if strings.HasPrefix(s, t.recv+".") {
			if p, ok := t.fields[strings.TrimPrefix(s, t.recv+".")]; ok {
				return p
			}
		}
		if p, ok := t.fields[s]; ok {
			return p
		}
		t.fail(e, "identifier "+s)
		return "0"
	case *ast.BasicLit:
		if x.Kind == token.INT {
			return x.Value
		}
	case *ast.CallExpr:
		if id, ok := x.Fun.(*ast.Ident); ok && id.Name == "int32" && len(x.Args) == 1 {
			return "(BHS.wrapS 32 " + t.intExpr(x.Args[0]) + ")"
		}
	case *ast.BinaryExpr:
		l, r := t.intExpr(x.X), t.intExpr(x.Y)
		switch x.Op {
		case token.SUB:
			return "(BHS.wrapS 32 (" + l + " - " + r + "))"
		case token.ADD:
			return "(BHS.wrapS 32 (" + l + " + " + r + "))"
		}
	}
	t.fail(e, "int32 expression")
	return "0"
}

func (t *vtrans) boolExpr(e ast.Expr) string {
	switch x := e.(type) {
	case *ast.ParenExpr:
		return "(" + t.boolExpr(x.X) + ")"
	case *ast.SelectorExpr, *ast.Ident:
		s := selText(e)
		if p, ok := t.fields[strings.TrimPrefix(s, t.recv+".")]; ok {
			return p
		}
		t.fail(e, "boolean "+s)
		return "true"
	case *ast.UnaryExpr:
		if x.Op == token.NOT {
			return "(!" + t.boolExpr(x.X) + ")"
		}
	case *ast.BinaryExpr:
		switch x.Op {
		case token.LAND:
			return "(" + t.boolExpr(x.X) + " && " + t.boolExpr(x.Y) + ")"
		case token.LOR:
			return "(" + t.boolExpr(x.X) + " || " + t.boolExpr(x.Y) + ")"
		case token.GTR:
			return "(decide (" + t.intExpr(x.X) + " > " + t.intExpr(x.Y) + "))"
		case token.GEQ:
			return "(decide (" + t.intExpr(x.X) + " ≥ " + t.intExpr(x.Y) + "))"
		case token.LSS:
			return "(decide (" + t.intExpr(x.X) + " < " + t.intExpr(x.Y) + "))"
		case token.LEQ:
			return "(decide (" + t.intExpr(x.X) + " ≤ " + t.intExpr(x.Y) + "))"
		case token.EQL:
			return "(decide (" + t.intExpr(x.X) + " = " + t.intExpr(x.Y) + "))"
		}
	}
	t.fail(e, "boolean expression")
	return "true"
}

// constOf resolves `domains.X` / `X` to its string value
func (t *vtrans) constOf(e ast.Expr) string {
	s := selText(e)
	s = strings.TrimPrefix(s, "domains.")
	if v, ok := t.consts[s]; ok {
		return strconv.Quote(v)
	}
	t.fail(e, "constant "+s)
	return `"?"`
}

// chain translates `if c {v = K} else if … else {v = K}` assigning variable v
func (t *vtrans) chain(s *ast.IfStmt, v string) string {
	assignOf := func(b *ast.BlockStmt) string {
		if len(b.List) != 1 {
			t.fail(b, "branch with more than one statement")
			return `"?"`
		}
		as, ok := b.List[0].(*ast.AssignStmt)
		if !ok || len(as.Lhs) != 1 || selText(as.Lhs[0]) != v || as.Tok != token.ASSIGN {
			t.fail(b, "branch does not assign "+v)
			return `"?"`
		}
		return t.constOf(as.Rhs[0])
	}
	if s.Init != nil {
		t.fail(s, "if with init")
	}
	out := "if " + t.boolExpr(s.Cond) + " then " + assignOf(s.Body) + "\n  else "
	switch e := s.Else.(type) {
	case *ast.IfStmt:
		out += t.chain(e, v)
	case *ast.BlockStmt:
		out += assignOf(e)
	default:
		t.fail(s, "missing else")
	}
	return out
}

func genVerdict() (string, error) {
	fset := token.NewFileSet()
	// constants
	cf, err := parser.ParseFile(fset, filepath.Join(*repo, "domains", "merkleroots.go"), nil, 0)
	if err != nil {
		return "", err
	}
	consts := map[string]string{}
	for _, d := range cf.Decls {
		gd, ok := d.(*ast.GenDecl)
		if !ok || gd.Tok != token.CONST {
			continue
		}
		for _, sp := range gd.Specs {
			vs := sp.(*ast.ValueSpec)
			for i, n := range vs.Names {
				if i < len(vs.Values) {
					if bl, ok := vs.Values[i].(*ast.BasicLit); ok && bl.Kind == token.STRING {
						v, _ := strconv.Unquote(bl.Value)
						consts[n.Name] = v
					}
				}
			}
		}
	}
	var b strings.Builder
	b.WriteString(genHeader)
	b.WriteString("import BHS.Model.Prim\n\nnamespace BHS.Gen\n\n")
	// ToMerkleRootConfirmation
	df, err := parser.ParseFile(fset, filepath.Join(*repo, "repository", "dto", "headers.go"), nil, 0)
	if err != nil {
		return "", err
	}
	found := false
	for _, d := range df.Decls {
		fd, ok := d.(*ast.FuncDecl)
		if !ok || fd.Name.Name != "ToMerkleRootConfirmation" || fd.Recv == nil {
			continue
		}
		recv := fd.Recv.List[0].Names[0].Name
		param := fd.Type.Params.List[0].Names[0].Name
		t := &vtrans{fset: fset, recv: recv, consts: consts, fields: map[string]string{
			"Hash.Valid": "hashValid", "BlockHeight": "blockHeight", "TipHeight": "tipHeight", param: "excess"}}
		var chain string
		for _, st := range fd.Body.List {
			if is, ok := st.(*ast.IfStmt); ok {
				chain = t.chain(is, "confmState")
				break
			}
		}
		if chain == "" {
			return "", fmt.Errorf("ToMerkleRootConfirmation: no if-chain assigning confmState")
		}
		if t.err != nil {
			return "", t.err
		}
		b.WriteString("/-- repository/dto/headers.go ToMerkleRootConfirmation: the state assigned to `confmState`.\n    blockHeight, tipHeight are int32 values; excess is the configured int (converted with int32()). -/\n")
		b.WriteString("def toMerkleRootConfirmation (hashValid : Bool) (blockHeight tipHeight excess : Int) : String :=\n  " + chain + "\n\n")
		found = true
	}
	if !found {
		return "", fmt.Errorf("ToMerkleRootConfirmation not found")
	}
	// convertState
	mf, err := parser.ParseFile(fset, filepath.Join(*repo, "transports", "http", "endpoints", "api", "merkleroots", "model.go"), nil, 0)
	if err != nil {
		return "", err
	}
	found = false
	for _, d := range mf.Decls {
		fd, ok := d.(*ast.FuncDecl)
		if !ok || fd.Name.Name != "convertState" {
			continue
		}
		t := &vtrans{fset: fset, consts: consts}
		if len(fd.Body.List) != 1 {
			return "", fmt.Errorf("convertState: body shape")
		}
		sw, ok := fd.Body.List[0].(*ast.SwitchStmt)
		if !ok {
			return "", fmt.Errorf("convertState: not a switch")
		}
		param := fd.Type.Params.List[0].Names[0].Name
		if selText(sw.Tag) != param {
			return "", fmt.Errorf("convertState: switch tag")
		}
		out, dflt := "", ""
		for _, cc := range sw.Body.List {
			c := cc.(*ast.CaseClause)
			if len(c.Body) != 1 {
				return "", fmt.Errorf("convertState: case body")
			}
			rs, ok := c.Body[0].(*ast.ReturnStmt)
			if !ok || len(rs.Results) != 1 {
				return "", fmt.Errorf("convertState: case must return")
			}
			lit, ok := rs.Results[0].(*ast.BasicLit)
			if !ok {
				return "", fmt.Errorf("convertState: non literal result")
			}
			if c.List == nil {
				dflt = lit.Value
				continue
			}
			for _, e := range c.List {
				out += "if s = " + t.constOf(e) + " then " + lit.Value + "\n  else "
			}
		}
		if t.err != nil {
			return "", t.err
		}
		if dflt == "" {
			return "", fmt.Errorf("convertState: no default")
		}
		b.WriteString("/-- transports/http/endpoints/api/merkleroots/model.go convertState -/\n")
		b.WriteString("def convertState (s : String) : Nat :=\n  " + out + dflt + "\n\n")
		found = true
	}
	if !found {
		return "", fmt.Errorf("convertState not found")
	}
	b.WriteString("end BHS.Gen\n")
	return b.String(), nil
}
