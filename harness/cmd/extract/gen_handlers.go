package main

// Gen.Handlers: the API handlers of property C16 (all but the merkle-root listing, which Gen.MerkleRoots covers),
//   transports/http/endpoints/api/headers/endpoints.go      getHeaderByHash, getHeaderByHeight, getHeaderAncestorsByHash,
//                                                           getCommonAncestor, getHeadersState
//   transports/http/endpoints/api/tips/endpoints.go         getTips, getTipLongestChain
//   transports/http/endpoints/api/merkleroots/endpoints.go  verify
//   transports/http/endpoints/api/webhook/endpoints.go      registerWebhook, getWebhook, revokeWebhook
//   transports/http/endpoints/api/access/endpoints.go       getToken, createToken, revokeToken
//   bhserrors/http_response.go                              ErrorResponse, AbortWithErrorResponse, mapAndLog
// TRANSLATED statement by statement into Lean `do` blocks of `Except Fault` over the vocabulary of
// lean/BHS/Model/HandlersPrim.lean. The handlers of a package are DISCOVERED from its RegisterAPIEndpoints (every `h.<m>`
// handed to a route registration, directly or through auth.RequireAdmin), so an added handler is translated (or refused)
// too; the bhserrors functions are discovered from the calls. Refinement theorems: lean/BHS/Props/HandlersGen.lean
// (generated handler = decision function of the hand model BHS/Model/Http.lean).
//
// SUBSET (everything else: `file:line:col: unsupported: …`, exit 1, the module is replaced by an empty one)
//   statements   `x := e`, `x = e`, `a, b := f(…)`, `a, b = f(…)` (`_` allowed); `var x T` for the bindable body types and
//                ExtendedError; `err := c.Bind|BindJSON|ShouldBind|ShouldBindJSON(&x)` (also `=`, also as the init of an
//                `if`); field assignment `x.F = e` on a local struct; `if [init;] c {…} [else if …] [else {…}]`; `return`
//                (bare: handlers, functions with named results; with values otherwise); the calls of the EFFECT list as
//                expression statements. Control flow is rendered in continuation style: the statements after an `if`
//                are translated once per fall-through branch (no early return, no mutable variable in the Lean text).
//                A `:=` that shadows a variable of an enclosing scope declares a NEW Lean variable `<name>_<depth>`.
//                Statements that follow a `return` in the same block are unreachable and are not looked at.
//   expressions  identifiers, nil, "", string and integer literals, true/false, !, && || (an operand with a prelude on the
//                right-hand side is refused), == != (nil / "" / same kind), < <= > >= on ints, len(xs), field selection on
//                the local structs of the field table, package string constants of the translated file,
//                http.Status* constants, and the primitive table.
//   types        string ↦ String; int ↦ Int; bool ↦ Bool; error ↦ Option Err; *gin.Context ↦ Gin; the receiver ↦ World;
//                *domains.BlockHeader ↦ Option Hdr; []*domains.BlockHeader ↦ List Hdr; []string ↦ List String;
//                []domains.MerkleRootConfirmationRequestItem ↦ List (String × Int); []*domains.MerkleRootConfirmation ↦
//                List (String × Int × Verdict × Option String); webhook.Request ↦ WhReq; *notification.Webhook ↦ Option Hook;
//                *domains.Token ↦ Option Unit; any (c.Get) ↦ Option AuthIn; bhserrors.ResponseError ↦ RespErr;
//                bhserrors.ExtendedError ↦ Option Gen.ErrDef; *zerolog.Logger dropped. The field table and the service
//                table are checked against the Go struct / interface declarations.
// PRIMITIVE TABLE (Go ↦ Lean, see HandlersPrim.lean)
//   c.Param("k") ↦ ginParam c "k"; c.Query("k") ↦ ginQuery c "k"; c.DefaultQuery("k", d) ↦ ginDefaultQuery c "k" d;
//   c.GetQuery("k") ↦ ginGetQuery c "k"; c.Get("k") ↦ ginGet c "k"; strconv.Atoi(s) ↦ strconvAtoi s;
//   <recv>.service.<M>(args) ↦ <Svc>_<M> h args (table hdSvc, keyed by the TYPE of the handler's `service` field; a method
//   that writes returns the new world first); the response mappers of the package's model.go (table hdMappers) ↦ the
//   function of the same name (monadic: the ones taking a pointer fault on nil); bhserrors.ErrX ↦ some (Err.bhs "ErrX");
//   bhserrors.ErrX.Wrap(e) ↦ bhsWrap "ErrX" e; errors.As(e, &x) with x an ExtendedError ↦ errorsAs e x (prelude
//   `let (x, ok) := …`); x.GetCode() / GetMessage() / GetStatusCode() ↦ fields of (← deref x); len(xs) ↦ Int.ofNat xs.length.
// EFFECT LIST  c.JSON(st, v) ↦ c := ginJSON c st ⟨v as JVal⟩; c.AbortWithStatusJSON(st, v) ↦ c := ginAbortWithStatusJSON …;
//              bhserrors.ErrorResponse / AbortWithErrorResponse(c, e, log) ↦ c ← the translated function (log dropped).
// SKIP LIST    (logging) assignments whose targets are all in hdLogVars (logLevel, exposedInternalError, logInstance) with a
//              logging-only right-hand side; expression statements that are method chains on a logger or a hdLogVars
//              variable; `if <logger> != nil {…}` / `if <hdLogVars bool> {…}` whose body is skipped statements only.
//              hdLogVars are never in scope of a translated expression (reading one is `identifier` unsupported).

import (
	"fmt"
	"go/ast"
	"go/parser"
	"go/token"
	"go/types"
	"os"
	"path/filepath"
	"regexp"
	"strings"
)

func init() { register("Handlers", genHandlers) }

type hdKind string

var hdLeanTy = map[hdKind]string{"int": "Int", "bool": "Bool", "str": "String", "err": "Option Err", "gin": "Gin", "world": "World",
	"hdrp": "Option Hdr", "hdrs": "List Hdr", "strs": "List String", "items": "List (String × Int)",
	"confs": "List (String × Int × Verdict × Option String)", "whreq": "WhReq", "hookp": "Option Hook", "any": "Option AuthIn",
	"tokp": "Option Unit", "jval": "JVal", "resperr": "RespErr", "xerr": "Option Gen.ErrDef"}

// Go type text ↦ kind (parameters, results, `var` declarations)
var hdGoTy = map[string]hdKind{"string": "str", "int": "int", "bool": "bool", "error": "err", "*gin.Context": "gin",
	"*zerolog.Logger": "log", "ResponseError": "resperr", "[]string": "strs",
	"[]domains.MerkleRootConfirmationRequestItem": "items", "Request": "whreq", "ExtendedError": "xerr"}
var hdVarOK = map[hdKind]bool{"strs": true, "items": true, "whreq": true, "xerr": true}
var hdZero = map[hdKind]string{"strs": "[]", "items": "[]", "xerr": "none", "int": "(0 : Int)", "str": `""`, "err": "none", "bool": "false",
	"whreq": `{ url := "", authType := "", token := "", header := "" }`, "resperr": `{ code := "", message := "" }`}
var hdBindable = map[hdKind]bool{"strs": true, "items": true, "whreq": true}
var hdBindFns = map[string]string{"Bind": "ginBind", "BindJSON": "ginBindJSON", "ShouldBind": "ginShouldBind", "ShouldBindJSON": "ginShouldBindJSON"}
var hdLenOK = map[hdKind]bool{"strs": true, "items": true, "hdrs": true, "confs": true}
var hdNilOK = map[hdKind]bool{"err": true, "hdrp": true, "hookp": true, "tokp": true, "xerr": true, "any": true}
var hdJV = map[hdKind]string{"jval": "", "resperr": "jvRespErr", "hookp": "jvHook", "tokp": "jvToken", "any": "jvAny", "str": "jvStr"}

type hdField struct {
	lean string
	k    hdKind
}

// fields of the local structs the code reads / assigns (Go path ↦ Lean field)
var hdFields = map[hdKind]map[string]hdField{
	"whreq":   {"URL": {"url", "str"}, "RequiredAuth.Type": {"authType", "str"}, "RequiredAuth.Token": {"token", "str"}, "RequiredAuth.Header": {"header", "str"}},
	"resperr": {"Code": {"code", "str"}, "Message": {"message", "str"}},
}

// Go struct declarations the field table is checked against
var hdStructs = []struct {
	file, name string
	fields     map[string]string
}{
	{"transports/http/endpoints/api/webhook/model.go", "Request", map[string]string{"URL": "string", "RequiredAuth": "RequiredAuth"}},
	{"transports/http/endpoints/api/webhook/model.go", "RequiredAuth", map[string]string{"Type": "string", "Token": "string", "Header": "string"}},
	{"bhserrors/errors.go", "ResponseError", map[string]string{"Code": "string", "Message": "string"}},
}

// methods of an ExtendedError
var hdXerr = map[string]struct {
	lean string
	k    hdKind
}{"GetCode": {"%s.code", "str"}, "GetMessage": {"%s.message", "str"}, "GetStatusCode": {"(Int.ofNat %s.status)", "int"}}

type hdSvcM struct {
	sig    string // the Go signature in the interface declaration
	args   []hdKind
	res    []hdKind
	writes bool
}

// type of the handler's `service` field ↦ (interface file, Lean prefix); "" file = the handler's own file
var hdSvcTy = map[string][2]string{"service.Headers": {"service/service.go", "Headers"}, "service.Merkleroots": {"service/service.go", "Merkleroots"},
	"service.Tokens": {"service/service.go", "Tokens"}, "Webhooks": {"", "Webhooks"}}

var hdSvc = map[string]hdSvcM{
	"Headers.GetHeaderByHash":                 {"func(hash string) (*domains.BlockHeader, error)", []hdKind{"str"}, []hdKind{"hdrp", "err"}, false},
	"Headers.GetHeadersByHeight":              {"func(height int, count int) ([]*domains.BlockHeader, error)", []hdKind{"int", "int"}, []hdKind{"hdrs", "err"}, false},
	"Headers.GetHeaderAncestorsByHash":        {"func(hash string, ancestorHash string) ([]*domains.BlockHeader, error)", []hdKind{"str", "str"}, []hdKind{"hdrs", "err"}, false},
	"Headers.GetCommonAncestor":               {"func(hashes []string) (*domains.BlockHeader, error)", []hdKind{"strs"}, []hdKind{"hdrp", "err"}, false},
	"Headers.GetTips":                         {"func() ([]*domains.BlockHeader, error)", nil, []hdKind{"hdrs", "err"}, false},
	"Headers.GetTip":                          {"func() *domains.BlockHeader", nil, []hdKind{"hdrp"}, false},
	"Merkleroots.GetMerkleRootsConfirmations": {"func(request []domains.MerkleRootConfirmationRequestItem) ([]*domains.MerkleRootConfirmation, error)", []hdKind{"items"}, []hdKind{"confs", "err"}, false},
	"Webhooks.CreateWebhook":                  {"func(authType, header, token, url string) (*notification.Webhook, error)", []hdKind{"str", "str", "str", "str"}, []hdKind{"hookp", "err"}, true},
	"Webhooks.GetWebhookByURL":                {"func(url string) (*notification.Webhook, error)", []hdKind{"str"}, []hdKind{"hookp", "err"}, false},
	"Webhooks.DeleteWebhook":                  {"func(value string) error", []hdKind{"str"}, []hdKind{"err"}, true},
	"Tokens.GenerateToken":                    {"func() (*domains.Token, error)", nil, []hdKind{"tokp", "err"}, true},
	"Tokens.DeleteToken":                      {"func(token string) error", []hdKind{"str"}, []hdKind{"err"}, true},
}

// response mappers: package.function ↦ (argument kind, Go parameter type in model.go)
var hdMappers = map[string]struct {
	arg hdKind
	ty  string
}{
	"headers.newBlockHeaderResponse":                     {"hdrp", "*domains.BlockHeader"},
	"headers.newBlockHeaderStateResponse":                {"hdrp", "*domains.BlockHeader"},
	"headers.mapToBlockHeadersResponses":                 {"hdrs", "[]*domains.BlockHeader"},
	"tips.newTipStateResponse":                           {"hdrp", "*domains.BlockHeader"},
	"tips.mapToTipStateResponse":                         {"hdrs", "[]*domains.BlockHeader"},
	"merkleroots.mapToMerkleRootsConfirmationsResponses": {"confs", "[]*domains.MerkleRootConfirmation"},
}

var hdStatus = map[string]int{"StatusOK": 200, "StatusCreated": 201, "StatusAccepted": 202, "StatusNoContent": 204, "StatusBadRequest": 400,
	"StatusUnauthorized": 401, "StatusForbidden": 403, "StatusNotFound": 404, "StatusConflict": 409, "StatusInternalServerError": 500}

// handler packages in emission order; handlers another generated module covers
var hdPackages = []string{"headers", "tips", "merkleroots", "webhook", "access"}
var hdCoveredElsewhere = map[string]string{"merkleroots.merkleroots": "BHS.Gen.MerkleRoots"}

// logging-only locals (SKIP LIST)
var hdLogVars = map[string]bool{"logLevel": true, "exposedInternalError": true, "logInstance": true}

// Lean names a Go local may not take (it would capture the vocabulary)
var hdReserved = func() map[string]bool {
	m := map[string]bool{}
	for _, w := range strings.Fields(`pure deref bhsWrap bhsErr strconvAtoi errorsAs errDefOf ginParam ginQuery ginDefaultQuery ginGetQuery ginGet
		ginJSON ginAbortWithStatusJSON ginBind ginBindJSON ginShouldBind ginShouldBindJSON jvRespErr jvHook jvToken jvAny jvStr decide some none
		true false Int Nat String Bool Option List Except World Gin JVal Err Fault Hdr Hook`) {
		m[w] = true
	}
	return m
}()
var hdSuffixRe = regexp.MustCompile(`_\d+$`)

// Go identifiers that are tokens of Lean are emitted as «name»
func hdName(s string) string {
	if s == "exists" || s == "forall" || s == "fun" {
		return "«" + s + "»"
	}
	return admName(s)
}

func hdHandlerFile(pkg string) string {
	if pkg == "bhserrors" {
		return "bhserrors/http_response.go"
	}
	return "transports/http/endpoints/api/" + pkg + "/endpoints.go"
}

type hdErr struct{ msg string }

type hdVar struct {
	k    hdKind
	lean string
}

type hdVal struct {
	s     string
	k     hdKind   // "nil" / "empty" for the untyped literals; "log" for a dropped logger
	multi []hdKind // result list of a call with several results
	m     bool     // multi: a monadic action (bind with ←)
	w     bool     // multi: the world comes back first
}

type hdFn struct {
	pkg, name, lean string
	decl            *ast.FuncDecl
	params          []hdKind // without dropped ones
	results         []hdKind
	handler         bool
	ginOnly         bool // (c, …) without results: returns the context
	text            string
	state           int
}

type hdFile struct {
	path   string
	src    []byte
	ast    *ast.File
	consts map[string]string
}

type hdGen struct {
	fset  *token.FileSet
	files map[string]*hdFile
	fns   map[string]*hdFn
	order []*hdFn
	// per function
	fn     *hdFn
	file   *hdFile
	recv   string
	svc    string // Lean prefix of the service behind <recv>.service
	scopes []map[string]hdVar
	pre    []string
	tmp    int
	named  []string // Go names of the named results
}

type hdCont func(ind int) string

func (g *hdGen) fail(n ast.Node, msg string, a ...any) {
	panic(hdErr{fmt.Sprintf("%s: unsupported: %s", g.fset.Position(n.Pos()), fmt.Sprintf(msg, a...))})
}

func hdPad(n int) string { return strings.Repeat("  ", n) }

func (g *hdGen) load(rel string) *hdFile {
	if f, ok := g.files[rel]; ok {
		return f
	}
	p := filepath.Join(*repo, rel)
	src, err := os.ReadFile(p)
	if err != nil {
		panic(hdErr{err.Error()})
	}
	af, err := parser.ParseFile(g.fset, p, src, 0)
	if err != nil {
		panic(hdErr{err.Error()})
	}
	f := &hdFile{path: p, src: src, ast: af, consts: map[string]string{}}
	for _, d := range af.Decls {
		if gd, ok := d.(*ast.GenDecl); ok && gd.Tok == token.CONST {
			for _, sp := range gd.Specs {
				vs := sp.(*ast.ValueSpec)
				for i, n := range vs.Names {
					if i < len(vs.Values) {
						if bl, ok := vs.Values[i].(*ast.BasicLit); ok && bl.Kind == token.STRING && strings.HasPrefix(bl.Value, `"`) {
							f.consts[n.Name] = bl.Value
						}
					}
				}
			}
		}
	}
	g.files[rel] = f
	return f
}

func (g *hdGen) typeSpec(f *hdFile, name string) *ast.TypeSpec {
	for _, d := range f.ast.Decls {
		if gd, ok := d.(*ast.GenDecl); ok && gd.Tok == token.TYPE {
			for _, sp := range gd.Specs {
				if sp.(*ast.TypeSpec).Name.Name == name {
					return sp.(*ast.TypeSpec)
				}
			}
		}
	}
	panic(hdErr{fmt.Sprintf("%s: unsupported: type %s not found", f.path, name)})
}

func (g *hdGen) structFields(f *hdFile, name string) map[string]string {
	ts := g.typeSpec(f, name)
	st, ok := ts.Type.(*ast.StructType)
	if !ok {
		g.fail(ts, "type %s is not a struct", name)
	}
	got := map[string]string{}
	for _, fl := range st.Fields.List {
		for _, n := range fl.Names {
			got[n.Name] = types.ExprString(fl.Type)
		}
	}
	return got
}

func (g *hdGen) checkStructs() {
	for _, want := range hdStructs {
		f := g.load(want.file)
		got := g.structFields(f, want.name)
		for fn, ty := range want.fields {
			if got[fn] != ty {
				g.fail(g.typeSpec(f, want.name), "field %s.%s has type %q, the table expects %q", want.name, fn, got[fn], ty)
			}
		}
	}
}

// the handler struct of a package: type of its `service` field ↦ Lean prefix; every method of the prefix that the table
// lists is compared with the interface declaration
func (g *hdGen) serviceOf(pkg string) string {
	f := g.load(hdHandlerFile(pkg))
	fields := g.structFields(f, "handler")
	ent, ok := hdSvcTy[fields["service"]]
	if !ok {
		g.fail(g.typeSpec(f, "handler"), "handler.service has type %q (not in the service table)", fields["service"])
	}
	if fields["log"] != "*zerolog.Logger" {
		g.fail(g.typeSpec(f, "handler"), "handler.log has type %q", fields["log"])
	}
	ifile := f
	if ent[0] != "" {
		ifile = g.load(ent[0])
	}
	ts := g.typeSpec(ifile, ent[1])
	it, ok := ts.Type.(*ast.InterfaceType)
	if !ok {
		g.fail(ts, "%s is not an interface", ent[1])
	}
	got := map[string]string{}
	for _, m := range it.Methods.List {
		for _, n := range m.Names {
			got[n.Name] = types.ExprString(m.Type)
		}
	}
	for key, m := range hdSvc {
		if p := strings.SplitN(key, ".", 2); p[0] == ent[1] && got[p[1]] != m.sig {
			g.fail(ts, "%s.%s is declared %q, the service table expects %q", ent[1], p[1], got[p[1]], m.sig)
		}
	}
	return ent[1]
}

// ---------- scopes ----------

func (g *hdGen) lookup(name string) (hdVar, int) {
	for i := len(g.scopes) - 1; i >= 0; i-- {
		if v, ok := g.scopes[i][name]; ok {
			return v, i
		}
	}
	return hdVar{}, -1
}

func (g *hdGen) push() { g.scopes = append(g.scopes, map[string]hdVar{}) }

// `x := …` / `x = …` of a value of kind k; returns the Lean binder
func (g *hdGen) bind(id ast.Expr, k hdKind, define bool) string {
	n, ok := id.(*ast.Ident)
	if !ok {
		g.fail(id, "assignment target")
	}
	if n.Name == "_" {
		return "_"
	}
	if hdReserved[n.Name] || hdLogVars[n.Name] || hdSuffixRe.MatchString(n.Name) || strings.HasSuffix(n.Name, "_") {
		g.fail(id, "variable name %s", n.Name)
	}
	old, depth := g.lookup(n.Name)
	top := len(g.scopes) - 1
	switch {
	case depth == top || (!define && depth >= 0): // assignment to an existing variable
		if old.k != k {
			g.fail(id, "%s changes its type (%s, then %s)", n.Name, old.k, k)
		}
		if old.k == "world" {
			g.fail(id, "assignment to the receiver")
		}
		return old.lean
	case !define:
		g.fail(id, "assignment to undeclared %s", n.Name)
	}
	lean := hdName(n.Name)
	if depth >= 0 { // shadows a variable of an enclosing scope: a new Lean variable
		lean = fmt.Sprintf("%s_%d", n.Name, top)
	}
	g.scopes[top][n.Name] = hdVar{k, lean}
	return lean
}

// ---------- expressions ----------

func hdPath(e ast.Expr) string {
	switch x := e.(type) {
	case *ast.Ident:
		return x.Name
	case *ast.SelectorExpr:
		return hdPath(x.X) + "." + x.Sel.Name
	case *ast.ParenExpr:
		return hdPath(x.X)
	}
	return "?"
}

// v as a value of kind want
func (g *hdGen) as(v hdVal, want hdKind, n ast.Node) string {
	if v.multi != nil {
		g.fail(n, "call with several results used as one value")
	}
	switch {
	case v.k == want:
		return v.s
	case v.k == "nil" && hdNilOK[want]:
		return "none"
	case v.k == "nil" && hdLenOK[want]:
		return "[]"
	case v.k == "empty" && want == "str":
		return `""`
	}
	g.fail(n, "a value of kind %s where %s is expected", v.k, want)
	return ""
}

func (g *hdGen) want(e ast.Expr, k hdKind) hdVal {
	v := g.expr(e)
	return hdVal{s: g.as(v, k, e), k: k}
}

func (g *hdGen) strLit(e ast.Expr) string {
	bl, ok := e.(*ast.BasicLit)
	if !ok || bl.Kind != token.STRING || !strings.HasPrefix(bl.Value, `"`) {
		g.fail(e, "a string literal is required here")
	}
	return mrStr(bl.Value)
}

// the root identifier of a selector / method-call chain
func hdRoot(e ast.Expr) *ast.Ident {
	for {
		switch x := e.(type) {
		case *ast.Ident:
			return x
		case *ast.SelectorExpr:
			e = x.X
		case *ast.CallExpr:
			e = x.Fun
		case *ast.ParenExpr:
			e = x.X
		default:
			return nil
		}
	}
}

func (g *hdGen) isLogger(e ast.Expr) bool {
	if g.recv != "" && hdPath(e) == g.recv+".log" {
		return true
	}
	if id, ok := e.(*ast.Ident); ok {
		v, d := g.lookup(id.Name)
		return d >= 0 && v.k == "log"
	}
	return false
}

func (g *hdGen) expr(e ast.Expr) hdVal {
	switch x := e.(type) {
	case *ast.ParenExpr:
		return g.expr(x.X)
	case *ast.BasicLit:
		switch x.Kind {
		case token.INT:
			return hdVal{s: "(" + x.Value + " : Int)", k: "int"}
		case token.STRING:
			if x.Value == `""` {
				return hdVal{k: "empty"}
			}
			if strings.HasPrefix(x.Value, `"`) {
				return hdVal{s: mrStr(x.Value), k: "str"}
			}
		}
	case *ast.Ident:
		switch x.Name {
		case "nil":
			return hdVal{k: "nil"}
		case "true", "false":
			return hdVal{s: x.Name, k: "bool"}
		}
		if v, d := g.lookup(x.Name); d >= 0 {
			return hdVal{s: v.lean, k: v.k}
		}
		if c, ok := g.file.consts[x.Name]; ok {
			if c == `""` {
				return hdVal{k: "empty"}
			}
			return hdVal{s: mrStr(c), k: "str"}
		}
		g.fail(e, "identifier %s", x.Name)
	case *ast.SelectorExpr:
		p := hdPath(x)
		switch {
		case g.isLogger(x):
			return hdVal{k: "log"}
		case hdPath(x.X) == "bhserrors" && strings.HasPrefix(x.Sel.Name, "Err"):
			return hdVal{s: "(some (Err.bhs " + leanStr(x.Sel.Name) + "))", k: "err"}
		case hdPath(x.X) == "http":
			if st, ok := hdStatus[x.Sel.Name]; ok {
				return hdVal{s: fmt.Sprintf("(%d : Int)", st), k: "int"}
			}
		}
		// field path on a local struct
		if root := hdRoot(x); root != nil {
			if v, d := g.lookup(root.Name); d >= 0 {
				if f, ok := hdFields[v.k][strings.TrimPrefix(p, root.Name+".")]; ok {
					return hdVal{s: v.lean + "." + f.lean, k: f.k}
				}
				g.fail(e, "field %s of a value of kind %s (not in the field table)", strings.TrimPrefix(p, root.Name+"."), v.k)
			}
		}
		g.fail(e, "selector %s", p)
	case *ast.UnaryExpr:
		if x.Op == token.NOT {
			v := g.want(x.X, "bool")
			return hdVal{s: "(!" + v.s + ")", k: "bool"}
		}
		if x.Op == token.SUB {
			if bl, ok := x.X.(*ast.BasicLit); ok && bl.Kind == token.INT {
				return hdVal{s: "(-" + bl.Value + " : Int)", k: "int"}
			}
		}
		g.fail(e, "unary %s of this operand", x.Op)
	case *ast.BinaryExpr:
		return g.binary(x)
	case *ast.CallExpr:
		return g.call(x)
	}
	g.fail(e, "expression")
	return hdVal{}
}

func (g *hdGen) binary(x *ast.BinaryExpr) hdVal {
	switch x.Op {
	case token.LAND, token.LOR:
		l := g.want(x.X, "bool")
		n := len(g.pre)
		r := g.want(x.Y, "bool")
		if len(g.pre) != n || strings.Contains(r.s, "←") {
			g.fail(x.Y, "an operand with an effect / a possible fault on the right of %s", x.Op)
		}
		return hdVal{s: "(" + l.s + " " + x.Op.String() + " " + r.s + ")", k: "bool"}
	case token.EQL, token.NEQ:
		l, r := g.expr(x.X), g.expr(x.Y)
		if l.k == "nil" || l.k == "empty" {
			l, r = r, l
		}
		if l.multi != nil || r.multi != nil {
			g.fail(x, "comparison of a call with several results")
		}
		if r.k == "nil" {
			if !hdNilOK[l.k] {
				g.fail(x, "comparison of a value of kind %s with nil", l.k)
			}
			test := ".isNone"
			if x.Op == token.NEQ {
				test = ".isSome"
			}
			return hdVal{s: l.s + test, k: "bool"}
		}
		if r.k == "empty" {
			if l.k != "str" {
				g.fail(x, "comparison of a value of kind %s with \"\"", l.k)
			}
			r = hdVal{s: `""`, k: "str"}
		}
		if l.k != r.k || !map[hdKind]bool{"int": true, "str": true, "bool": true}[l.k] {
			g.fail(x, "comparison of kinds %s and %s", l.k, r.k)
		}
		op := "="
		if x.Op == token.NEQ {
			op = "≠"
		}
		return hdVal{s: "decide (" + l.s + " " + op + " " + r.s + ")", k: "bool"}
	case token.LSS, token.LEQ, token.GTR, token.GEQ:
		l, r := g.want(x.X, "int"), g.want(x.Y, "int")
		op := map[token.Token]string{token.LSS: "<", token.LEQ: "≤", token.GTR: ">", token.GEQ: "≥"}[x.Op]
		return hdVal{s: "decide (" + l.s + " " + op + " " + r.s + ")", k: "bool"}
	case token.ADD, token.SUB:
		l, r := g.want(x.X, "int"), g.want(x.Y, "int")
		return hdVal{s: "(" + l.s + " " + x.Op.String() + " " + r.s + ")", k: "int"}
	}
	g.fail(x, "operator %s", x.Op)
	return hdVal{}
}

// arguments of a call against a kind list (loggers dropped)
func (g *hdGen) args(x *ast.CallExpr, kinds []hdKind, what string) string {
	var out []string
	i := 0
	for _, a := range x.Args {
		v := g.expr(a)
		if v.k == "log" {
			continue
		}
		if i >= len(kinds) {
			g.fail(x, "too many arguments for %s", what)
		}
		s := g.as(v, kinds[i], a)
		if strings.Contains(s, "←") {
			g.fail(a, "an argument that can fault")
		}
		out = append(out, s)
		i++
	}
	if i != len(kinds) {
		g.fail(x, "argument count of %s", what)
	}
	return strings.Join(out, " ")
}

func (g *hdGen) ginRecv(sel *ast.SelectorExpr) (string, bool) {
	if id, ok := sel.X.(*ast.Ident); ok {
		if v, d := g.lookup(id.Name); d >= 0 && v.k == "gin" {
			return v.lean, true
		}
	}
	return "", false
}

func (g *hdGen) call(x *ast.CallExpr) hdVal {
	p := hdPath(x.Fun)
	nargs := len(x.Args)
	switch {
	case p == "len" && nargs == 1:
		v := g.expr(x.Args[0])
		if !hdLenOK[v.k] {
			g.fail(x, "len of a value of kind %s", v.k)
		}
		return hdVal{s: "(Int.ofNat " + v.s + ".length)", k: "int"}
	case p == "strconv.Atoi" && nargs == 1:
		v := g.want(x.Args[0], "str")
		return hdVal{s: "(strconvAtoi " + v.s + ")", multi: []hdKind{"int", "err"}}
	case p == "errors.As" && nargs == 2:
		e := g.want(x.Args[0], "err")
		amp, ok := x.Args[1].(*ast.UnaryExpr)
		if !ok || amp.Op != token.AND {
			g.fail(x.Args[1], "target of errors.As")
		}
		id, ok := amp.X.(*ast.Ident)
		v, d := hdVar{}, -1
		if ok {
			v, d = g.lookup(id.Name)
		}
		if d < 0 || v.k != "xerr" {
			g.fail(x.Args[1], "target of errors.As must be a local ExtendedError")
		}
		g.tmp++
		okN := fmt.Sprintf("ok_%d", g.tmp)
		g.pre = append(g.pre, fmt.Sprintf("let (%s, %s) := errorsAs %s %s", v.lean, okN, e.s, v.lean))
		return hdVal{s: okN, k: "bool"}
	}
	// a translated function of bhserrors with results
	if fnName, ok := g.bhsFunc(x.Fun); ok {
		callee := g.function("bhserrors", fnName, x)
		if callee.ginOnly {
			g.fail(x, "%s used as a value", callee.lean)
		}
		return hdVal{s: strings.TrimSpace(callee.lean + " " + g.args(x, callee.params, callee.lean)), multi: callee.results, m: true}
	}
	if id, ok := x.Fun.(*ast.Ident); ok { // response mappers of the package
		if mp, ok := hdMappers[g.fn.pkg+"."+id.Name]; ok && nargs == 1 {
			g.checkMapper(g.fn.pkg, id.Name, mp.ty, x)
			v := g.want(x.Args[0], mp.arg)
			return hdVal{s: "(← " + id.Name + " " + v.s + ")", k: "jval"}
		}
		g.fail(x, "call %s (not in the primitive table)", p)
	}
	sel, ok := x.Fun.(*ast.SelectorExpr)
	if !ok {
		g.fail(x, "call %s (not in the primitive table)", p)
	}
	if strings.HasPrefix(p, "bhserrors.Err") && sel.Sel.Name == "Wrap" && nargs == 1 {
		if inner, ok := sel.X.(*ast.SelectorExpr); ok && hdPath(inner.X) == "bhserrors" {
			v := g.want(x.Args[0], "err")
			return hdVal{s: "(bhsWrap " + leanStr(inner.Sel.Name) + " " + v.s + ")", k: "err"}
		}
	}
	if g.recv != "" && hdPath(sel.X) == g.recv+".service" { // service calls
		m, ok := hdSvc[g.svc+"."+sel.Sel.Name]
		if !ok {
			g.fail(x, "%s.%s is not in the service table", g.svc, sel.Sel.Name)
		}
		h, _ := g.lookup(g.recv)
		lean := g.svc + "_" + sel.Sel.Name
		return hdVal{s: strings.TrimSpace(lean + " " + h.lean + " " + g.args(x, m.args, lean)), multi: m.res, m: true, w: m.writes}
	}
	if c, ok := g.ginRecv(sel); ok { // reads of the gin context
		switch {
		case sel.Sel.Name == "Param" && nargs == 1:
			return hdVal{s: "(ginParam " + c + " " + g.strLit(x.Args[0]) + ")", k: "str"}
		case sel.Sel.Name == "Query" && nargs == 1:
			return hdVal{s: "(ginQuery " + c + " " + g.strLit(x.Args[0]) + ")", k: "str"}
		case sel.Sel.Name == "DefaultQuery" && nargs == 2:
			d := g.want(x.Args[1], "str")
			return hdVal{s: "(ginDefaultQuery " + c + " " + g.strLit(x.Args[0]) + " " + d.s + ")", k: "str"}
		case sel.Sel.Name == "GetQuery" && nargs == 1:
			return hdVal{s: "(ginGetQuery " + c + " " + g.strLit(x.Args[0]) + ")", multi: []hdKind{"str", "bool"}}
		case sel.Sel.Name == "Get" && nargs == 1:
			return hdVal{s: "(ginGet " + c + " " + g.strLit(x.Args[0]) + ")", multi: []hdKind{"any", "bool"}}
		}
		g.fail(x, "gin call %s (not in the primitive table)", sel.Sel.Name)
	}
	if id, ok := sel.X.(*ast.Ident); ok && nargs == 0 { // methods of an ExtendedError
		if v, d := g.lookup(id.Name); d >= 0 && v.k == "xerr" {
			if m, ok := hdXerr[sel.Sel.Name]; ok {
				return hdVal{s: fmt.Sprintf(m.lean, "(← deref "+v.lean+")"), k: m.k}
			}
		}
	}
	g.fail(x, "call %s (not in the primitive table)", p)
	return hdVal{}
}

// `bhserrors.F` from a handler package / `F` inside bhserrors, F a function of http_response.go
func (g *hdGen) bhsFunc(fun ast.Expr) (string, bool) {
	name := ""
	switch f := fun.(type) {
	case *ast.SelectorExpr:
		if hdPath(f.X) == "bhserrors" && g.fn.pkg != "bhserrors" {
			name = f.Sel.Name
		}
	case *ast.Ident:
		if g.fn.pkg == "bhserrors" {
			name = f.Name
		}
	}
	if name == "" {
		return "", false
	}
	for _, d := range g.load(hdHandlerFile("bhserrors")).ast.Decls {
		if fd, ok := d.(*ast.FuncDecl); ok && fd.Recv == nil && fd.Name.Name == name {
			return name, true
		}
	}
	return "", false
}

func (g *hdGen) checkMapper(pkg, name, ty string, at ast.Node) {
	f := g.load("transports/http/endpoints/api/" + pkg + "/model.go")
	for _, d := range f.ast.Decls {
		if fd, ok := d.(*ast.FuncDecl); ok && fd.Recv == nil && fd.Name.Name == name {
			ps := fd.Type.Params.List
			if len(ps) == 1 && len(ps[0].Names) == 1 && types.ExprString(ps[0].Type) == ty && fd.Type.Results != nil && len(fd.Type.Results.List) == 1 {
				return
			}
			g.fail(at, "%s.%s does not have the signature of the mapper table (%s)", pkg, name, ty)
		}
	}
	g.fail(at, "%s.%s not found in model.go", pkg, name)
}

// ---------- statements ----------

func (g *hdGen) flush(ind int) string {
	s := ""
	for _, p := range g.pre {
		s += hdPad(ind) + p + "\n"
	}
	g.pre = nil
	return s
}

func (g *hdGen) block(list []ast.Stmt, ind int, k hdCont) string {
	if len(list) == 0 {
		return k(ind)
	}
	return g.stmt(list[0], ind, func(ind2 int) string { return g.block(list[1:], ind2, k) })
}

// a nested block with its own scope; the continuation runs in the scopes outside of it
func (g *hdGen) scoped(list []ast.Stmt, ind int, k hdCont) string {
	outer := len(g.scopes)
	g.push()
	s := g.block(list, ind, func(ind2 int) string { return g.outside(outer, func() string { return k(ind2) }) })
	g.scopes = g.scopes[:outer]
	return s
}

// run f with the innermost `depth` scopes only (on a copy: what f declares does not leak into sibling branches)
func (g *hdGen) outside(depth int, f func() string) string {
	saved := g.scopes
	g.scopes = nil
	for _, m := range saved[:depth] {
		c := map[string]hdVar{}
		for k, v := range m {
			c[k] = v
		}
		g.scopes = append(g.scopes, c)
	}
	s := f()
	g.scopes = saved
	return s
}

// c.Bind…(&dest)
func (g *hdGen) bindCall(e ast.Expr) (string, bool) {
	c, ok := e.(*ast.CallExpr)
	if !ok {
		return "", false
	}
	sel, ok := c.Fun.(*ast.SelectorExpr)
	if !ok || hdBindFns[sel.Sel.Name] == "" {
		return "", false
	}
	cn, ok := g.ginRecv(sel)
	if !ok {
		return "", false
	}
	if len(c.Args) != 1 {
		g.fail(c, "bind call")
	}
	amp, ok := c.Args[0].(*ast.UnaryExpr)
	var dest hdVar
	d := -1
	if ok && amp.Op == token.AND {
		if id, ok := amp.X.(*ast.Ident); ok {
			dest, d = g.lookup(id.Name)
		}
	}
	if d < 0 || !hdBindable[dest.k] {
		g.fail(c.Args[0], "destination of a bind call must be &x, x a local of a bindable type")
	}
	return fmt.Sprintf("let (%s, %s, %%s) := %s %s %s", cn, dest.lean, hdBindFns[sel.Sel.Name], cn, dest.lean), true
}

func (g *hdGen) assign(x *ast.AssignStmt, ind int, k hdCont) string {
	define := x.Tok == token.DEFINE
	if x.Tok != token.ASSIGN && !define {
		g.fail(x, "assignment operator %s", x.Tok)
	}
	if len(x.Rhs) != 1 {
		g.fail(x, "assignment shape")
	}
	if len(x.Lhs) == 1 {
		if tmpl, ok := g.bindCall(x.Rhs[0]); ok {
			e := g.bind(x.Lhs[0], "err", define)
			return hdPad(ind) + fmt.Sprintf(tmpl, e) + "\n" + k(ind)
		}
		if _, isId := x.Lhs[0].(*ast.Ident); !isId {
			return g.fieldAssign(x, ind, k)
		}
	}
	v := g.expr(x.Rhs[0])
	pre := g.flush(ind)
	if len(x.Lhs) == 1 && v.multi == nil {
		if v.k == "nil" || v.k == "empty" || v.k == "log" || v.k == "gin" || v.k == "world" {
			g.fail(x, "assignment of this value")
		}
		n := g.bind(x.Lhs[0], v.k, define)
		arrow := ":="
		return pre + hdPad(ind) + "let " + n + " " + arrow + " " + v.s + "\n" + k(ind)
	}
	if len(v.multi) != len(x.Lhs) {
		g.fail(x, "assignment shape")
	}
	var names []string
	if v.w {
		h, _ := g.lookup(g.recv)
		names = append(names, h.lean)
	}
	for i, l := range x.Lhs {
		names = append(names, g.bind(l, v.multi[i], define))
	}
	arrow := ":="
	if v.m {
		arrow = "←"
	}
	lhs := "(" + strings.Join(names, ", ") + ")"
	if len(names) == 1 {
		lhs = names[0]
	}
	return pre + hdPad(ind) + "let " + lhs + " " + arrow + " " + v.s + "\n" + k(ind)
}

// x.F = e on a local struct of the field table
func (g *hdGen) fieldAssign(x *ast.AssignStmt, ind int, k hdCont) string {
	if x.Tok != token.ASSIGN {
		g.fail(x, "`:=` on a field")
	}
	root := hdRoot(x.Lhs[0])
	if root == nil {
		g.fail(x.Lhs[0], "assignment target")
	}
	v, d := g.lookup(root.Name)
	path := strings.TrimPrefix(hdPath(x.Lhs[0]), root.Name+".")
	f, ok := hdFields[v.k][path]
	if d < 0 || !ok {
		g.fail(x.Lhs[0], "field assignment %s (not in the field table)", hdPath(x.Lhs[0]))
	}
	e := g.want(x.Rhs[0], f.k)
	pre := g.flush(ind)
	return pre + hdPad(ind) + "let " + v.lean + " := { " + v.lean + " with " + f.lean + " := " + e.s + " }\n" + k(ind)
}

// ---- the SKIP LIST: logging ----

func (g *hdGen) logRooted(e ast.Expr) bool {
	c, ok := e.(*ast.CallExpr)
	if !ok {
		return false
	}
	sel, ok := c.Fun.(*ast.SelectorExpr)
	if !ok {
		return false
	}
	for _, a := range c.Args { // arguments: literals, identifiers, selectors only
		switch a.(type) {
		case *ast.BasicLit, *ast.Ident, *ast.SelectorExpr:
		default:
			return false
		}
	}
	if g.isLogger(sel.X) {
		return true
	}
	if id, ok := sel.X.(*ast.Ident); ok && hdLogVars[id.Name] {
		return true
	}
	return g.logRooted(sel.X)
}

func (g *hdGen) logOnly(s ast.Stmt) bool {
	switch x := s.(type) {
	case *ast.AssignStmt:
		for _, l := range x.Lhs {
			id, ok := l.(*ast.Ident)
			if !ok || !hdLogVars[id.Name] {
				return false
			}
		}
		for _, r := range x.Rhs {
			switch y := r.(type) {
			case *ast.Ident:
				if y.Name != "true" && y.Name != "false" {
					return false
				}
			case *ast.SelectorExpr:
				if hdPath(y.X) != "zerolog" {
					return false
				}
			case *ast.CallExpr:
				if !g.logRooted(y) {
					return false
				}
			default:
				return false
			}
		}
		return true
	case *ast.ExprStmt:
		return g.logRooted(x.X)
	case *ast.IfStmt:
		if x.Init != nil || x.Else != nil {
			return false
		}
		okCond := false
		if id, ok := x.Cond.(*ast.Ident); ok && hdLogVars[id.Name] {
			okCond = true
		}
		if b, ok := x.Cond.(*ast.BinaryExpr); ok && b.Op == token.NEQ && hdPath(b.Y) == "nil" && g.isLogger(b.X) {
			okCond = true
		}
		if !okCond {
			return false
		}
		for _, st := range x.Body.List {
			if !g.logOnly(st) {
				return false
			}
		}
		return true
	}
	return false
}

func (g *hdGen) stmt(s ast.Stmt, ind int, k hdCont) string {
	if g.logOnly(s) {
		return k(ind)
	}
	switch x := s.(type) {
	case *ast.ReturnStmt:
		return g.ret(x, ind)
	case *ast.AssignStmt:
		return g.assign(x, ind, k)
	case *ast.IfStmt:
		return g.ifStmt(x, ind, k)
	case *ast.DeclStmt:
		gd, ok := x.Decl.(*ast.GenDecl)
		if !ok || gd.Tok != token.VAR {
			g.fail(s, "declaration")
		}
		out := ""
		for _, sp := range gd.Specs {
			vs := sp.(*ast.ValueSpec)
			if vs.Type == nil || len(vs.Values) != 0 {
				g.fail(s, "var declaration with a value / without a type")
			}
			kd, ok := hdGoTy[types.ExprString(vs.Type)]
			if !ok || !hdVarOK[kd] {
				g.fail(s, "var declaration of type %s", types.ExprString(vs.Type))
			}
			for _, n := range vs.Names {
				out += hdPad(ind) + "let " + g.bind(n, kd, true) + " : " + hdLeanTy[kd] + " := " + hdZero[kd] + "\n"
			}
		}
		return out + k(ind)
	case *ast.ExprStmt:
		c, ok := x.X.(*ast.CallExpr)
		if !ok {
			g.fail(s, "expression statement")
		}
		if fnName, ok := g.bhsFunc(c.Fun); ok { // ErrorResponse / AbortWithErrorResponse
			callee := g.function("bhserrors", fnName, c)
			if !callee.ginOnly || len(c.Args) == 0 {
				g.fail(s, "result of %s dropped", callee.lean)
			}
			ctx := g.want(c.Args[0], "gin")
			rest := *c
			rest.Args = c.Args[1:]
			a := g.args(&rest, callee.params[1:], callee.lean)
			return g.flush(ind) + hdPad(ind) + "let " + ctx.s + " ← " + strings.TrimSpace(callee.lean+" "+ctx.s+" "+a) + "\n" + k(ind)
		}
		if sel, ok := c.Fun.(*ast.SelectorExpr); ok {
			if cn, ok := g.ginRecv(sel); ok && len(c.Args) == 2 && (sel.Sel.Name == "JSON" || sel.Sel.Name == "AbortWithStatusJSON") {
				st := g.want(c.Args[0], "int")
				v := g.expr(c.Args[1])
				wrap, ok := hdJV[v.k]
				if !ok || v.multi != nil {
					g.fail(c.Args[1], "a value of kind %s as a JSON document", v.k)
				}
				val := v.s
				if wrap != "" {
					val = "(" + wrap + " " + v.s + ")"
				}
				return g.flush(ind) + hdPad(ind) + "let " + cn + " := gin" + sel.Sel.Name + " " + cn + " " + st.s + " " + val + "\n" + k(ind)
			}
		}
		g.fail(s, "call %s (not in the effect or skip lists)", hdPath(c.Fun))
	}
	g.fail(s, "statement %T", s)
	return ""
}

func (g *hdGen) retTerm(n ast.Node) string {
	switch {
	case g.fn.handler:
		h, _ := g.lookup(g.recv)
		return "pure (" + h.lean + ", " + g.ginName() + ")"
	case g.fn.ginOnly:
		return "pure " + g.ginName()
	case len(g.named) > 0:
		var parts []string
		for _, nm := range g.named {
			parts = append(parts, g.scopes[0][nm].lean)
		}
		return "pure (" + strings.Join(parts, ", ") + ")"
	}
	g.fail(n, "missing return values")
	return ""
}

func (g *hdGen) ret(x *ast.ReturnStmt, ind int) string {
	if len(x.Results) == 0 {
		return hdPad(ind) + g.retTerm(x)
	}
	res := g.fn.results
	if len(x.Results) != len(res) {
		g.fail(x, "number of results")
	}
	var parts []string
	for i, r := range x.Results {
		parts = append(parts, g.want(r, res[i]).s)
	}
	pre := g.flush(ind)
	if len(parts) == 1 {
		return pre + hdPad(ind) + "pure " + parts[0]
	}
	return pre + hdPad(ind) + "pure (" + strings.Join(parts, ", ") + ")"
}

func (g *hdGen) ginName() string {
	for _, p := range g.fn.decl.Type.Params.List {
		if types.ExprString(p.Type) == "*gin.Context" && len(p.Names) == 1 {
			return g.scopes[0][p.Names[0].Name].lean
		}
	}
	g.fail(g.fn.decl, "function without a *gin.Context parameter")
	return ""
}

func (g *hdGen) ifStmt(x *ast.IfStmt, ind int, k hdCont) string {
	if x.Init != nil {
		as, ok := x.Init.(*ast.AssignStmt)
		if !ok {
			g.fail(x.Init, "if-init statement")
		}
		noInit := *x
		noInit.Init = nil
		outer := len(g.scopes)
		g.push()
		s := g.assign(as, ind, func(ind2 int) string {
			return g.ifStmt(&noInit, ind2, func(ind3 int) string { return g.outside(outer, func() string { return k(ind3) }) })
		})
		g.scopes = g.scopes[:outer]
		return s
	}
	c := g.want(x.Cond, "bool")
	pre := g.flush(ind)
	thenS := g.scoped(x.Body.List, ind+1, k)
	var elseS string
	switch e := x.Else.(type) {
	case nil:
		elseS = k(ind + 1)
	case *ast.BlockStmt:
		elseS = g.scoped(e.List, ind+1, k)
	case *ast.IfStmt:
		elseS = g.ifStmt(e, ind+1, k)
	default:
		g.fail(x.Else, "else")
	}
	return pre + hdPad(ind) + "if " + c.s + " then\n" + thenS + "\n" + hdPad(ind) + "else\n" + elseS
}

// ---------- functions ----------

func (g *hdGen) function(pkg, name string, at ast.Node) *hdFn {
	key := pkg + "." + name
	if fn, ok := g.fns[key]; ok {
		if fn.state == 1 {
			g.fail(at, "recursion through %s", key)
		}
		return fn
	}
	f := g.load(hdHandlerFile(pkg))
	var decl *ast.FuncDecl
	for _, d := range f.ast.Decls {
		fd, ok := d.(*ast.FuncDecl)
		if !ok || fd.Name.Name != name {
			continue
		}
		isMethod := fd.Recv != nil && len(fd.Recv.List) == 1 && types.ExprString(fd.Recv.List[0].Type) == "*handler"
		if (pkg == "bhserrors" && fd.Recv == nil) || (pkg != "bhserrors" && isMethod) {
			decl = fd
		}
	}
	if decl == nil || decl.Body == nil {
		panic(hdErr{fmt.Sprintf("%s: unsupported: function %s not found", f.path, key)})
	}
	fn := &hdFn{pkg: pkg, name: name, lean: pkg + "_" + name, decl: decl, state: 1, handler: pkg != "bhserrors"}
	g.fns[key] = fn
	// save and reset the per-function state (callees are translated on demand, in the middle of the caller)
	sFn, sFile, sRecv, sSvc, sScopes, sPre, sTmp, sNamed := g.fn, g.file, g.recv, g.svc, g.scopes, g.pre, g.tmp, g.named
	g.fn, g.file, g.recv, g.svc, g.scopes, g.pre, g.tmp, g.named = fn, f, "", "", []map[string]hdVar{{}}, nil, 0, nil
	sig := "def " + fn.lean
	if fn.handler {
		if len(decl.Recv.List[0].Names) != 1 {
			g.fail(decl, "unnamed receiver")
		}
		g.recv = decl.Recv.List[0].Names[0].Name
		g.svc = g.serviceOf(pkg)
		g.scopes[0][g.recv] = hdVar{"world", hdName(g.recv)}
		sig += " (" + hdName(g.recv) + " : World)"
	}
	hasGin := false
	for _, p := range decl.Type.Params.List {
		kd, ok := hdGoTy[types.ExprString(p.Type)]
		if !ok {
			g.fail(p, "parameter type %s", types.ExprString(p.Type))
		}
		if len(p.Names) == 0 {
			g.fail(p, "unnamed parameter")
		}
		for _, n := range p.Names {
			if hdReserved[n.Name] || hdSuffixRe.MatchString(n.Name) {
				g.fail(p, "parameter name %s", n.Name)
			}
			g.scopes[0][n.Name] = hdVar{kd, hdName(n.Name)}
			if kd == "log" {
				continue
			}
			hasGin = hasGin || kd == "gin"
			fn.params = append(fn.params, kd)
			sig += " (" + hdName(n.Name) + " : " + hdLeanTy[kd] + ")"
		}
	}
	init := ""
	if decl.Type.Results != nil {
		for _, r := range decl.Type.Results.List {
			kd, ok := hdGoTy[types.ExprString(r.Type)]
			if !ok || kd == "gin" || kd == "log" || hdZero[kd] == "" {
				g.fail(r, "result type %s", types.ExprString(r.Type))
			}
			if len(r.Names) == 0 {
				fn.results = append(fn.results, kd)
			}
			for _, n := range r.Names {
				fn.results = append(fn.results, kd)
				g.named = append(g.named, n.Name)
				init += hdPad(1) + "let " + g.bind(n, kd, true) + " : " + hdLeanTy[kd] + " := " + hdZero[kd] + "\n"
			}
		}
	}
	if len(g.named) != 0 && len(g.named) != len(fn.results) {
		g.fail(decl, "named and unnamed results mixed")
	}
	var resTy string
	switch {
	case fn.handler:
		if len(fn.results) != 0 || len(fn.params) != 1 || !hasGin {
			g.fail(decl, "a handler takes the context and returns nothing")
		}
		resTy = "World × Gin"
	case len(fn.results) == 0:
		if !hasGin || fn.params[0] != "gin" {
			g.fail(decl, "a function without results must take the context first")
		}
		fn.ginOnly = true
		resTy = "Gin"
	default:
		if hasGin {
			g.fail(decl, "a function with results that takes the context")
		}
		var tys []string
		for _, r := range fn.results {
			tys = append(tys, hdLeanTy[r])
		}
		resTy = strings.Join(tys, " × ")
	}
	sig += " : Except Fault (" + resTy + ") := do\n"
	body := g.block(decl.Body.List, 1, func(ind int) string { return hdPad(ind) + g.retTerm(decl) })
	goSig := strings.Join(strings.Fields(string(f.src[g.fset.Position(decl.Pos()).Offset:g.fset.Position(decl.Body.Lbrace).Offset])), " ")
	fn.text = "/-- " + hdHandlerFile(pkg) + ": " + goSig + " -/\n" + sig + init + body + "\n"
	fn.state = 2
	g.order = append(g.order, fn)
	g.fn, g.file, g.recv, g.svc, g.scopes, g.pre, g.tmp, g.named = sFn, sFile, sRecv, sSvc, sScopes, sPre, sTmp, sNamed
	return fn
}

// the handlers RegisterAPIEndpoints registers: every `<recv>.<m>` among the arguments of a call, directly or as the
// first argument of auth.RequireAdmin
func (g *hdGen) registered(pkg string) (names []string, admin map[string]bool) {
	f := g.load(hdHandlerFile(pkg))
	admin = map[string]bool{}
	var reg *ast.FuncDecl
	for _, d := range f.ast.Decls {
		if fd, ok := d.(*ast.FuncDecl); ok && fd.Name.Name == "RegisterAPIEndpoints" && fd.Recv != nil && len(fd.Recv.List) == 1 && len(fd.Recv.List[0].Names) == 1 {
			reg = fd
		}
	}
	if reg == nil {
		panic(hdErr{fmt.Sprintf("%s: unsupported: RegisterAPIEndpoints not found", f.path)})
	}
	recv := reg.Recv.List[0].Names[0].Name
	seen := map[string]bool{}
	ast.Inspect(reg.Body, func(n ast.Node) bool {
		c, ok := n.(*ast.CallExpr)
		if !ok {
			return true
		}
		if hdPath(c.Fun) == "auth.RequireAdmin" { // seen as an argument of the registration call
			return false
		}
		for _, a := range c.Args {
			wrapped := false
			if w, ok := a.(*ast.CallExpr); ok && len(w.Args) >= 1 {
				if hdPath(w.Fun) != "auth.RequireAdmin" {
					continue
				}
				a, wrapped = w.Args[0], true
			}
			if sel, ok := a.(*ast.SelectorExpr); ok && hdPath(sel.X) == recv {
				if !seen[sel.Sel.Name] {
					seen[sel.Sel.Name] = true
					names = append(names, sel.Sel.Name)
				}
				if wrapped {
					admin[sel.Sel.Name] = true
				} else if admin[sel.Sel.Name] {
					g.fail(a, "%s registered with and without RequireAdmin", sel.Sel.Name)
				}
			}
		}
		return true
	})
	if len(names) == 0 {
		g.fail(reg, "no handler registered")
	}
	return names, admin
}

func genHandlers() (res string, err error) {
	defer func() {
		if r := recover(); r != nil {
			if e, ok := r.(hdErr); ok {
				res, err = "", fmt.Errorf("%s", e.msg)
				return
			}
			if e, ok := r.(mrErr); ok {
				res, err = "", fmt.Errorf("%s", e.msg)
				return
			}
			panic(r)
		}
	}()
	g := &hdGen{fset: token.NewFileSet(), files: map[string]*hdFile{}, fns: map[string]*hdFn{}}
	g.checkStructs()
	var regs, admins []string
	for _, pkg := range hdPackages {
		names, admin := g.registered(pkg)
		for _, n := range names {
			if _, skip := hdCoveredElsewhere[pkg+"."+n]; skip {
				continue
			}
			g.function(pkg, n, nil)
			regs = append(regs, pkg+"_"+n)
			if admin[n] {
				admins = append(admins, pkg+"_"+n)
			}
		}
	}
	g.function("bhserrors", "AbortWithErrorResponse", nil)
	var b strings.Builder
	b.WriteString(genHeader)
	b.WriteString("-- the API handlers of C16 and bhserrors.ErrorResponse / mapAndLog translated by harness/cmd/extract/gen_handlers.go\n")
	b.WriteString("-- (subset, primitive table, effect and skip lists: see its header)\n")
	b.WriteString("import BHS.Model.HandlersPrim\n\nset_option linter.unusedVariables false\n\nnamespace BHS.Gen.Handlers\n")
	b.WriteString("open BHS BHS.Chain BHS.Http BHS.HandlersPrim\nopen BHS.MerkleRootsPrim (Fault Err bhsWrap deref strconvAtoi)\n\n")
	for _, fn := range g.order {
		b.WriteString(fn.text + "\n")
	}
	b.WriteString("/-- the handlers RegisterAPIEndpoints registers (translated above), in source order -/\n")
	b.WriteString("def registered : List String := " + leanStrList(regs) + "\n\n")
	b.WriteString("/-- … those registered behind auth.RequireAdmin -/\n")
	b.WriteString("def adminOnly : List String := " + leanStrList(admins) + "\n\n")
	b.WriteString("end BHS.Gen.Handlers\n")
	return b.String(), nil
}
