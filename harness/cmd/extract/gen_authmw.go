package main

// Gen.AuthMw: the authentication decision code TRANSLATED from the Go source (go/parser + go/ast, no go/types):
//
//	domains/tokens.go                                  CreateAdminToken
//	service/token_service.go                           (*TokenService).GetToken
//	transports/http/auth/auth_token_middleware.go      (*TokenMiddleware).parseAuthHeader, getToken, ApplyToAPI
//	transports/http/auth/require_auth.go               validateToken, RequireAdmin
//
// Target: Lean terms over the primitives of lean/BHS/Model/AuthMwPrim.lean (state-passing "request monad":
// `*gin.Context` ↦ `Ctx σ`, `gin.HandlerFunc` ↦ `Ctx σ → Ctx σ`, `(T, error)` / `error` ↦ `Res T` / `Res Unit` with the
// outcomes ok / err / panic).  The refinement theorems are in lean/BHS/Props/AuthMw.lean.
//
// FUNCTION KINDS (from the signature)
//   void   no results, one parameter of type *gin.Context        ↦ … → Ctx σ   (returns the context it leaves behind)
//   res    results (T, error) or (error)                          ↦ … → Res T   / Res Unit
//   pure   one non-error result (gin.HandlerFunc, *Token)         ↦ … → T
//   A method's receiver becomes the first parameter (structure TokenMiddleware / TokenService of the Prim file).
//
// STATEMENT SUBSET (a statement list is translated with its continuation; no loops, no goto, no defer)
//   return …                                 void: the context; res: `v, nil` ↦ Res.ok v, `zero, e` ↦ Res.err e (zero must be
//                                            the literal nil or ""), `nil` ↦ Res.ok (), `e` ↦ Res.err e; pure: the expression
//   if cond { A } [else { B } | else if …]   ↦ if cond then ⟦A; rest⟧ else ⟦B; rest⟧   (rest is not repeated after a branch
//                                            that ends in return; a branch that falls through must not define a name the
//                                            rest uses)
//   x := e                                   ↦ let x := e; …
//   x, err := F(…); if err != nil { A }      ↦ match F … with | .ok x => ⟦rest⟧ | .err err => ⟦A⟧ | .panic m => propagate
//                                            (F a res function / receiver call; A must end in return and not use x)
//   if err := F(…); err ==|!= nil {A} else {B}  ↦ the same match (F returns only an error)
//   x, ok := P; if !ok { A }                 ↦ match P with | some x => ⟦rest⟧ | none => ⟦A⟧   (P a comma-ok primitive; A must
//                                            end in return and not use x)
//   void functions only:  c.Set(k, v) / bhserrors.AbortWithErrorResponse(c, e, log) / handler(c)   ↦ let c := …; …
//   Propagating a panic: res ↦ Res.panic m, void ↦ Ctx.panic c m, pure ↦ unsupported.
//
// EXPRESSION SUBSET
//   string and int literals, true/false, locals and parameters, string constants of the same file,
//   receiver fields (table below), t.IsAdmin / t.Token, bhserrors.ErrX, !a, a&&b, a||b (short-circuit), == != < <= > >=,
//   len(x), x[<int literal>] (PARTIAL: Res, panics out of range; partiality is threaded through the operators and is
//   only accepted inside res functions), &Token{K: v, …}, func(c *gin.Context) { … } (as the result of a pure function).
//
// PRIMITIVE TABLE (Go ↦ Lean, all in BHS.Model.AuthMwPrim unless qualified)
//   strings.Split(s, " ")                        stringsSplitSp s        (separator must be the literal " ")
//   c.GetHeader(k)                               Ctx.getHeader c k
//   c.Get(k)                (comma-ok)           Ctx.get c k : Option Val
//   v.(*domains.Token)      (comma-ok)           Val.asTok v : Option Tok
//   c.Set(k, v)                                  Ctx.set c k v           (v : Tok is coerced to Val)
//   bhserrors.AbortWithErrorResponse(c, e, log)  Ctx.abort c e           (the logger argument is not translated)
//   bhserrors.ErrX                               GoErr.bhs BHS.Gen.errX  (regenerated definition of Gen.Errors)
//   h.cfg.UseAuth / h.tokens.GetToken(t)         h.cfg_UseAuth / h.tokens_GetToken t
//   s.adminToken / s.repo.Tokens.GetTokenByValue(t)   s.adminToken / s.repo_Tokens_GetTokenByValue t
//   domains.CreateAdminToken(v), h.parseAuthHeader(c), h.getToken(t), validateToken(c)   the translated definitions
//
// SKIPPED (explicit allow-list): the logger argument of AbortWithErrorResponse; the composite-literal field CreatedAt.
// Anything else is `file:line: unsupported: …` and a failed extraction (the obligations over Gen.AuthMw are then broken).

import (
	"fmt"
	"go/ast"
	"go/parser"
	"go/token"
	"path/filepath"
	"strconv"
	"strings"
	"unicode"
)

func init() { register("AuthMw", genAuthMw) }

type amwKind int

const (
	amwVoid amwKind = iota
	amwRes
	amwPure
)

type amwFunc struct {
	lean  string
	recv  bool
	kind  amwKind
	nargs int
}

// Go type text ↦ Lean type
var amwTypes = map[string]string{
	"string": "String", "bool": "Bool", "*gin.Context": "Ctx σ", "gin.HandlerFunc": "(Ctx σ → Ctx σ)",
	"*domains.Token": "Tok", "*Token": "Tok", "*TokenMiddleware": "TokenMiddleware", "*TokenService": "TokenService",
}

// receiver type ↦ selector path after the receiver ↦ Lean field; calls return (T, error)
var amwRecvFields = map[string]map[string]string{
	"TokenMiddleware": {"cfg.UseAuth": "cfg_UseAuth"},
	"TokenService":    {"adminToken": "adminToken"},
}
var amwRecvCalls = map[string]map[string]string{
	"TokenMiddleware": {"tokens.GetToken": "tokens_GetToken"},
	"TokenService":    {"repo.Tokens.GetTokenByValue": "repo_Tokens_GetTokenByValue"},
}

// fields of *domains.Token; skipped ones are the allow-list
var amwTokFields = map[string]string{"Token": "token", "IsAdmin": "isAdmin"}
var amwSkippedFields = map[string]bool{"CreatedAt": true}

var amwLeanKeywords = map[string]bool{"at": true, "from": true, "end": true, "open": true, "show": true, "have": true, "by": true,
	"do": true, "then": true, "else": true, "if": true, "let": true, "in": true, "fun": true, "with": true, "match": true, "where": true,
	"instance": true, "variable": true, "def": true, "theorem": true, "namespace": true, "section": true, "import": true, "mut": true,
	"Type": true, "Prop": true, "Sort": true, "using": true, "deriving": true, "structure": true, "inductive": true, "class": true}

type amwScope struct {
	vars map[string]string // Go name ↦ sort: "val", "err", "ctx", "handler"
	ctx  string            // the *gin.Context variable ("" when there is none)
}

func (s amwScope) with(name, sort string) amwScope {
	m := map[string]string{}
	for k, v := range s.vars {
		m[k] = v
	}
	if name != "_" {
		m[name] = sort
	}
	return amwScope{m, s.ctx}
}

type amwTr struct {
	fset     *token.FileSet
	err      error
	consts   map[string]string
	funcs    map[string]amwFunc // "<RecvType>.<name>" ↦ translated function
	recv     string
	recvType string
	kind     amwKind
	fresh    int
}

func (t *amwTr) fail(n ast.Node, msg string) string {
	if t.err == nil {
		t.err = fmt.Errorf("%s: unsupported: %s", t.fset.Position(n.Pos()), msg)
	}
	return "sorryUnsupported"
}

func (t *amwTr) gensym(p string) string { t.fresh++; return fmt.Sprintf("%s__%d", p, t.fresh) }

func amwName(s string) string {
	if amwLeanKeywords[s] {
		return "«" + s + "»"
	}
	return s
}

func amwLower(s string) string {
	r := []rune(s)
	r[0] = unicode.ToLower(r[0])
	return string(r)
}

func amwStr(s string) (string, bool) {
	var b strings.Builder
	b.WriteByte('"')
	for _, r := range s {
		switch {
		case r == '"' || r == '\\':
			b.WriteByte('\\')
			b.WriteRune(r)
		case r == '\n':
			b.WriteString("\\n")
		case r == '\t':
			b.WriteString("\\t")
		case r < 0x20 || r == 0x7f || r == unicode.ReplacementChar:
			return "", false
		default:
			b.WriteRune(r)
		}
	}
	b.WriteByte('"')
	return b.String(), true
}

// amwPath: `a.b.c` ↦ ["a","b","c"]; nil when the expression is not a pure selector path
func amwPath(e ast.Expr) []string {
	switch x := e.(type) {
	case *ast.Ident:
		return []string{x.Name}
	case *ast.SelectorExpr:
		if p := amwPath(x.X); p != nil {
			return append(p, x.Sel.Name)
		}
	}
	return nil
}

func amwTypeText(e ast.Expr) string {
	switch x := e.(type) {
	case *ast.StarExpr:
		return "*" + amwTypeText(x.X)
	case *ast.Ident, *ast.SelectorExpr:
		return strings.Join(amwPath(e), ".")
	}
	return "?"
}

func amwUses(n ast.Node, name string) bool {
	found := false
	ast.Inspect(n, func(m ast.Node) bool {
		if id, ok := m.(*ast.Ident); ok && id.Name == name {
			found = true
		}
		return !found
	})
	return found
}

func amwIsNil(e ast.Expr) bool { id, ok := e.(*ast.Ident); return ok && id.Name == "nil" }

func amwTerminates(list []ast.Stmt) bool {
	if len(list) == 0 {
		return false
	}
	switch x := list[len(list)-1].(type) {
	case *ast.ReturnStmt:
		return true
	case *ast.IfStmt:
		switch e := x.Else.(type) {
		case *ast.BlockStmt:
			return amwTerminates(x.Body.List) && amwTerminates(e.List)
		case *ast.IfStmt:
			return amwTerminates(x.Body.List) && amwTerminates([]ast.Stmt{e})
		}
	}
	return false
}

func amwLift(s string, partial bool) string {
	if partial {
		return s
	}
	return "(Res.ok " + s + ")"
}

// ---------------------------------------------------------------- expressions

var amwCmp = map[token.Token]string{token.EQL: "==", token.NEQ: "!=", token.LSS: "<", token.LEQ: "≤", token.GTR: ">", token.GEQ: "≥"}

// expr: Lean term and whether it is PARTIAL (then of type Res T instead of T)
func (t *amwTr) expr(e ast.Expr, sc amwScope) (string, bool) {
	switch x := e.(type) {
	case *ast.ParenExpr:
		return t.expr(x.X, sc)
	case *ast.BasicLit:
		switch x.Kind {
		case token.INT:
			if _, err := strconv.ParseUint(x.Value, 10, 32); err == nil {
				return x.Value, false
			}
		case token.STRING:
			if v, err := strconv.Unquote(x.Value); err == nil {
				if s, ok := amwStr(v); ok {
					return s, false
				}
			}
		}
		return t.fail(e, "literal "+x.Value), false
	case *ast.Ident:
		if x.Name == "true" || x.Name == "false" {
			return x.Name, false
		}
		if sort, ok := sc.vars[x.Name]; ok && sort != "err" {
			return amwName(x.Name), false
		}
		if v, ok := t.consts[x.Name]; ok {
			if s, ok := amwStr(v); ok {
				return s, false
			}
		}
		return t.fail(e, "identifier "+x.Name), false
	case *ast.SelectorExpr:
		p := amwPath(x)
		if p == nil {
			return t.fail(e, "selector"), false
		}
		if t.recv != "" && p[0] == t.recv {
			if f, ok := amwRecvFields[t.recvType][strings.Join(p[1:], ".")]; ok {
				return amwName(t.recv) + "." + f, false
			}
			return t.fail(e, "receiver field "+strings.Join(p, ".")), false
		}
		if len(p) == 2 && sc.vars[p[0]] == "val" {
			if f, ok := amwTokFields[p[1]]; ok {
				return amwName(p[0]) + "." + f, false
			}
		}
		return t.fail(e, "selector "+strings.Join(p, ".")), false
	case *ast.UnaryExpr:
		switch x.Op {
		case token.NOT:
			a, ap := t.expr(x.X, sc)
			if !ap {
				return "(!" + a + ")", false
			}
			v := t.gensym("v")
			return "(Res.bind " + a + " (fun " + v + " => Res.ok (!" + v + ")))", true
		case token.AND:
			if cl, ok := x.X.(*ast.CompositeLit); ok {
				return t.tokenLit(cl, sc), false
			}
		}
		return t.fail(e, "unary "+x.Op.String()), false
	case *ast.BinaryExpr:
		a, ap := t.expr(x.X, sc)
		b, bp := t.expr(x.Y, sc)
		switch x.Op {
		case token.LAND, token.LOR:
			op, short := "&&", "false"
			if x.Op == token.LOR {
				op, short = "||", "true"
			}
			if !ap && !bp {
				return "(" + a + " " + op + " " + b + ")", false
			}
			// short-circuit: the right operand is evaluated only when the left one does not decide
			v := t.gensym("b")
			thenE, elseE := amwLift(b, bp), "(Res.ok "+short+")"
			if x.Op == token.LOR {
				thenE, elseE = elseE, thenE
			}
			if !ap {
				return "(if " + a + " then " + thenE + " else " + elseE + ")", true
			}
			return "(Res.bind " + a + " (fun " + v + " => if " + v + " then " + thenE + " else " + elseE + "))", true
		}
		if op, ok := amwCmp[x.Op]; ok {
			if amwIsNil(x.X) || amwIsNil(x.Y) {
				return t.fail(e, "comparison with nil outside the err / comma-ok patterns"), false
			}
			if !ap && !bp {
				return "(" + a + " " + op + " " + b + ")", false
			}
			// left to right evaluation
			out, l, r := "", a, b
			if bp {
				r = t.gensym("v")
			}
			if ap {
				l = t.gensym("v")
			}
			out = "(Res.ok (" + l + " " + op + " " + r + "))"
			if bp {
				out = "(Res.bind " + b + " (fun " + r + " => " + out + "))"
			}
			if ap {
				out = "(Res.bind " + a + " (fun " + l + " => " + out + "))"
			}
			return out, true
		}
		return t.fail(e, "operator "+x.Op.String()), false
	case *ast.IndexExpr:
		a, ap := t.expr(x.X, sc)
		lit, ok := x.Index.(*ast.BasicLit)
		if ap || !ok || lit.Kind != token.INT {
			return t.fail(e, "index expression (only xs[<int literal>])"), false
		}
		return "(index " + a + " " + lit.Value + ")", true
	case *ast.CallExpr:
		return t.call(x, sc)
	case *ast.FuncLit:
		return t.funcLit(x, sc), false
	}
	return t.fail(e, fmt.Sprintf("expression %T", e)), false
}

func (t *amwTr) pureArgs(c *ast.CallExpr, sc amwScope) []string {
	var out []string
	for _, a := range c.Args {
		s, p := t.expr(a, sc)
		if p {
			t.fail(a, "partial expression as an argument")
		}
		out = append(out, s)
	}
	return out
}

// call: calls that are ordinary (pure) expressions
func (t *amwTr) call(c *ast.CallExpr, sc amwScope) (string, bool) {
	p := amwPath(c.Fun)
	if p == nil {
		return t.fail(c, "call target"), false
	}
	name := strings.Join(p, ".")
	known := name == "len" || name == "strings.Split" || (len(p) == 2 && (p[0] == "domains" || (sc.ctx != "" && p[0] == sc.ctx && p[1] == "GetHeader")))
	if !known {
		return t.fail(c, "call of "+name), false
	}
	args := t.pureArgs(c, sc)
	switch {
	case name == "len" && len(args) == 1:
		return "(" + args[0] + ").length", false
	case name == "strings.Split" && len(args) == 2:
		if args[1] != `" "` {
			return t.fail(c, "strings.Split with a separator other than the literal \" \""), false
		}
		return "(stringsSplitSp " + args[0] + ")", false
	case len(p) == 2 && sc.ctx != "" && p[0] == sc.ctx && p[1] == "GetHeader" && len(args) == 1:
		return "(Ctx.getHeader " + amwName(sc.ctx) + " " + args[0] + ")", false
	case len(p) == 2 && p[0] == "domains":
		if f, ok := t.funcs["."+p[1]]; ok && f.kind == amwPure && f.nargs == len(args) {
			return "(" + f.lean + " " + strings.Join(args, " ") + ")", false
		}
	}
	return t.fail(c, "call of "+name), false
}

// &Token{K: v, …} / &domains.Token{…}
func (t *amwTr) tokenLit(cl *ast.CompositeLit, sc amwScope) string {
	if ty := amwTypeText(cl.Type); ty != "Token" && ty != "domains.Token" {
		return t.fail(cl, "composite literal of type "+ty)
	}
	var fs []string
	for _, el := range cl.Elts {
		kv, ok := el.(*ast.KeyValueExpr)
		if !ok {
			return t.fail(el, "positional composite literal")
		}
		k := strings.Join(amwPath(kv.Key), ".")
		if amwSkippedFields[k] {
			continue
		}
		f, ok := amwTokFields[k]
		if !ok {
			return t.fail(kv, "field "+k)
		}
		v, p := t.expr(kv.Value, sc)
		if p {
			return t.fail(kv.Value, "partial expression in a composite literal")
		}
		fs = append(fs, f+" := "+v)
	}
	return "({ " + strings.Join(fs, ", ") + " } : Tok)"
}

// func(c *gin.Context) { … } ↦ fun c => ⟦body as a void function⟧
func (t *amwTr) funcLit(fl *ast.FuncLit, sc amwScope) string {
	ps := fl.Type.Params.List
	if fl.Type.Results != nil || len(ps) != 1 || len(ps[0].Names) != 1 || amwTypeText(ps[0].Type) != "*gin.Context" {
		return t.fail(fl, "function literal other than func(c *gin.Context)")
	}
	c := ps[0].Names[0].Name
	inner := sc.with(c, "ctx")
	inner.ctx = c
	saved := t.kind
	t.kind = amwVoid
	body := t.block(fl.Body.List, inner, 2)
	t.kind = saved
	return "(fun (" + amwName(c) + " : Ctx σ) =>\n" + body + ")"
}

// resCall: a call whose result is Res (a translated res function or a receiver call of the table)
func (t *amwTr) resCall(e ast.Expr, sc amwScope) (string, bool) {
	c, ok := e.(*ast.CallExpr)
	if !ok {
		return "", false
	}
	p := amwPath(c.Fun)
	if p == nil {
		return "", false
	}
	if t.recv != "" && p[0] == t.recv && len(p) >= 2 {
		if f, ok := amwRecvCalls[t.recvType][strings.Join(p[1:], ".")]; ok {
			return "(" + amwName(t.recv) + "." + f + " " + strings.Join(t.pureArgs(c, sc), " ") + ")", true
		}
		if f, ok := t.funcs[t.recvType+"."+p[1]]; ok && len(p) == 2 && f.kind == amwRes && f.nargs == len(c.Args) {
			return "(" + f.lean + " " + amwName(t.recv) + " " + strings.Join(t.pureArgs(c, sc), " ") + ")", true
		}
		return "", false
	}
	if len(p) == 1 {
		if f, ok := t.funcs["."+p[0]]; ok && f.kind == amwRes && f.nargs == len(c.Args) {
			if _, shadowed := sc.vars[p[0]]; !shadowed {
				return "(" + f.lean + " " + strings.Join(t.pureArgs(c, sc), " ") + ")", true
			}
		}
	}
	return "", false
}

// okPrim: the comma-ok primitives
func (t *amwTr) okPrim(e ast.Expr, sc amwScope) (string, bool) {
	switch x := e.(type) {
	case *ast.TypeAssertExpr:
		if x.Type != nil && amwTypeText(x.Type) == "*domains.Token" {
			v, p := t.expr(x.X, sc)
			if !p {
				return "(Val.asTok " + v + ")", true
			}
		}
	case *ast.CallExpr:
		p := amwPath(x.Fun)
		if len(p) == 2 && sc.ctx != "" && p[0] == sc.ctx && p[1] == "Get" && len(x.Args) == 1 {
			return "(Ctx.get " + amwName(sc.ctx) + " " + t.pureArgs(x, sc)[0] + ")", true
		}
	}
	return "", false
}

func (t *amwTr) errExpr(e ast.Expr, sc amwScope) string {
	p := amwPath(e)
	switch {
	case len(p) == 1 && sc.vars[p[0]] == "err":
		return amwName(p[0])
	case len(p) == 2 && p[0] == "bhserrors" && strings.HasPrefix(p[1], "Err"):
		return "(GoErr.bhs BHS.Gen." + amwLower(p[1]) + ")"
	}
	return t.fail(e, "error value")
}

// ---------------------------------------------------------------- statements

func amwPad(n int) string { return strings.Repeat("  ", n) }

func (t *amwTr) panicArm(n ast.Node, sc amwScope, m string) string {
	switch t.kind {
	case amwRes:
		return "(Res.panic " + m + ")"
	case amwVoid:
		return "(Ctx.panic " + amwName(sc.ctx) + " " + m + ")"
	}
	return t.fail(n, "a call that may panic inside a function with a plain result")
}

// errNilTest: `v == nil` / `v != nil` on the variable v; returns the operator
func amwErrNilTest(e ast.Expr, v string) (token.Token, bool) {
	b, ok := e.(*ast.BinaryExpr)
	if !ok || (b.Op != token.EQL && b.Op != token.NEQ) {
		return 0, false
	}
	id, ok := b.X.(*ast.Ident)
	if !ok || id.Name != v || !amwIsNil(b.Y) {
		return 0, false
	}
	return b.Op, true
}

// join: statements of a branch followed by the rest of the enclosing list
func (t *amwTr) join(branch, rest []ast.Stmt) []ast.Stmt {
	if amwTerminates(branch) || len(rest) == 0 {
		return branch
	}
	for _, s := range branch {
		if as, ok := s.(*ast.AssignStmt); ok && as.Tok == token.DEFINE {
			for _, l := range as.Lhs {
				if id, ok := l.(*ast.Ident); ok && id.Name != "_" {
					for _, r := range rest {
						if amwUses(r, id.Name) {
							t.fail(s, "a branch that falls through defines "+id.Name+", which the following statements use")
						}
					}
				}
			}
		}
	}
	return append(append([]ast.Stmt{}, branch...), rest...)
}

func (t *amwTr) elseList(x *ast.IfStmt) []ast.Stmt {
	switch e := x.Else.(type) {
	case *ast.BlockStmt:
		return e.List
	case *ast.IfStmt:
		return []ast.Stmt{e}
	}
	return nil
}

// block: the Lean term of a statement list (with everything that follows it in the function)
func (t *amwTr) block(list []ast.Stmt, sc amwScope, ind int) string {
	pad := amwPad(ind)
	if len(list) == 0 {
		if t.kind == amwVoid {
			return pad + amwName(sc.ctx)
		}
		t.err = amwFirstErr(t.err, fmt.Errorf("unsupported: control reaches the end of a function with results"))
		return pad + "sorryUnsupported"
	}
	s, rest := list[0], list[1:]
	switch x := s.(type) {
	case *ast.ReturnStmt:
		if len(rest) != 0 {
			return pad + t.fail(rest[0], "statement after return")
		}
		return pad + t.ret(x, sc)

	case *ast.IfStmt:
		if x.Init != nil {
			// if err := F(…); err == nil { A } else { B }
			as, ok := x.Init.(*ast.AssignStmt)
			if !ok || as.Tok != token.DEFINE || len(as.Lhs) != 1 || len(as.Rhs) != 1 {
				return pad + t.fail(x, "if with this kind of init statement")
			}
			evId, ok0 := as.Lhs[0].(*ast.Ident)
			if !ok0 {
				return pad + t.fail(x, "if-init target")
			}
			ev := evId.Name
			call, ok := t.resCall(as.Rhs[0], sc)
			op, ok2 := amwErrNilTest(x.Cond, ev)
			if !ok || !ok2 {
				return pad + t.fail(x, "if-init that is not `err := <res call>; err ==|!= nil`")
			}
			okB, errB := x.Body.List, t.elseList(x)
			if op == token.NEQ {
				okB, errB = errB, okB
			}
			return t.matchRes(x, call, "_", ev, t.join(okB, rest), t.join(errB, rest), sc, sc.with(ev, "err"), ind)
		}
		cond, cp := t.expr(x.Cond, sc)
		thenT := t.block(t.join(x.Body.List, rest), sc, ind+1)
		elseT := t.block(t.join(t.elseList(x), rest), sc, ind+1)
		if !cp {
			return pad + "(if " + cond + " then\n" + thenT + "\n" + pad + "else\n" + elseT + ")"
		}
		if t.kind != amwRes {
			return pad + t.fail(x.Cond, "a condition that may panic outside a function with an error result")
		}
		b := t.gensym("b")
		return pad + "(Res.bind " + cond + " (fun " + b + " =>\n" + pad + "if " + b + " then\n" + thenT + "\n" + pad + "else\n" + elseT + "))"

	case *ast.AssignStmt:
		if x.Tok != token.DEFINE || len(x.Rhs) != 1 {
			return pad + t.fail(x, "assignment (only `:=` with one right-hand side)")
		}
		var names []string
		for _, l := range x.Lhs {
			id, ok := l.(*ast.Ident)
			if !ok {
				return pad + t.fail(l, "assignment target")
			}
			names = append(names, id.Name)
		}
		if len(names) == 2 {
			var gi *ast.IfStmt
			ok := false
			if len(rest) > 0 {
				gi, ok = rest[0].(*ast.IfStmt)
			}
			if !ok || gi.Init != nil || gi.Else != nil || !amwTerminates(gi.Body.List) {
				return pad + t.fail(x, "two-value `:=` that is not followed by `if <failed> { …; return }`")
			}
			if names[0] != "_" && amwUses(gi.Body, names[0]) {
				return pad + t.fail(gi, "the failure branch uses "+names[0])
			}
			if call, ok := t.resCall(x.Rhs[0], sc); ok {
				if op, ok := amwErrNilTest(gi.Cond, names[1]); !ok || op != token.NEQ {
					return pad + t.fail(gi, "expected `if "+names[1]+" != nil`")
				}
				return t.matchRes(x, call, names[0], names[1], rest[1:], gi.Body.List, sc.with(names[0], "val"), sc.with(names[1], "err"), ind)
			}
			if prim, ok := t.okPrim(x.Rhs[0], sc); ok {
				u, isNot := gi.Cond.(*ast.UnaryExpr)
				if !isNot || u.Op != token.NOT || strings.Join(amwPath(u.X), ".") != names[1] {
					return pad + t.fail(gi, "expected `if !"+names[1]+"`")
				}
				for _, r := range rest[1:] {
					if amwUses(r, names[1]) {
						return pad + t.fail(r, "use of "+names[1]+" after its guard")
					}
				}
				return pad + "(match " + prim + " with\n" +
					pad + "| none =>\n" + t.block(gi.Body.List, sc, ind+1) + "\n" +
					pad + "| some " + amwName(names[0]) + " =>\n" + t.block(rest[1:], sc.with(names[0], "val"), ind+1) + ")"
			}
			return pad + t.fail(x, "two-value `:=` from something that is neither a (T, error) call nor a comma-ok primitive")
		}
		if len(names) != 1 {
			return pad + t.fail(x, "assignment arity")
		}
		v, vp := t.expr(x.Rhs[0], sc)
		body := t.block(rest, sc.with(names[0], "val"), ind)
		if !vp {
			return pad + "let " + amwName(names[0]) + " := " + v + ";\n" + body
		}
		if t.kind != amwRes {
			return pad + t.fail(x, "a value that may panic outside a function with an error result")
		}
		return pad + "(Res.bind " + v + " (fun " + amwName(names[0]) + " =>\n" + body + "))"

	case *ast.ExprStmt:
		c, ok := x.X.(*ast.CallExpr)
		if !ok || t.kind != amwVoid || sc.ctx == "" {
			return pad + t.fail(x, "expression statement (context effects are only translated in functions without results)")
		}
		p := amwPath(c.Fun)
		ctx := amwName(sc.ctx)
		isCtx := func(e ast.Expr) bool { id, ok := e.(*ast.Ident); return ok && id.Name == sc.ctx }
		var eff string
		switch {
		case len(p) == 2 && p[0] == sc.ctx && p[1] == "Set" && len(c.Args) == 2:
			a := t.pureArgs(c, sc)
			eff = "Ctx.set " + ctx + " " + a[0] + " " + a[1]
		case len(p) == 2 && p[0] == "bhserrors" && p[1] == "AbortWithErrorResponse" && len(c.Args) == 3 && isCtx(c.Args[0]):
			eff = "Ctx.abort " + ctx + " " + t.errExpr(c.Args[1], sc) // c.Args[2]: logger, skipped
		case len(p) == 1 && sc.vars[p[0]] == "handler" && len(c.Args) == 1 && isCtx(c.Args[0]):
			eff = amwName(p[0]) + " " + ctx
		default:
			return pad + t.fail(x, "call statement "+strings.Join(p, "."))
		}
		return pad + "let " + ctx + " := " + eff + ";\n" + t.block(rest, sc, ind)
	}
	return pad + t.fail(s, fmt.Sprintf("statement %T", s))
}

func amwFirstErr(a, b error) error {
	if a != nil {
		return a
	}
	return b
}

func (t *amwTr) matchRes(n ast.Node, call, v, ev string, okList, errList []ast.Stmt, okSc, errSc amwScope, ind int) string {
	pad := amwPad(ind)
	m := t.gensym("m")
	return pad + "(match " + call + " with\n" +
		pad + "| .panic " + m + " => " + t.panicArm(n, okSc, m) + "\n" +
		pad + "| .err " + amwName(ev) + " =>\n" + t.block(errList, errSc, ind+1) + "\n" +
		pad + "| .ok " + amwName(v) + " =>\n" + t.block(okList, okSc, ind+1) + ")"
}

func (t *amwTr) ret(r *ast.ReturnStmt, sc amwScope) string {
	switch t.kind {
	case amwVoid:
		if len(r.Results) != 0 {
			return t.fail(r, "return with a value")
		}
		return amwName(sc.ctx)
	case amwPure:
		if len(r.Results) != 1 {
			return t.fail(r, "return arity")
		}
		v, p := t.expr(r.Results[0], sc)
		if p {
			return t.fail(r, "a result that may panic in a function with a plain result")
		}
		return v
	}
	var errE ast.Expr
	switch len(r.Results) {
	case 1:
		errE = r.Results[0]
		if amwIsNil(errE) {
			return "(Res.ok ())"
		}
	case 2:
		errE = r.Results[1]
		if amwIsNil(errE) {
			v, p := t.expr(r.Results[0], sc)
			return amwLift(v, p)
		}
		z := r.Results[0]
		if lit, ok := z.(*ast.BasicLit); !amwIsNil(z) && !(ok && lit.Value == `""`) {
			return t.fail(r, "a non-zero value returned together with an error")
		}
	default:
		return t.fail(r, "return arity")
	}
	return "(Res.err " + t.errExpr(errE, sc) + ")"
}

// ---------------------------------------------------------------- functions

func (t *amwTr) function(fd *ast.FuncDecl, lean string) string {
	t.recv, t.recvType, t.fresh = "", "", 0
	sc := amwScope{vars: map[string]string{}}
	var params []string
	if fd.Recv != nil {
		f := fd.Recv.List[0]
		ty := amwTypeText(f.Type)
		lt, ok := amwTypes[ty]
		if !ok || len(f.Names) != 1 {
			return t.fail(fd, "receiver "+ty)
		}
		t.recv, t.recvType = f.Names[0].Name, strings.TrimPrefix(ty, "*")
		params = append(params, "("+amwName(t.recv)+" : "+lt+")")
	}
	nargs := 0
	for _, f := range fd.Type.Params.List {
		ty := amwTypeText(f.Type)
		lt, ok := amwTypes[ty]
		if !ok {
			return t.fail(f, "parameter type "+ty)
		}
		for _, n := range f.Names {
			nargs++
			sort := "val"
			switch ty {
			case "*gin.Context":
				sort = "ctx"
				if sc.ctx != "" {
					return t.fail(f, "two context parameters")
				}
				sc.ctx = n.Name
			case "gin.HandlerFunc":
				sort = "handler"
			}
			sc = sc.with(n.Name, sort)
			params = append(params, "("+amwName(n.Name)+" : "+lt+")")
		}
	}
	var resTy string
	var rts []string
	if fd.Type.Results != nil {
		for _, f := range fd.Type.Results.List {
			if len(f.Names) != 0 {
				return t.fail(f, "named results")
			}
			rts = append(rts, amwTypeText(f.Type))
		}
	}
	switch {
	case len(rts) == 0 && sc.ctx != "":
		t.kind, resTy = amwVoid, "Ctx σ"
	case len(rts) == 1 && rts[0] == "error":
		t.kind, resTy = amwRes, "Res Unit"
	case len(rts) == 2 && rts[1] == "error" && amwTypes[rts[0]] != "":
		t.kind, resTy = amwRes, "Res "+amwTypes[rts[0]]
	case len(rts) == 1 && amwTypes[rts[0]] != "":
		t.kind, resTy = amwPure, strings.Trim(amwTypes[rts[0]], "()")
	default:
		return t.fail(fd, "result types "+strings.Join(rts, ", "))
	}
	body := t.block(fd.Body.List, sc, 1)
	sig := strings.Join(params, " ") + " : " + resTy
	if strings.Contains(sig, "σ") {
		sig = "{σ : Type} " + sig
	}
	t.funcs[t.recvType+"."+fd.Name.Name] = amwFunc{lean: lean, recv: fd.Recv != nil, kind: t.kind, nargs: nargs}
	return "def " + lean + " " + sig + " :=\n" + body + "\n"
}

func genAuthMw() (string, error) {
	t := &amwTr{fset: token.NewFileSet(), consts: map[string]string{}, funcs: map[string]amwFunc{}}
	items := []struct{ file, recv, fn, lean string }{
		{"domains/tokens.go", "", "CreateAdminToken", "createAdminToken"},
		{"service/token_service.go", "TokenService", "GetToken", "tokenServiceGetToken"},
		{"transports/http/auth/auth_token_middleware.go", "TokenMiddleware", "parseAuthHeader", "parseAuthHeader"},
		{"transports/http/auth/auth_token_middleware.go", "TokenMiddleware", "getToken", "getToken"},
		{"transports/http/auth/auth_token_middleware.go", "TokenMiddleware", "ApplyToAPI", "applyToAPI"},
		{"transports/http/auth/require_auth.go", "", "validateToken", "validateToken"},
		{"transports/http/auth/require_auth.go", "", "RequireAdmin", "requireAdmin"},
	}
	var b strings.Builder
	b.WriteString(genHeader)
	b.WriteString("-- translator: harness/cmd/extract/gen_authmw.go (subset and primitive table in its header)\n")
	b.WriteString("import BHS.Model.AuthMwPrim\n\nset_option linter.unusedVariables false\n\nnamespace BHS.Gen.AuthMw\nopen BHS.Model.AuthMwPrim\n\n")
	files := map[string]*ast.File{}
	for _, it := range items {
		f := files[it.file]
		if f == nil {
			var err error
			f, err = parser.ParseFile(t.fset, filepath.Join(*repo, filepath.FromSlash(it.file)), nil, 0)
			if err != nil {
				return "", err
			}
			files[it.file] = f
		}
		// string constants of this file (only they are visible to its functions)
		t.consts = map[string]string{}
		var fd *ast.FuncDecl
		for _, d := range f.Decls {
			switch x := d.(type) {
			case *ast.GenDecl:
				if x.Tok != token.CONST {
					continue
				}
				for _, sp := range x.Specs {
					vs := sp.(*ast.ValueSpec)
					for i, n := range vs.Names {
						if i < len(vs.Values) {
							if bl, ok := vs.Values[i].(*ast.BasicLit); ok && bl.Kind == token.STRING {
								if v, err := strconv.Unquote(bl.Value); err == nil {
									t.consts[n.Name] = v
								}
							}
						}
					}
				}
			case *ast.FuncDecl:
				if x.Name.Name != it.fn || x.Body == nil {
					continue
				}
				rt := ""
				if x.Recv != nil && len(x.Recv.List) == 1 {
					rt = strings.TrimPrefix(amwTypeText(x.Recv.List[0].Type), "*")
				}
				if rt == it.recv {
					fd = x
				}
			}
		}
		if fd == nil {
			return "", fmt.Errorf("%s: function %s not found", it.file, it.fn)
		}
		s := t.function(fd, it.lean)
		if t.err != nil {
			return "", t.err
		}
		name := it.fn
		if it.recv != "" {
			name = "(*" + it.recv + ")." + it.fn
		}
		b.WriteString("-- " + it.file + " " + name + "\n" + s + "\n")
	}
	b.WriteString("end BHS.Gen.AuthMw\n")
	return b.String(), nil
}
