package main

// Gen.HeaderSvc: the query side of the service, three layers deep,
//   service/header_service.go                    (*HeaderService).LatestHeaderLocator, LocateHeadersGetHeaders,
//                                                 locateHeadersGetHeaders, GetHeadersByHeight, GetHeaderAncestorsByHash,
//                                                 GetCommonAncestor, areAllElementsEqual, GetTips, GetTip, GetHeaderByHash
//   database/repository/header_repository.go     the (*HeaderRepository) methods they call
//   database/sql/headers.go                       the (*HeadersDb) methods those call, down to db.Get / db.Select
// TRANSLATED statement by statement with the translator core of gen_chainsvc.go (same subset, see its header) into Lean
// `do` blocks of `QueryM H` (lean/BHS/Model/QueryM.lean). The call graph is discovered from the roots hsRoots (callees
// first, recursion refused). Refinement theorems: lean/BHS/Props/HeaderSvcGen.lean (generated = hand model Query.lean).
//
// What this profile adds to the core subset
//   statements   `for cond {…}` / `for {…}` (at most `fuel` iterations of the monad's loop budget, else the fault outOfFuel),
//                break / continue, x++ / x--, x op= e (+ - *), `for i := range xs`, `var x T` with the Go zero value,
//                `err := <recv>.db.Get|Select|GetContext(ctx?, &dest, [<recv>.db.Rebind](sqlNAME), args…)` (also as the
//                init of an `if`) for the NAMES of hsSQL ↦ `(dest, err) ← dbGet_sqlNAME / dbSelect_sqlNAME args…`,
//                `return f(…)` of a call with the same result list. A range loop may write the ranged slice at the loop
//                index only.
//   expressions  - * on integers, unary -, append(xs, v), make(T, 0[, cap]) (the capacity must be effect-free and is dropped),
//                make(T, n), `p != &T{}` / `p == &T{}` (a fresh address equals no pointer), &xs[i] on a slice of structs,
//                string literals as arguments of the error constructors, nil slices (↦ []).
//   types        string, chainhash.Hash, *chainhash.Hash ↦ H (a `string` parameter named `state` ↦ St); []string,
//                []*chainhash.Hash, domains.BlockLocator ↦ List H; int, int32 ↦ Int (no wrap-around); uint8, uint32 ↦ Int with
//                wrap-around; *domains.BlockHeader, *dto.DbBlockHeader ↦ Option (Row H); `var x dto.DbBlockHeader` ↦
//                Option (Row H) (none = nothing scanned; &x is x); slices of them ↦ List (Option (Row H));
//                *wire.BlockHeader ↦ Option (Src H), []*wire.BlockHeader ↦ List (Option (Src H)); context.Context dropped.
//                BlockHeader ≙ DbBlockHeader ≙ Row and wire.BlockHeader ≙ Src: the field tables are checked against the
//                struct declarations of domains/headers.go and internal/wire/blockheader.go.
// Primitive table (trusted mapping, see QueryM.lean)
//   hs.repo.Headers.M ↦ HeaderRepository_M, r.db.M ↦ HeadersDb_M (the production wiring of the interfaces), hs.M ↦
//   HeaderService_M; r.db.GetHeadersStartHeight is kept whole (sqlx.In) — checked to refer to sqlGetHeadersHeight only;
//   x.ToBlockHeader() ↦ toBlockHeader; dto.ConvertToBlockHeader ↦ convertToBlockHeader; int(x), int32(x) ↦ x;
//   uint8(x), uint32(x) ↦ wrapU; string(domains.LongestChain) ↦ St.lc; longestChainState ↦ St.lc (its value is checked);
//   domains.FastLog2Floor ↦ Gen.fastLog2Floor (regenerated, Gen.Arith); wire.MaxCFHeadersPerMsg ↦ Gen.maxCFHeadersPerMsg
//   (regenerated, Gen.Consts); math.MaxInt32 ↦ 2147483647; errors.New / fmt.Errorf / errors.Errorf ↦ Err.msg <format>;
//   errors.Wrap(f) ↦ errorsWrap; errors.Is(e, sql.ErrNoRows) ↦ isNoRows; bhserrors.ErrX ↦ Err.bhs "ErrX";
//   bhserrors.ErrX.Wrap(e) ↦ bhsWrap; context.Background() dropped.
// Skip list  <recv>.log.<Level>()…(…).

import (
	"fmt"
	"go/ast"
	"go/token"
	"strconv"
	"strings"
)

func init() { register("HeaderSvc", genHeaderSvc) }

var hsRoots = []string{"LatestHeaderLocator", "LocateHeadersGetHeaders", "GetHeadersByHeight", "GetHeaderAncestorsByHash",
	"GetCommonAncestor", "GetTips", "GetTip", "GetHeaderByHash"}

type hsPrim struct {
	verb string // Get | Select
	dest ckind
	args []ckind
}

// one primitive per SQL constant name
var hsSQL = map[string]hsPrim{
	"sqlHeader":                          {"Get", "scan", []ckind{"hash"}},
	"sqlHeaderByHeight":                  {"Get", "scan", []ckind{"int", "state"}},
	"sqlHeaderByHeightRange":             {"Select", "chain", []ckind{"int", "int"}},
	"sqlSelectPreviousBlock":             {"Get", "scan", []ckind{"hash"}},
	"sqlSelectTip":                       {"Select", "rows", nil},
	"sqlSelectAncestorOnHeight":          {"Select", "chain", []ckind{"hash", "int", "int"}},
	"sqlSelectTips":                      {"Select", "chain", nil},
	"sqlChainBetweenTwoHashes":           {"Select", "chain", []ckind{"hash", "hash", "hash"}},
	"sqlHeaderHeightFromHashAndState":    {"Get", "int", []ckind{"hash", "state"}},
	"sqlHeaderByHeightRangeLongestChain": {"Select", "chain", []ckind{"int", "int"}},
}

var hsGoTy = map[string]ckind{"string": "hash", "int": "int", "int32": "int", "uint8": "u8", "uint32": "u32", "bool": "bool", "error": "err",
	"*domains.BlockHeader": "hdrp", "*dto.DbBlockHeader": "hdrp", "dto.DbBlockHeader": "scan", "domains.BlockHeader": "hdr",
	"[]*domains.BlockHeader": "chain", "[]*dto.DbBlockHeader": "chain", "[]dto.DbBlockHeader": "rows",
	"[]string": "hashes", "[]*chainhash.Hash": "hashes", "domains.BlockLocator": "hashes", "*chainhash.Hash": "hash", "chainhash.Hash": "hash",
	"[]*wire.BlockHeader": "srcs", "*wire.BlockHeader": "srcp", "wire.BlockHeader": "srcv", "context.Context": "drop"}

func hsTypeText(e ast.Expr) string {
	switch x := e.(type) {
	case *ast.Ident:
		return x.Name
	case *ast.SelectorExpr:
		return selText(x)
	case *ast.StarExpr:
		return "*" + hsTypeText(x.X)
	case *ast.ArrayType:
		if x.Len == nil {
			return "[]" + hsTypeText(x.Elt)
		}
	}
	return "?"
}

var hsSrcOrder []string // wire.BlockHeader fields in declaration order

func hsProfile() *csProfile {
	for k, v := range map[ckind]string{"srcp": "Option (Src H)", "srcs": "List (Option (Src H))", "srcv": "Src H", "u8": "Int", "u32": "Int",
		"scan": "Option (Row H)", "rows": "List (Option (Row H))", "rowv": "Option (Row H)", "str": "String"} {
		csLeanTy[k] = v
	}
	csElem["rows"] = "rowv"
	p := &csProfile{monad: "QueryM H", dropRecv: map[string]bool{"HeaderService": true, "HeaderRepository": true, "HeadersDb": true},
		zero: map[ckind]string{"int": "0", "u8": "0", "u32": "0", "chain": "[]", "rows": "[]", "hashes": "[]", "scan": "none"}}
	p.goKind = func(g *csGen, e ast.Expr) (ckind, bool) {
		k, ok := hsGoTy[hsTypeText(e)]
		return k, ok
	}
	p.paramKind = func(name string, k ckind) ckind {
		if name == "state" && k == "hash" { // a `state string` parameter carries a header state name
			return "state"
		}
		return k
	}
	p.field = func(g *csGen, k ckind, name string) (csField, bool) {
		switch k {
		case "hdrp", "hdr":
			if name == "Height" {
				return csField{"(%s.height : Int)", "int"}, true
			}
		case "srcp", "srcv":
			f, ok := csSrcFields[name]
			return f, ok
		}
		return csField{}, false
	}
	p.ident = func(g *csGen, name string) (csVal, bool) {
		if name == "longestChainState" && g.stPkg == "sql" {
			return one("St.lc", "state"), true
		}
		return csVal{}, false
	}
	p.sel = func(g *csGen, x *ast.SelectorExpr) (csVal, bool) {
		id, ok := x.X.(*ast.Ident)
		if !ok {
			return csVal{}, false
		}
		if _, local := g.lookup(id.Name); local {
			return csVal{}, false
		}
		switch t := selText(x); {
		case t == "wire.MaxCFHeadersPerMsg":
			return one("((Gen.maxCFHeadersPerMsg : Nat) : Int)", "int"), true
		case t == "math.MaxInt32":
			return one("(2147483647 : Int)", "int"), true
		case id.Name == "bhserrors" && strings.HasPrefix(x.Sel.Name, "Err"):
			return one("(some (Err.bhs "+strconv.Quote(x.Sel.Name)+"))", "err"), true
		}
		return csVal{}, false
	}
	p.composite = func(g *csGen, cl *ast.CompositeLit) (csVal, bool) {
		switch hsTypeText(cl.Type) {
		case "chainhash.Hash":
			if len(cl.Elts) == 0 {
				return one("(default : H)", "hash"), true
			}
		case "wire.BlockHeader":
			given := map[string]string{}
			for _, el := range cl.Elts {
				kv, ok := el.(*ast.KeyValueExpr)
				f, fok := csField{}, false
				if ok {
					f, fok = csSrcFields[selText(kv.Key)]
				}
				if !fok {
					g.fail(el, "element of a wire.BlockHeader literal")
					return one("default", "srcv"), true
				}
				s, k := g.val(kv.Value, f.k)
				if k != f.k {
					g.fail(kv, "field %s: kind %q, want %q", selText(kv.Key), k, f.k)
				}
				given[selText(kv.Key)] = s
			}
			var parts []string
			for _, name := range hsSrcOrder {
				f := csSrcFields[name]
				s, ok := given[name]
				if !ok {
					s = map[ckind]string{"nat": "0", "int": "0", "hash": "default"}[f.k]
				}
				parts = append(parts, f.lean+" := "+s)
			}
			return one("({ "+strings.Join(parts, ", ")+" } : Src H)", "srcv"), true
		}
		return csVal{}, false
	}
	p.exprStmt = func(g *csGen, s ast.Stmt, c *ast.CallExpr, ind int) bool {
		// <recv>.log.<level>().<…>(…): walk to the root of the call chain
		var e ast.Expr = c
		for g.recvName != "" {
			switch x := e.(type) {
			case *ast.CallExpr:
				e = x.Fun
				continue
			case *ast.SelectorExpr:
				if selText(x) == g.recvName+".log" {
					g.emit(ind, "-- skipped: "+g.goText(s))
					return true
				}
				e = x.X
				continue
			}
			break
		}
		return false
	}
	p.call = hsCall
	p.assign = hsAssign
	return p
}

func hsCall(g *csGen, c *ast.CallExpr, want ckind) (csVal, bool) {
	bad := func(msg string, a ...any) (csVal, bool) {
		g.fail(c, msg, a...)
		return one("default", want), true
	}
	arg := func(i int, k ckind) string {
		s, ak := g.val(c.Args[i], k)
		if ak != k {
			g.fail(c.Args[i], "argument of kind %q, want %q", ak, k)
		}
		return s
	}
	str := func(i int) string { // a string literal (format / message)
		if lit, ok := c.Args[i].(*ast.BasicLit); ok && lit.Kind == token.STRING {
			if v, err := strconv.Unquote(lit.Value); err == nil {
				return strconv.Quote(v)
			}
		}
		g.fail(c.Args[i], "message that is not a string literal")
		return `""`
	}
	pureRest := func(from int) bool { // the values formatted into a message: effect-free, not modelled
		for _, a := range c.Args[from:] {
			if _, ok := a.(*ast.Ident); !ok {
				return false
			}
		}
		return true
	}
	// conversions
	if id, ok := c.Fun.(*ast.Ident); ok && len(c.Args) == 1 {
		if _, local := g.lookup(id.Name); !local {
			switch id.Name {
			case "int", "int32":
				s, k := g.val(c.Args[0], "int")
				if k == "nat" {
					return one("(Int.ofNat "+s+")", "int"), true
				}
				if _, ok := csIntKinds[k]; !ok {
					return bad("conversion of kind %q to %s", k, id.Name)
				}
				return one(s, "int"), true
			case "uint8", "uint32":
				to := map[string]ckind{"uint8": "u8", "uint32": "u32"}[id.Name]
				s, k := g.val(c.Args[0], "int")
				if _, ok := csIntKinds[k]; !ok {
					return bad("conversion of kind %q to %s", k, id.Name)
				}
				return one(csWrap(to, s), to), true
			case "string":
				s, k := g.val(c.Args[0], "state")
				if k != "state" {
					return bad("conversion of kind %q to string", k)
				}
				return one(s, "state"), true
			}
		}
	}
	fn, ok := c.Fun.(*ast.SelectorExpr)
	if !ok {
		return csVal{}, false
	}
	t, name := selText(fn), fn.Sel.Name
	switch {
	case t == "errors.New" && len(c.Args) == 1:
		return one("(some (Err.msg "+str(0)+"))", "err"), true
	case (t == "fmt.Errorf" || t == "errors.Errorf") && len(c.Args) >= 1 && pureRest(1):
		return one("(some (Err.msg "+str(0)+"))", "err"), true
	case (t == "errors.Wrap" || t == "errors.Wrapf") && len(c.Args) >= 2 && pureRest(2):
		return one("(errorsWrap "+arg(0, "err")+" "+str(1)+")", "err"), true
	case t == "errors.Is" && len(c.Args) == 2 && selText(c.Args[1]) == "sql.ErrNoRows":
		return one("(isNoRows "+arg(0, "err")+")", "bool"), true
	case strings.HasPrefix(t, "bhserrors.Err") && strings.HasSuffix(t, ".Wrap") && len(c.Args) == 1:
		return one("(bhsWrap "+strconv.Quote(strings.TrimSuffix(strings.TrimPrefix(t, "bhserrors."), ".Wrap"))+" "+arg(0, "err")+")", "err"), true
	case t == "dto.ConvertToBlockHeader" && len(c.Args) == 1:
		return csVal{s: "convertToBlockHeader " + arg(0, "chain"), k: []ckind{"chain"}, m: true}, true
	case t == "domains.FastLog2Floor" && len(c.Args) == 1:
		return one("((Gen.fastLog2Floor "+arg(0, "u32")+".toNat : Nat) : Int)", "u8"), true
	case name == "ToBlockHeader" && len(c.Args) == 0:
		if s, k := g.val(fn.X, "hdrp"); k == "hdrp" {
			return csVal{s: "toBlockHeader " + s, k: []ckind{"hdrp"}, m: true}, true
		}
		return bad("ToBlockHeader")
	}
	if g.recvName == "" {
		return csVal{}, false
	}
	// the wiring of the layers
	callee := func(key string) (csVal, bool) {
		if f, ok := g.funcs[key]; ok {
			return g.callFunc(c, f, ""), true
		}
		return bad("call of %s (not in the translated subset)", t)
	}
	switch {
	case g.stPkg == "service" && t == g.recvName+".repo.Headers."+name:
		return callee("repository:HeaderRepository." + name)
	case g.stPkg == "service" && t == g.recvName+"."+name:
		return callee("service:HeaderService." + name)
	case g.stPkg == "repository" && t == g.recvName+".db."+name:
		if name == "GetHeadersStartHeight" {
			return csVal{s: "HeadersDb_GetHeadersStartHeight" + g.args(c, []ckind{"hashes"}), k: []ckind{"int", "err"}, m: true}, true
		}
		return callee("sql:HeadersDb." + name)
	case g.stPkg == "sql" && strings.HasPrefix(t, g.recvName+".db."):
		return bad("database call %s outside the statement form `err := <recv>.db.Get|Select(&dest, SQL, args…)`", t)
	}
	return csVal{}, false
}

// hsAssign: `err := <recv>.db.Get|Select|GetContext|SelectContext([ctx,] &dest, [<recv>.db.Rebind](sqlNAME), args…)`
func hsAssign(g *csGen, x *ast.AssignStmt, ind int) bool {
	if g.stPkg != "sql" || g.recvName == "" || len(x.Lhs) != 1 || len(x.Rhs) != 1 {
		return false
	}
	c, ok := x.Rhs[0].(*ast.CallExpr)
	if !ok {
		return false
	}
	verb := strings.TrimPrefix(selText(c.Fun), g.recvName+".db.")
	if verb == selText(c.Fun) {
		return false
	}
	args := c.Args
	if strings.HasSuffix(verb, "Context") && len(args) > 0 && g.droppedArg(args[0]) {
		verb, args = strings.TrimSuffix(verb, "Context"), args[1:]
	}
	if len(args) < 2 {
		g.fail(c, "database call %s", g.goText(c))
		return true
	}
	// the statement
	q := args[1]
	if rc, ok := q.(*ast.CallExpr); ok && selText(rc.Fun) == g.recvName+".db.Rebind" && len(rc.Args) == 1 {
		q = rc.Args[0] // Rebind only rewrites the placeholders
	}
	p, ok := hsSQL[selText(q)]
	if _, shadow := g.lookup(selText(q)); !ok || shadow || p.verb != verb || len(args)-2 != len(p.args) {
		g.fail(c, "database call %s (supported: Get / Select of the statements of hsSQL with their argument lists)", g.goText(c))
		return true
	}
	// the destination
	u, ok := args[0].(*ast.UnaryExpr)
	id, isId := ast.Expr(nil), false
	if ok && u.Op == token.AND {
		id, isId = u.X, true
	}
	dest, dok := "", false
	if i, ok := id.(*ast.Ident); isId && ok {
		dest, dok = g.lookup(i.Name)
	}
	if !dok || g.kinds[dest] != p.dest || g.params[dest] {
		g.fail(c, "destination of %s (supported: the address of a local variable of kind %q)", g.goText(c), p.dest)
		return true
	}
	call := "db" + verb + "_" + selText(q)
	for i, k := range p.args {
		s, ak := g.val(args[2+i], k)
		if ak != k {
			g.fail(args[2+i], "argument of kind %q, want %q", ak, k)
		}
		call += " " + s
	}
	eid, ok := x.Lhs[0].(*ast.Ident)
	if !ok || eid.Name == "_" {
		g.fail(x, "database call whose error is not kept")
		return true
	}
	tmp := g.declare(dest+"_scanned", p.dest)
	switch x.Tok {
	case token.DEFINE:
		e := g.declare(eid.Name, "err")
		mut := ""
		if g.assigned[eid.Name] {
			mut = "mut "
		}
		g.emit(ind, "let "+mut+"("+tmp+", "+e+") ← "+call)
		g.emit(ind, dest+" := "+tmp)
	case token.ASSIGN:
		e, ok := g.lookup(eid.Name)
		if !ok || g.kinds[e] != "err" || g.params[e] {
			g.fail(x, "assignment to %s", eid.Name)
			return true
		}
		etmp := g.declare(e+"_new", "err")
		g.emit(ind, "let ("+tmp+", "+etmp+") ← "+call)
		g.emit(ind, dest+" := "+tmp)
		g.emit(ind, e+" := "+etmp)
	default:
		g.fail(x, "database call with %s", x.Tok)
	}
	return true
}

func genHeaderSvc() (string, error) {
	g := &csGen{fset: token.NewFileSet(), src: map[string][]byte{}, funcs: map[string]*csFunc{}, codes: map[string]bool{}, prof: hsProfile()}
	csHdrOrder, hsSrcOrder = nil, nil
	structs := map[string]*ast.StructType{}
	lcState := ""
	err := g.load([][2]string{{"domains", "domains/headers.go"}, {"wire", "internal/wire/blockheader.go"}, {"sql", "database/sql/headers.go"},
		{"repository", "database/repository/header_repository.go"}, {"service", "service/header_service.go"}},
		func(pkg, recv, name string) string {
			if recv != "" && recv != "BlockHeader" {
				return recv + "_" + name
			}
			return name
		},
		func(pkg string, x *ast.GenDecl) {
			for _, sp := range x.Specs {
				switch s := sp.(type) {
				case *ast.TypeSpec:
					if st, ok := s.Type.(*ast.StructType); ok && (pkg == "domains" || pkg == "wire") {
						structs[pkg+"."+s.Name.Name] = st
					}
				case *ast.ValueSpec:
					for i, n := range s.Names {
						if pkg == "sql" && n.Name == "longestChainState" && i < len(s.Values) {
							if lit, ok := s.Values[i].(*ast.BasicLit); ok {
								lcState, _ = strconv.Unquote(lit.Value)
							}
						}
					}
				}
			}
		})
	if err != nil {
		return "", err
	}
	// only the functions of the three translated files take part (domains / wire are read for their structs)
	for key, f := range g.funcs {
		if f.pkg == "domains" || f.pkg == "wire" {
			delete(g.funcs, key)
		}
	}
	if lcState != "LONGEST_CHAIN" {
		return "", fmt.Errorf("database/sql/headers.go: unsupported: longestChainState = %q", lcState)
	}
	// the data refinements must cover the structs exactly (kinds as in the ChainSvc module: checked without the profile)
	prof := g.prof
	g.prof = nil
	hd := map[string]*ast.StructType{"BlockHeader": structs["domains.BlockHeader"]}
	if err := g.checkStruct(hd, "BlockHeader", csHdrFields, &csHdrOrder); err != nil {
		return "", fmt.Errorf("domains/headers.go: %v", err)
	}
	g.prof = prof
	wr := map[string]*ast.StructType{"BlockHeader": structs["wire.BlockHeader"]}
	if err := g.checkWire(wr["BlockHeader"]); err != nil {
		return "", err
	}
	// GetHeadersStartHeight is a primitive: it must still be the sqlx.In query over sqlGetHeadersHeight
	if err := hsCheckSQL(g, "sql:HeadersDb.GetHeadersStartHeight", "sqlGetHeadersHeight"); err != nil {
		return "", err
	}
	g.signatures()
	for _, r := range hsRoots {
		root, ok := g.funcs["service:HeaderService."+r]
		if !ok {
			return "", fmt.Errorf("service/header_service.go: unsupported: (*HeaderService).%s not found or its signature is outside the subset", r)
		}
		g.translate(root)
		if g.err != nil {
			return "", g.err
		}
	}
	var b strings.Builder
	b.WriteString(genHeader)
	b.WriteString("-- the query side of the service (service/header_service.go, database/repository/header_repository.go,\n")
	b.WriteString("-- database/sql/headers.go) translated by gen_headersvc.go on the translator core of gen_chainsvc.go.\n")
	b.WriteString("import BHS.Model.QueryM\n\nset_option linter.unusedVariables false\n\nnamespace BHS.Gen.HeaderSvc\nopen BHS BHS.Chain BHS.QueryM\n")
	b.WriteString("variable {H : Type} [DecidableEq H] [Inhabited H]\n\n")
	b.WriteString(g.defs())
	b.WriteString("end BHS.Gen.HeaderSvc\n")
	return b.String(), nil
}

// checkWire: wire.BlockHeader ≙ Src
func (g *csGen) checkWire(st *ast.StructType) error {
	if st == nil {
		return fmt.Errorf("internal/wire/blockheader.go: struct BlockHeader not found")
	}
	want := map[string]string{"Version": "int32", "PrevBlock": "chainhash.Hash", "MerkleRoot": "chainhash.Hash", "Timestamp": "time.Time", "Bits": "uint32", "Nonce": "uint32"}
	n := 0
	for _, f := range st.Fields.List {
		for _, id := range f.Names {
			if want[id.Name] != hsTypeText(f.Type) {
				return fmt.Errorf("%s: unsupported: field BlockHeader.%s %s has no place in the header-source model", g.fset.Position(id.Pos()), id.Name, hsTypeText(f.Type))
			}
			hsSrcOrder = append(hsSrcOrder, id.Name)
			n++
		}
	}
	if n != len(want) {
		return fmt.Errorf("internal/wire/blockheader.go: struct BlockHeader lost a field of the header-source model")
	}
	return nil
}

// hsCheckSQL: the function refers to exactly the given SQL constants
func hsCheckSQL(g *csGen, key string, want ...string) error {
	f, ok := g.funcs[key]
	if !ok {
		return fmt.Errorf("database/sql/headers.go: unsupported: %s not found", key)
	}
	seen := map[string]bool{}
	ast.Inspect(f.decl.Body, func(n ast.Node) bool {
		if id, ok := n.(*ast.Ident); ok && strings.HasPrefix(id.Name, "sql") && len(id.Name) > 3 && id.Name[3] >= 'A' && id.Name[3] <= 'Z' {
			seen[id.Name] = true
		}
		return true
	})
	if len(seen) != len(want) {
		return fmt.Errorf("%s: unsupported: %s no longer runs exactly %v", g.fset.Position(f.decl.Pos()), key, want)
	}
	for _, w := range want {
		if !seen[w] {
			return fmt.Errorf("%s: unsupported: %s no longer runs %s", g.fset.Position(f.decl.Pos()), key, w)
		}
	}
	return nil
}
