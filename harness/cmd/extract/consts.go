package main

import (
	"fmt"
	"strings"

	"github.com/bitcoin-sv/block-headers-service/internal/wire"
)

func init() { register("Consts", genConsts) }

func genConsts() (string, error) {
	var b strings.Builder
	b.WriteString(genHeader)
	b.WriteString("namespace BHS.Gen\n\n")
	nat := func(name string, v any) { fmt.Fprintf(&b, "def %s : Nat := %v\n", name, v) }
	nat("maxCFHeadersPerMsg", wire.MaxCFHeadersPerMsg)
	nat("maxBlockHeadersPerMsg", wire.MaxBlockHeadersPerMsg)
	nat("maxBlockLocatorsPerMsg", wire.MaxBlockLocatorsPerMsg)
	nat("maxInvPerMsg", wire.MaxInvPerMsg)
	nat("maxAddrPerMsg", wire.MaxAddrPerMsg)
	nat("maxUserAgentLen", wire.MaxUserAgentLen)
	nat("maxVarIntPayload", wire.MaxVarIntPayload)
	nat("messageHeaderSize", wire.MessageHeaderSize)
	nat("commandSize", wire.CommandSize)
	nat("maxBlockHeaderPayload", wire.MaxBlockHeaderPayload)
	b.WriteString("\nend BHS.Gen\n")
	return b.String(), nil
}
