package main

// Gen.HookSvc: the webhook code of property C12, from the service down to the SQL calls,
//   notification/webhooks_service.go             (*WebhooksService).CreateWebhook, refreshWebhook, DeleteWebhook, Notify, GetWebhookByURL
//   notification/webhooks.go                     (*Webhook).Notify, updateWebhookAfterNotification, CreateWebhook
//   database/repository/webhooks_repository.go   (*WebhooksRepository).AddWebhookToDatabase, DeleteWebhookByURL, GetWebhookByURL, GetAllWebhooks, UpdateWebhook
//   repository/dto/webhooks.go                   (*DbWebhook).ToWebhook, ToDbWebhook
//   database/sql/webhooks.go                     (*HeadersDb).CreateWebhook, GetWebhookByURL, GetAllWebhooks, DeleteWebhookByURL, UpdateWebhook
// TRANSLATED statement by statement into Lean `do` blocks of `HookM` over the vocabulary of lean/BHS/Model/HookSvcPrim.lean.
// The call graph is discovered from the four exported service methods (callees are emitted first, recursion is refused),
// so an inlined, renamed, added or removed helper changes the generated module.
// Refinement theorems: lean/BHS/Props/HookSvcGen.lean (generated = hand model BHS/Model/Hooks.lean).
//
// SUBSET (everything else: `file:line:col: unsupported: …`, exit 1, the module is replaced by an empty one)
//   statements   `x := e`, `x = e`, `a, b := f(…)`, `a, b = f(…)` (a `:=` that shadows gets a fresh Lean name);
//                `var x dto.DbWebhook`, `var x []*dto.DbWebhook` (scan targets, zero value);
//                `p.F = e` on a local `*Webhook` or the method's receiver; `m[k] = v` on a local map;
//                `if [init;] c {…} [else if …] [else {…}]`; `{…}`; `return e…` (also `return f(…)`);
//                `for _, x := range xs {…}` without return/goto in the body (`continue` and `break` are supported — a loop
//                with a `break` becomes `forRangeBrk`; the outer variables assigned in the body are the loop state);
//                method calls as statements;
//                `defer func() { _ = tx.Rollback() }()` (EFFECT: wraps the rest of the function, see txDeferRollback).
//                Control flow is rendered in continuation style: the statements after an `if` are translated once per
//                fall-through branch, so the Lean text has no early return and no mutable variable.
//   expressions  identifiers, nil, "", string and integer literals, true/false, !, && || (short-circuit, also over an operand
//                that can fault), == != < <= > >=, + (numbers, strings; `-` `*` `/` are refused: Go int ↦ Nat), field selection
//                (through a pointer: `deref`, faults on nil), &x of a scanned struct, *p, &T{…} composite literals of
//                Webhook / DbWebhook (omitted fields get their Go zero value), map literals with string keys and values,
//                make([]*T, 0), append(xs, x), string(b), and the primitive table.
//   pointers     `*Webhook` receivers are THREADED: a method of *Webhook takes the receiver and returns the (possibly
//                updated) receiver before its results; `x.M(…)` rebinds `x`. Aliasing is not modelled, so the shapes where
//                it could be observed are refused: a pointer that is both mutated and copied (assigned to another variable,
//                appended) in one function; mutation through a parameter other than the receiver; returning a pointer
//                parameter; any use of a slice of pointers during or after a `range` over it.
//   types        string ↦ String, or Status where the value is a LastEmitStatus (a string parameter takes the kind of the
//                argument at the call site); int ↦ Nat; bool; error ↦ Option GoErr; time.Time ↦ Stamp;
//                *Webhook ↦ Option Hook; *DbWebhook ↦ Option Row; DbWebhook ↦ Row; slices of these pointers ↦ lists;
//                *http.Response ↦ Option Resp; map[string]string / map[string]interface{} ↦ List (String × String);
//                *sqlx.Tx ↦ Tx; context.Context, Event, WebhookTargetClient arguments are dropped (the client is the
//                environment). The field tables below are checked against the Go struct declarations.
// PRIMITIVE TABLE (Go ↦ Lean, see HookSvcPrim.lean)
//   client.Call(headers, method, url, event) ↦ clientCall env headers method url;   io.ReadAll(res.Body) ↦ ioReadAll;
//   fmt.Sprint(err) ↦ sprintErr err;  fmt.Sprint(code, " ", body) ↦ sprintReply code body;  time.Now() ↦ timeNow env;
//   strings.ToLower ↦ stringsToLower;  http.MethodPost ↦ "POST";  http.StatusOK ↦ 200;  <recv>.cfg.MaxTries ↦ env.cfg.maxTries;
//   bhserrors.ErrX ↦ some (GoErr.bhs "ErrX");  bhserrors.ErrX.Wrap(e) ↦ bhsWrap "ErrX" e;  errors.Wrap(e, m), errors.Wrapf(e, m, …) ↦ errorsWrap e;
//   h.db.BeginTxx(ctx, nil) ↦ dbBeginTxx;  tx.Commit() ↦ txCommit tx;
//   h.db.GetContext(ctx, &dest, h.db.Rebind(sqlNAME), args…) ↦ dbGet_sqlNAME dest args…;  h.db.SelectContext(…) ↦ dbSelect_sqlNAME dest;
//   tx.NamedExecContext(ctx, h.db.Rebind(sqlNAME), arg) ↦ txNamedExec_sqlNAME tx arg;
//   sqlx.In(sqlNAME, args…) ↦ sqlxIn_sqlNAME args… (argument kinds checked against the placeholder order of the table hkSQL);
//   tx.ExecContext(ctx, h.db.Rebind(query), args...) ↦ txExec tx query args
//       — for the NAMES of hkSQL only: an unknown constant, a different verb or argument list is unsupported;
//   method calls along the wiring table hkWiring (s.webhooks.X ↦ WebhooksRepository.X, r.db.X ↦ HeadersDb.X: the production
//   wiring of the interfaces, trusted).
// SKIP LIST    <recv>.log.<Level>().Msg/Msgf(…) with side-effect-free arguments; `defer res.Body.Close()`;
//              the field CreatedAt in composite literals (its value must be time.Now() or a CreatedAt field).

import (
	"fmt"
	"go/ast"
	"go/parser"
	"go/token"
	"go/types"
	"os"
	"path/filepath"
	"regexp"
	"strconv"
	"strings"
)

func init() { register("HookSvc", genHookSvc) }

type hkKind string

var hkLeanTy = map[hkKind]string{"str": "String", "int": "Nat", "bool": "Bool", "err": "Option GoErr", "status": "Status", "stamp": "Stamp",
	"hookp": "Option Hook", "hook": "Hook", "rowp": "Option Row", "row": "Row", "hookps": "List (Option Hook)", "rowps": "List (Option Row)",
	"respp": "Option Resp", "resp": "Resp", "body": "Option String", "bytes": "String", "hdrs": "List (String × String)",
	"tx": "Tx", "query": "String", "upargs": "UpdateArgs", "unit": "Unit"}

// Go type text (package qualifier of notification / dto removed) ↦ kind
var hkGoTy = map[string]hkKind{"string": "str", "int": "int", "bool": "bool", "error": "err", "*Webhook": "hookp", "*DbWebhook": "rowp",
	"[]*Webhook": "hookps", "[]*DbWebhook": "rowps", "DbWebhook": "row", "time.Time": "stamp",
	"Event": "event", "WebhookTargetClient": "client", "context.Context": "ctx"}
var hkDropped = map[hkKind]bool{"event": true, "client": true, "ctx": true}
var hkElem = map[hkKind]hkKind{"hookps": "hookp", "rowps": "rowp"}
var hkPtrOf = map[hkKind]hkKind{"hookp": "hook", "rowp": "row", "respp": "resp"}
var hkNilable = map[hkKind]bool{"err": true, "hookp": true, "rowp": true, "respp": true}

type hkField struct {
	lean string
	k    hkKind
}

// the data refinement Webhook ≙ Hook, DbWebhook ≙ Row, http.Response ≙ Resp
var hkFields = map[hkKind]map[string]hkField{
	"hook": {"URL": {"url", "str"}, "TokenHeader": {"tokenHeader", "str"}, "Token": {"token", "str"}, "LastEmitStatus": {"lastStatus", "status"},
		"LastEmitTimestamp": {"lastAt", "stamp"}, "ErrorsCount": {"errors", "int"}, "Active": {"active", "bool"}, "MaxTries": {"maxTries", "int"}},
	"row": {"URL": {"url", "str"}, "TokenHeader": {"tokenHeader", "str"}, "Token": {"token", "str"}, "LastEmitStatus": {"lastStatus", "status"},
		"LastEmitTimestamp": {"lastAt", "stamp"}, "ErrorsCount": {"errors", "int"}, "Active": {"active", "bool"}},
	"resp": {"StatusCode": {"statusCode", "int"}, "Body": {"body", "body"}},
}
var hkFieldOrder = map[hkKind][]string{"hook": {"URL", "TokenHeader", "Token", "LastEmitStatus", "LastEmitTimestamp", "ErrorsCount", "Active", "MaxTries"},
	"row": {"URL", "TokenHeader", "Token", "LastEmitStatus", "LastEmitTimestamp", "ErrorsCount", "Active"}}
var hkSkippedFields = map[string]bool{"CreatedAt": true}
var hkLitTy = map[string]hkKind{"Webhook": "hook", "DbWebhook": "row"}

// Go struct declarations the tables are checked against: file, type, field ↦ Go type text
var hkStructs = []struct {
	file, name string
	fields     map[string]string
}{
	{"notification/webhooks.go", "Webhook", map[string]string{"URL": "string", "TokenHeader": "string", "Token": "string", "CreatedAt": "time.Time",
		"LastEmitStatus": "string", "LastEmitTimestamp": "time.Time", "ErrorsCount": "int", "Active": "bool", "MaxTries": "int"}},
	{"repository/dto/webhooks.go", "DbWebhook", map[string]string{"URL": "string", "TokenHeader": "string", "Token": "string", "CreatedAt": "time.Time",
		"LastEmitStatus": "string", "LastEmitTimestamp": "time.Time", "ErrorsCount": "int", "Active": "bool"}},
	{"notification/webhooks_service.go", "WebhooksService", map[string]string{"webhooks": "Webhooks", "client": "WebhookTargetClient", "cfg": "*config.WebhookConfig"}},
	{"database/repository/webhooks_repository.go", "WebhooksRepository", map[string]string{"db": "*sql.HeadersDb"}},
	{"config/config.go", "WebhookConfig", map[string]string{"MaxTries": "int"}},
}

// SQL primitives keyed by the NAME of the constant: verb, destination / argument kinds (placeholder order)
var hkSQL = map[string]struct {
	verb string
	dest hkKind
	args []hkKind
}{
	"sqlInsertWebhook":      {"NamedExecContext", "", []hkKind{"row"}},
	"sqlDeleteWebhookByURL": {"NamedExecContext", "", []hkKind{"hdrs"}},
	"sqlGetWebhookByURL":    {"GetContext", "row", []hkKind{"str"}},
	"sqlGetAllWebhooks":     {"SelectContext", "rowps", nil},
	"sqlUpdateWebhook":      {"In", "", []hkKind{"status", "stamp", "int", "bool", "str"}},
}

// receiver type (or package, for plain functions) ↦ file, and the wiring: field path after the receiver ↦ type whose method is called
var hkTypeFile = map[string]string{"WebhooksService": "notification/webhooks_service.go", "Webhook": "notification/webhooks.go", "notification": "notification/webhooks.go",
	"WebhooksRepository": "database/repository/webhooks_repository.go", "DbWebhook": "repository/dto/webhooks.go", "dto": "repository/dto/webhooks.go",
	"HeadersDb": "database/sql/webhooks.go"}
var hkWiring = map[string]map[string]string{"WebhooksService": {"": "WebhooksService", "webhooks": "WebhooksRepository"},
	"WebhooksRepository": {"db": "HeadersDb"}, "HeadersDb": {}, "Webhook": {"": "Webhook"}, "DbWebhook": {}}
var hkPkgOf = map[string]string{"WebhooksService": "notification", "Webhook": "notification", "notification": "notification",
	"WebhooksRepository": "repository", "DbWebhook": "dto", "dto": "dto", "HeadersDb": "sql"}

var hkLogRe = regexp.MustCompile(`^\w+\.log\.(Trace|Debug|Info|Warn|Error)\(\)\.(Msgf|Msg)$`)

// names a Go local may not take in the Lean text (vocabulary of the primitives)
var hkReserved = map[string]bool{"env": true, "deref": true, "setField": true, "mapSet": true, "forRange": true, "forRangeBrk": true, "zeroRow": true, "zeroHook": true,
	"stringsToLower": true, "sprintErr": true, "sprintReply": true, "timeNow": true, "clientCall": true, "ioReadAll": true, "dbBeginTxx": true,
	"txDeferRollback": true, "txCommit": true, "txStmt": true, "txExec": true, "errorsWrap": true, "bhsWrap": true, "pure": true, "some": true, "none": true}

type hkErr struct{ msg string }

type hkVal struct {
	s      string
	k      hkKind   // "nil" / "empty" for the untyped literals; a dropped kind for dropped arguments
	multi  []hkKind // result list of a call with several results (incl. the threaded receiver)
	m      bool     // contains a `(← …)` (can fault / has an effect)
	action bool     // s is a monadic action (to be bound with ←); only for calls
	thread string   // Go name of the *Webhook variable the call rebinds ("" = none)
	goRes  int      // number of Go results of a call (-1: not a call)
}

type hkVar struct {
	lean  string
	k     hkKind
	param bool // a parameter other than a threaded receiver
	dead  bool // a slice of pointers after a `range` over it
}

type hkFn struct {
	recv, name, lean string
	decl             *ast.FuncDecl
	file             *hkFile
	params           []hkKind
	results          []hkKind // Go results
	threaded         bool
	text             string
	state            int // 1 in progress, 2 done
}

type hkFile struct {
	path string
	src  []byte
	ast  *ast.File
}

type hkGen struct {
	fset  *token.FileSet
	files map[string]*hkFile
	fns   map[string]*hkFn
	order []*hkFn
	// per function
	fn      *hkFn
	recv    string // Go name of the receiver
	scopes  []map[string]*hkVar
	tmp     int
	mutated map[string]ast.Node
	copied  map[string]bool
	loopK   []hkLoop
}

type hkCont func(ind int) string

// what `continue` (= the end of the body) and `break` become inside the innermost range loop
type hkLoop struct{ next, brk func(ind int) string }

func (g *hkGen) fail(n ast.Node, msg string, a ...any) {
	panic(hkErr{fmt.Sprintf("%s: unsupported: %s", g.fset.Position(n.Pos()), fmt.Sprintf(msg, a...))})
}

func hkPad(n int) string { return strings.Repeat("  ", n) }

func (g *hkGen) load(rel string) *hkFile {
	if f, ok := g.files[rel]; ok {
		return f
	}
	p := filepath.Join(*repo, rel)
	src, err := os.ReadFile(p)
	if err != nil {
		panic(hkErr{err.Error()})
	}
	af, err := parser.ParseFile(g.fset, p, src, 0)
	if err != nil {
		panic(hkErr{err.Error()})
	}
	f := &hkFile{path: p, src: src, ast: af}
	g.files[rel] = f
	return f
}

func (g *hkGen) checkStructs() {
	for _, want := range hkStructs {
		f := g.load(want.file)
		var ts *ast.TypeSpec
		for _, d := range f.ast.Decls {
			if gd, ok := d.(*ast.GenDecl); ok && gd.Tok == token.TYPE {
				for _, sp := range gd.Specs {
					if sp.(*ast.TypeSpec).Name.Name == want.name {
						ts = sp.(*ast.TypeSpec)
					}
				}
			}
		}
		if ts == nil {
			panic(hkErr{fmt.Sprintf("%s: unsupported: type %s not found", f.path, want.name)})
		}
		st, ok := ts.Type.(*ast.StructType)
		if !ok {
			g.fail(ts, "type %s is not a struct", want.name)
		}
		got := map[string]string{}
		for _, fl := range st.Fields.List {
			for _, n := range fl.Names {
				got[n.Name] = types.ExprString(fl.Type)
			}
		}
		for fn, ty := range want.fields {
			if got[fn] != ty {
				g.fail(ts, "field %s.%s has type %q, the table expects %q", want.name, fn, got[fn], ty)
			}
		}
		// a field of Webhook / DbWebhook the tables do not know would be silently lost by the data refinement
		if k, ok := hkLitTy[want.name]; ok {
			for fn := range got {
				if _, known := hkFields[k][fn]; !known && !hkSkippedFields[fn] {
					g.fail(ts, "field %s.%s is not in the field table", want.name, fn)
				}
			}
		}
	}
}

func hkTypeKind(e ast.Expr) (hkKind, bool) {
	ty := types.ExprString(e)
	ty = strings.Replace(ty, "notification.", "", 1)
	ty = strings.Replace(ty, "dto.", "", 1)
	k, ok := hkGoTy[ty]
	return k, ok
}

// ---------- scopes ----------

func (g *hkGen) lookup(name string) (*hkVar, int) {
	for i := len(g.scopes) - 1; i >= 0; i-- {
		if v, ok := g.scopes[i][name]; ok {
			return v, i
		}
	}
	return nil, -1
}

func (g *hkGen) push() { g.scopes = append(g.scopes, map[string]*hkVar{}) }

func (g *hkGen) leanInUse(lean string) bool {
	for _, sc := range g.scopes {
		for _, v := range sc {
			if v.lean == lean {
				return true
			}
		}
	}
	return false
}

func (g *hkGen) declare(name string, k hkKind, param bool) string {
	lean := admName(name)
	if hkReserved[name] || strings.HasSuffix(name, "_") || g.leanInUse(lean) {
		for {
			g.tmp++
			lean = fmt.Sprintf("%s_%d", name, g.tmp)
			if !g.leanInUse(lean) {
				break
			}
		}
	}
	g.scopes[len(g.scopes)-1][name] = &hkVar{lean: lean, k: k, param: param}
	return lean
}

// `x := …` / `x = …` of a value of kind k; returns the Lean binder
func (g *hkGen) bind(id ast.Expr, k hkKind, define bool) string {
	n, ok := id.(*ast.Ident)
	if !ok {
		g.fail(id, "assignment target")
	}
	if n.Name == "_" {
		return "_"
	}
	if hkDropped[k] || k == "nil" || k == "empty" || k == "" {
		g.fail(id, "assignment of a value of kind %q", k)
	}
	old, depth := g.lookup(n.Name)
	if depth == len(g.scopes)-1 || (!define && depth >= 0) { // assignment to an existing variable
		if old.k != k {
			g.fail(id, "%s changes its kind (%s, then %s)", n.Name, old.k, k)
		}
		if old.dead {
			g.fail(id, "%s is used after a range over it", n.Name)
		}
		return old.lean
	}
	if !define {
		g.fail(id, "assignment to undeclared %s", n.Name)
	}
	return g.declare(n.Name, k, false)
}

func (g *hkGen) fresh(prefix string) string {
	for {
		g.tmp++
		n := fmt.Sprintf("%s_%d", prefix, g.tmp)
		if !g.leanInUse(n) {
			return n
		}
	}
}

// ---------- expressions ----------

func hkPath(e ast.Expr) string {
	switch x := e.(type) {
	case *ast.Ident:
		return x.Name
	case *ast.SelectorExpr:
		return hkPath(x.X) + "." + x.Sel.Name
	case *ast.CallExpr:
		if len(x.Args) == 0 {
			return hkPath(x.Fun) + "()"
		}
	}
	return "?"
}

func hkStr(lit string) string {
	v, err := strconv.Unquote(lit)
	if err != nil {
		panic(hkErr{"unsupported: string literal " + lit})
	}
	return leanStr(v)
}

// v as a value of kind want
func (g *hkGen) as(v hkVal, want hkKind, n ast.Node) string {
	if v.action && len(v.multi) == 1 && v.thread == "" { // a call of a translated function with one result, inside an expression
		v = hkVal{s: "(← " + v.s + ")", k: v.multi[0], m: true}
	}
	if v.multi != nil || v.action {
		g.fail(n, "a call with several results (or a statement-only call) used as one value")
	}
	switch {
	case v.k == want:
		return v.s
	case v.k == "nil" && hkNilable[want]:
		return "none"
	case v.k == "nil" && hkElem[want] != "":
		return "[]"
	case v.k == "empty" && want == "str":
		return `""`
	case v.k == "empty" && want == "status":
		return "Status.none"
	}
	g.fail(n, "a value of kind %s where %s is expected", v.k, want)
	return ""
}

func (g *hkGen) want(e ast.Expr, k hkKind) hkVal {
	v := g.expr(e)
	return hkVal{s: g.as(v, k, e), k: k, m: v.m, goRes: -1}
}

func (g *hkGen) field(x hkVal, name string, n ast.Node) hkVal {
	if x.multi != nil || x.action {
		g.fail(n, "field of a call result")
	}
	k, s, m := x.k, x.s, x.m
	if to, ok := hkPtrOf[k]; ok {
		k, s, m = to, "(← deref "+s+")", true
	}
	f, ok := hkFields[k][name]
	if !ok {
		g.fail(n, "field %s of a value of kind %s (not in the field table)", name, x.k)
	}
	return hkVal{s: s + "." + f.lean, k: f.k, m: m, goRes: -1}
}

func hkZero(k hkKind) string {
	return map[hkKind]string{"str": `""`, "int": "0", "bool": "false", "status": "Status.none", "stamp": "Stamp.zero"}[k]
}

func (g *hkGen) expr(e ast.Expr) hkVal {
	switch x := e.(type) {
	case *ast.ParenExpr:
		return g.expr(x.X)
	case *ast.BasicLit:
		switch x.Kind {
		case token.INT:
			if _, err := strconv.ParseUint(x.Value, 10, 63); err != nil {
				g.fail(e, "integer literal %s", x.Value)
			}
			return hkVal{s: "(" + x.Value + " : Nat)", k: "int", goRes: -1}
		case token.STRING:
			if x.Value == `""` || x.Value == "``" {
				return hkVal{k: "empty", goRes: -1}
			}
			if strings.HasPrefix(x.Value, `"`) {
				return hkVal{s: hkStr(x.Value), k: "str", goRes: -1}
			}
		}
	case *ast.Ident:
		switch x.Name {
		case "nil":
			return hkVal{k: "nil", goRes: -1}
		case "true", "false":
			return hkVal{s: x.Name, k: "bool", goRes: -1}
		}
		if v, d := g.lookup(x.Name); d >= 0 {
			if v.dead {
				g.fail(e, "%s is used during or after a range over it (aliasing of its elements is not modelled)", x.Name)
			}
			return hkVal{s: v.lean, k: v.k, goRes: -1}
		}
		g.fail(e, "identifier %s", x.Name)
	case *ast.SelectorExpr:
		p := hkPath(x)
		switch {
		case hkPath(x.X) == "bhserrors" && strings.HasPrefix(x.Sel.Name, "Err"):
			return hkVal{s: "(some (GoErr.bhs " + leanStr(x.Sel.Name) + "))", k: "err", goRes: -1}
		case p == "http.StatusOK":
			return hkVal{s: "(200 : Nat)", k: "int", goRes: -1}
		case p == "http.MethodPost":
			return hkVal{s: `"POST"`, k: "str", goRes: -1}
		case g.recv != "" && g.fn.recv == "WebhooksService" && p == g.recv+".cfg.MaxTries":
			return hkVal{s: "env.cfg.maxTries", k: "int", goRes: -1}
		case g.recv != "" && g.fn.recv == "WebhooksService" && p == g.recv+".client":
			return hkVal{k: "client", goRes: -1}
		}
		return g.field(g.expr(x.X), x.Sel.Name, e)
	case *ast.StarExpr:
		v := g.expr(x.X)
		if v.k == "rowp" || v.k == "hookp" {
			return hkVal{s: "(← deref " + v.s + ")", k: hkPtrOf[v.k], m: true, goRes: -1}
		}
		g.fail(e, "dereference of a value of kind %s", v.k)
	case *ast.UnaryExpr:
		switch x.Op {
		case token.NOT:
			v := g.want(x.X, "bool")
			return hkVal{s: "(!" + v.s + ")", k: "bool", m: v.m, goRes: -1}
		case token.AND:
			if cl, ok := x.X.(*ast.CompositeLit); ok { // &T{…}: a fresh, non-nil struct
				return g.composite(cl)
			}
			if id, ok := x.X.(*ast.Ident); ok { // &x of a scanned struct variable: a non-nil pointer to (a copy of) it
				v := g.expr(id)
				if v.k == "row" {
					g.copied[id.Name] = true
					return hkVal{s: "(some " + v.s + ")", k: "rowp", goRes: -1}
				}
			}
		}
		g.fail(e, "unary %s of this operand", x.Op)
	case *ast.CompositeLit:
		if mt, ok := x.Type.(*ast.MapType); ok {
			vt := types.ExprString(mt.Value)
			if types.ExprString(mt.Key) != "string" || (vt != "string" && vt != "interface{}" && vt != "any") {
				g.fail(e, "map type %s", types.ExprString(x.Type))
			}
			var parts []string
			m := false
			seen := map[string]bool{}
			for _, el := range x.Elts {
				kv := el.(*ast.KeyValueExpr)
				key, ok := kv.Key.(*ast.BasicLit)
				if !ok || key.Kind != token.STRING || seen[key.Value] {
					g.fail(kv, "map literal key")
				}
				seen[key.Value] = true
				v := g.want(kv.Value, "str")
				m = m || v.m
				parts = append(parts, "("+hkStr(key.Value)+", "+v.s+")")
			}
			return hkVal{s: "[" + strings.Join(parts, ", ") + "]", k: "hdrs", m: m, goRes: -1}
		}
	case *ast.BinaryExpr:
		return g.binary(x)
	case *ast.CallExpr:
		return g.call(x)
	}
	g.fail(e, "expression")
	return hkVal{}
}

// &Webhook{…} / &notification.Webhook{…} / &DbWebhook{…}
func (g *hkGen) composite(x *ast.CompositeLit) hkVal {
	tn := types.ExprString(x.Type)
	tn = strings.TrimPrefix(strings.TrimPrefix(tn, "notification."), "dto.")
	k, ok := hkLitTy[tn]
	if !ok {
		g.fail(x, "composite literal of type %s", types.ExprString(x.Type))
	}
	given := map[string]string{}
	m := false
	for _, el := range x.Elts {
		kv, ok := el.(*ast.KeyValueExpr)
		if !ok {
			g.fail(el, "positional composite literal")
		}
		fn := hkPath(kv.Key)
		if hkSkippedFields[fn] { // SKIP LIST: CreatedAt — the value must be free of effects
			if c, ok := kv.Value.(*ast.CallExpr); ok && hkPath(c.Fun) == "time.Now" && len(c.Args) == 0 {
				continue
			}
			if s, ok := kv.Value.(*ast.SelectorExpr); ok && hkSkippedFields[s.Sel.Name] {
				if _, ok := s.X.(*ast.Ident); ok {
					continue
				}
			}
			g.fail(kv, "value of the skipped field %s", fn)
		}
		f, ok := hkFields[k][fn]
		if !ok {
			g.fail(kv, "field %s of %s (not in the field table)", fn, tn)
		}
		if _, dup := given[fn]; dup {
			g.fail(kv, "field %s given twice", fn)
		}
		v := g.want(kv.Value, f.k)
		given[fn], m = v.s, m || v.m
	}
	var parts []string
	for _, fn := range hkFieldOrder[k] {
		f := hkFields[k][fn]
		v, ok := given[fn]
		if !ok {
			v = hkZero(f.k)
		}
		parts = append(parts, f.lean+" := "+v)
	}
	ptr := map[hkKind]hkKind{"hook": "hookp", "row": "rowp"}[k]
	return hkVal{s: "(some ({ " + strings.Join(parts, ", ") + " } : " + hkLeanTy[k] + "))", k: ptr, m: m, goRes: -1}
}

func (g *hkGen) binary(x *ast.BinaryExpr) hkVal {
	switch x.Op {
	case token.LAND, token.LOR:
		l, r := g.want(x.X, "bool"), g.want(x.Y, "bool")
		if r.m { // short-circuit over an operand that can fault
			if x.Op == token.LAND {
				return hkVal{s: "(← (if " + l.s + " then (do pure " + r.s + ") else pure false))", k: "bool", m: true, goRes: -1}
			}
			return hkVal{s: "(← (if " + l.s + " then pure true else (do pure " + r.s + ")))", k: "bool", m: true, goRes: -1}
		}
		return hkVal{s: "(" + l.s + " " + x.Op.String() + " " + r.s + ")", k: "bool", m: l.m, goRes: -1}
	case token.EQL, token.NEQ:
		l, r := g.expr(x.X), g.expr(x.Y)
		if l.k == "nil" || l.k == "empty" {
			l, r = r, l
		}
		if l.multi != nil || r.multi != nil || l.action || r.action {
			g.fail(x, "comparison of a call with several results")
		}
		if r.k == "nil" {
			if !hkNilable[l.k] {
				g.fail(x, "comparison of a value of kind %s with nil", l.k)
			}
			test := ".isNone"
			if x.Op == token.NEQ {
				test = ".isSome"
			}
			return hkVal{s: l.s + test, k: "bool", m: l.m, goRes: -1}
		}
		rs := r.s
		if r.k == "empty" {
			rs = g.as(r, l.k, x)
		} else if l.k != r.k {
			g.fail(x, "comparison of kinds %s and %s", l.k, r.k)
		}
		if !map[hkKind]bool{"int": true, "str": true, "bool": true, "status": true, "stamp": true}[l.k] {
			g.fail(x, "comparison of values of kind %s", l.k)
		}
		op := "="
		if x.Op == token.NEQ {
			op = "≠"
		}
		return hkVal{s: "decide (" + l.s + " " + op + " " + rs + ")", k: "bool", m: l.m || r.m, goRes: -1}
	case token.LSS, token.LEQ, token.GTR, token.GEQ:
		l, r := g.want(x.X, "int"), g.want(x.Y, "int")
		op := map[token.Token]string{token.LSS: "<", token.LEQ: "≤", token.GTR: ">", token.GEQ: "≥"}[x.Op]
		return hkVal{s: "decide (" + l.s + " " + op + " " + r.s + ")", k: "bool", m: l.m || r.m, goRes: -1}
	case token.ADD:
		l := g.expr(x.X)
		if l.k == "str" || l.k == "empty" {
			a, b := g.want(x.X, "str"), g.want(x.Y, "str")
			return hkVal{s: "(" + a.s + " ++ " + b.s + ")", k: "str", m: a.m || b.m, goRes: -1}
		}
		a, b := g.want(x.X, "int"), g.want(x.Y, "int")
		return hkVal{s: "(" + a.s + " + " + b.s + ")", k: "int", m: a.m || b.m, goRes: -1}
	}
	g.fail(x, "operator %s", x.Op)
	return hkVal{}
}

func (g *hkGen) strLit(e ast.Expr) string {
	bl, ok := e.(*ast.BasicLit)
	if !ok || bl.Kind != token.STRING || !strings.HasPrefix(bl.Value, `"`) {
		g.fail(e, "a string literal is required here")
	}
	return hkStr(bl.Value)
}

// arguments of a skipped call / of the dropped part of a primitive: free of effects
func (g *hkGen) pureArgs(args []ast.Expr) {
	for _, a := range args {
		ast.Inspect(a, func(n ast.Node) bool {
			switch n.(type) {
			case *ast.CallExpr, *ast.FuncLit, *ast.UnaryExpr:
				g.fail(a, "argument of a skipped call that is not side-effect free")
			}
			return true
		})
	}
}

// the SQL constant behind `h.db.Rebind(sqlNAME)` / `sqlNAME`
func (g *hkGen) sqlName(q ast.Expr) (string, ast.Expr) {
	if rc, ok := q.(*ast.CallExpr); ok && g.recv != "" && hkPath(rc.Fun) == g.recv+".db.Rebind" && len(rc.Args) == 1 {
		q = rc.Args[0]
	}
	id, ok := q.(*ast.Ident)
	if !ok {
		g.fail(q, "the SQL statement must be a named constant (or a query made by sqlx.In)")
	}
	return id.Name, q
}

func (g *hkGen) isCtx(e ast.Expr) bool {
	if c, ok := e.(*ast.CallExpr); ok && hkPath(c.Fun) == "context.Background" && len(c.Args) == 0 {
		return true
	}
	if id, ok := e.(*ast.Ident); ok {
		if v, d := g.lookup(id.Name); d >= 0 && v.k == "ctx" {
			return true
		}
	}
	return false
}

func (g *hkGen) call(x *ast.CallExpr) hkVal {
	p := hkPath(x.Fun)
	nargs := len(x.Args)
	if x.Ellipsis.IsValid() && !(strings.HasSuffix(p, ".ExecContext")) {
		g.fail(x, "call with `...`")
	}
	switch {
	case p == "context.Background" && nargs == 0:
		return hkVal{k: "ctx", goRes: 1}
	case p == "time.Now" && nargs == 0:
		return hkVal{s: "(timeNow env)", k: "stamp", goRes: 1}
	case p == "strings.ToLower" && nargs == 1:
		v := g.want(x.Args[0], "str")
		return hkVal{s: "(stringsToLower " + v.s + ")", k: "str", m: v.m, goRes: 1}
	case p == "string" && nargs == 1:
		v := g.expr(x.Args[0])
		if v.k != "bytes" && v.k != "str" {
			g.fail(x, "string(…) of a value of kind %s", v.k)
		}
		return hkVal{s: v.s, k: "str", m: v.m, goRes: 1}
	case p == "fmt.Sprint" && nargs == 1:
		v := g.want(x.Args[0], "err")
		return hkVal{s: "(sprintErr " + v.s + ")", k: "status", m: v.m, goRes: 1}
	case p == "fmt.Sprint" && nargs == 3:
		if bl, ok := x.Args[1].(*ast.BasicLit); !ok || bl.Value != `" "` {
			g.fail(x, "fmt.Sprint: only fmt.Sprint(err) and fmt.Sprint(code, \" \", body) are in the primitive table")
		}
		c, b := g.want(x.Args[0], "int"), g.want(x.Args[2], "str")
		return hkVal{s: "(sprintReply " + c.s + " " + b.s + ")", k: "status", m: c.m || b.m, goRes: 1}
	case p == "io.ReadAll" && nargs == 1:
		v := g.want(x.Args[0], "body")
		return hkVal{s: "(ioReadAll " + v.s + ")", multi: []hkKind{"bytes", "err"}, m: v.m, goRes: 2}
	case (p == "errors.Wrap" && nargs == 2) || (p == "errors.Wrapf" && nargs >= 2):
		v := g.want(x.Args[0], "err")
		g.strLit(x.Args[1])
		g.pureArgs(x.Args[2:])
		return hkVal{s: "(errorsWrap " + v.s + ")", k: "err", m: v.m, goRes: 1}
	case p == "make" && nargs == 2:
		k, ok := hkTypeKind(x.Args[0])
		if bl, isLit := x.Args[1].(*ast.BasicLit); !ok || hkElem[k] == "" || !isLit || bl.Value != "0" {
			g.fail(x, "make other than make([]*T, 0)")
		}
		return hkVal{s: "([] : " + hkLeanTy[k] + ")", k: k, goRes: 1}
	case p == "append" && nargs == 2:
		xs := g.expr(x.Args[0])
		el, ok := hkElem[xs.k]
		if !ok {
			g.fail(x, "append to a value of kind %s", xs.k)
		}
		if id, ok := x.Args[1].(*ast.Ident); ok {
			g.copied[id.Name] = true
		}
		v := g.want(x.Args[1], el)
		return hkVal{s: "(" + xs.s + " ++ [" + v.s + "])", k: xs.k, m: xs.m || v.m, goRes: 1}
	case p == "sqlx.In" && nargs >= 1:
		name, q := g.sqlName(x.Args[0])
		prim, ok := hkSQL[name]
		if !ok || prim.verb != "In" {
			g.fail(q, "SQL constant %s is not in the primitive table for sqlx.In", name)
		}
		if nargs-1 != len(prim.args) {
			g.fail(x, "argument count of %s", name)
		}
		s := "(sqlxIn_" + name
		for i, a := range x.Args[1:] {
			v := g.want(a, prim.args[i])
			s += " " + v.s
		}
		return hkVal{s: s + ")", multi: []hkKind{"query", "upargs", "err"}, goRes: 3}
	}
	sel, ok := x.Fun.(*ast.SelectorExpr)
	if !ok {
		if id, isId := x.Fun.(*ast.Ident); isId { // a plain function of the package being translated
			return g.callFn(g.function(hkPkgOf[g.fn.recv], id.Name, g.argKinds(x.Args), x), "", x)
		}
		g.fail(x, "call %s (not in the primitive table)", p)
	}
	if strings.HasPrefix(p, "bhserrors.Err") && sel.Sel.Name == "Wrap" && nargs == 1 {
		if inner, ok := sel.X.(*ast.SelectorExpr); ok && hkPath(inner.X) == "bhserrors" {
			v := g.want(x.Args[0], "err")
			return hkVal{s: "(bhsWrap " + leanStr(inner.Sel.Name) + " " + v.s + ")", k: "err", m: v.m, goRes: 1}
		}
	}
	if hkPath(sel.X) == "dto" { // dto.ToDbWebhook
		return g.callFn(g.function("dto", sel.Sel.Name, g.argKinds(x.Args), x), "", x)
	}
	root := strings.SplitN(p, ".", 2)[0]
	// the database handle of the SQL layer
	if g.recv != "" && g.fn.recv == "HeadersDb" && hkPath(sel.X) == g.recv+".db" {
		switch sel.Sel.Name {
		case "BeginTxx":
			if nargs != 2 || !g.isCtx(x.Args[0]) || hkPath(x.Args[1]) != "nil" {
				g.fail(x, "BeginTxx arguments")
			}
			return hkVal{s: "dbBeginTxx", multi: []hkKind{"tx", "err"}, m: true, action: true, goRes: 2}
		}
		g.fail(x, "database call %s in this position", p)
	}
	// calls of translated methods along the wiring table
	if root == g.recv && g.recv != "" {
		via := strings.TrimPrefix(strings.TrimPrefix(hkPath(sel.X), g.recv), ".")
		if ty, ok := hkWiring[g.fn.recv][via]; ok {
			if ty == "Webhook" {
				return g.callFn(g.function(ty, sel.Sel.Name, g.argKinds(x.Args), x), g.recv, x)
			}
			return g.callFn(g.function(ty, sel.Sel.Name, g.argKinds(x.Args), x), "", x)
		}
		g.fail(x, "call %s: %q is not in the wiring table of %s", p, via, g.fn.recv)
	}
	// methods of local variables
	if id, ok := sel.X.(*ast.Ident); ok {
		if v, d := g.lookup(id.Name); d >= 0 {
			switch v.k {
			case "hookp":
				return g.callFn(g.function("Webhook", sel.Sel.Name, g.argKinds(x.Args), x), id.Name, x)
			case "rowp":
				return g.callFn(g.function("DbWebhook", sel.Sel.Name, g.argKinds(x.Args), x), "&"+id.Name, x)
			case "client":
				if sel.Sel.Name == "Call" && nargs == 4 {
					h, mth, u := g.want(x.Args[0], "hdrs"), g.want(x.Args[1], "str"), g.want(x.Args[2], "str")
					if ev := g.expr(x.Args[3]); ev.k != "event" {
						g.fail(x.Args[3], "the body of a client call must be the event")
					}
					return hkVal{s: "clientCall env " + h.s + " " + mth.s + " " + u.s, multi: []hkKind{"respp", "err"}, m: true, action: true, goRes: 2}
				}
			case "tx":
				switch {
				case sel.Sel.Name == "Commit" && nargs == 0:
					return hkVal{s: "(← txCommit " + v.lean + ")", k: "err", m: true, goRes: 1}
				case sel.Sel.Name == "NamedExecContext" && nargs == 3 && g.isCtx(x.Args[0]):
					name, q := g.sqlName(x.Args[1])
					prim, ok := hkSQL[name]
					if !ok || prim.verb != "NamedExecContext" {
						g.fail(q, "SQL constant %s is not in the primitive table for NamedExecContext", name)
					}
					a := g.want(x.Args[2], prim.args[0])
					return hkVal{s: "txNamedExec_" + name + " " + v.lean + " " + a.s, multi: []hkKind{"unit", "err"}, m: true, action: true, goRes: 2}
				case sel.Sel.Name == "ExecContext" && nargs == 3 && g.isCtx(x.Args[0]) && x.Ellipsis.IsValid():
					_, q := g.sqlName(x.Args[1])
					qv, av := g.want(q, "query"), g.want(x.Args[2], "upargs")
					return hkVal{s: "txExec " + v.lean + " " + qv.s + " " + av.s, multi: []hkKind{"unit", "err"}, m: true, action: true, goRes: 2}
				}
			}
		}
	}
	g.fail(x, "call %s (not in the primitive table)", p)
	return hkVal{}
}

// kinds of the non-dropped arguments, for the inference of string parameters (no text is produced here)
func (g *hkGen) argKinds(args []ast.Expr) []hkKind {
	var ks []hkKind
	saveM, saveC, saveT := g.mutated, g.copied, g.tmp
	g.mutated, g.copied = map[string]ast.Node{}, map[string]bool{}
	for _, a := range args {
		ks = append(ks, g.expr(a).k)
	}
	g.mutated, g.copied, g.tmp = saveM, saveC, saveT
	return ks
}

// a call of the translated function fn; thread = Go name of the *Webhook variable it rebinds, "&x" = a read-only pointer receiver
func (g *hkGen) callFn(fn *hkFn, recvArg string, x *ast.CallExpr) hkVal {
	args := []string{"env"}
	thread := ""
	if fn.threaded {
		v, d := g.lookup(recvArg)
		if d < 0 || v.k != "hookp" {
			g.fail(x, "receiver of %s", fn.lean)
		}
		if v.param {
			g.fail(x, "call of the mutating method %s on a pointer parameter (aliasing is not modelled)", fn.name)
		}
		g.mutated[recvArg] = x
		args = append(args, v.lean)
		thread = recvArg
	} else if strings.HasPrefix(recvArg, "&") {
		v, _ := g.lookup(recvArg[1:])
		args = append(args, v.lean)
	}
	i := 0
	for _, a := range x.Args {
		v := g.expr(a)
		if hkDropped[v.k] {
			continue
		}
		if i >= len(fn.params) {
			g.fail(x, "too many arguments for %s", fn.lean)
		}
		args = append(args, g.as(v, fn.params[i], a))
		i++
	}
	if i != len(fn.params) {
		g.fail(x, "argument count of %s", fn.lean)
	}
	res := fn.results
	if fn.threaded {
		res = append([]hkKind{"hookp"}, fn.results...)
	}
	return hkVal{s: fn.lean + " " + strings.Join(args, " "), multi: res, m: true, action: true, thread: thread, goRes: len(fn.results)}
}

// ---------- statements ----------

func (g *hkGen) block(list []ast.Stmt, ind int, k hkCont) string {
	if len(list) == 0 {
		return k(ind)
	}
	return g.stmt(list[0], ind, func(ind2 int) string { return g.block(list[1:], ind2, k) })
}

// a nested block with its own scope; the continuation runs in the scopes outside of it
func (g *hkGen) scoped(list []ast.Stmt, ind int, k hkCont) string {
	outer := len(g.scopes)
	g.push()
	s := g.block(list, ind, func(ind2 int) string { return g.outside(outer, func() string { return k(ind2) }) })
	g.scopes = g.scopes[:outer]
	return s
}

// run f with the innermost `depth` scopes only (on a copy: what f declares does not leak into sibling branches)
func (g *hkGen) outside(depth int, f func() string) string {
	saved := g.scopes
	g.scopes = nil
	for _, m := range saved[:depth] {
		c := map[string]*hkVar{}
		for k, v := range m {
			cv := *v
			c[k] = &cv
		}
		g.scopes = append(g.scopes, c)
	}
	s := f()
	g.scopes = saved
	return s
}

// <recv>.db.GetContext|SelectContext(ctx, &dest, SQL, args…)
func (g *hkGen) dbRead(e ast.Expr) (string, string, bool) {
	c, ok := e.(*ast.CallExpr)
	if !ok {
		return "", "", false
	}
	sel, ok := c.Fun.(*ast.SelectorExpr)
	if !ok || g.recv == "" || g.fn.recv != "HeadersDb" || hkPath(sel.X) != g.recv+".db" || (sel.Sel.Name != "GetContext" && sel.Sel.Name != "SelectContext") {
		return "", "", false
	}
	if len(c.Args) < 3 || !g.isCtx(c.Args[0]) {
		g.fail(c, "database call")
	}
	name, q := g.sqlName(c.Args[2])
	prim, ok := hkSQL[name]
	if !ok {
		g.fail(q, "SQL constant %s is not in the primitive table", name)
	}
	if prim.verb != sel.Sel.Name {
		g.fail(c, "db.%s with %s (the primitive table has %s)", sel.Sel.Name, name, prim.verb)
	}
	amp, ok := c.Args[1].(*ast.UnaryExpr)
	if !ok || amp.Op != token.AND {
		g.fail(c.Args[1], "destination of a database call")
	}
	dest, ok := amp.X.(*ast.Ident)
	if !ok {
		g.fail(c.Args[1], "destination of a database call")
	}
	dv, d := g.lookup(dest.Name)
	if d < 0 || dv.k != prim.dest {
		g.fail(c.Args[1], "destination %s, %s expects a value of kind %s", dest.Name, name, prim.dest)
	}
	if g.copied[dest.Name] {
		g.fail(c.Args[1], "scan into %s after its address was taken", dest.Name)
	}
	if len(c.Args)-3 != len(prim.args) {
		g.fail(c, "argument count of %s", name)
	}
	verb := map[string]string{"GetContext": "Get", "SelectContext": "Select"}[sel.Sel.Name]
	s := "db" + verb + "_" + name + " " + dv.lean
	for i, a := range c.Args[3:] {
		v := g.want(a, prim.args[i])
		s += " " + v.s
	}
	return s, dv.lean, true
}

func (g *hkGen) assign(x *ast.AssignStmt, ind int, k hkCont) string {
	define := x.Tok == token.DEFINE
	if x.Tok != token.ASSIGN && !define {
		g.fail(x, "assignment operator %s", x.Tok)
	}
	if len(x.Rhs) != 1 {
		g.fail(x, "assignment shape")
	}
	if len(x.Lhs) == 1 {
		if call, dest, ok := g.dbRead(x.Rhs[0]); ok {
			e := g.bind(x.Lhs[0], "err", define)
			return hkPad(ind) + "let (" + dest + ", " + e + ") ← " + call + "\n" + k(ind)
		}
		if _, isId := x.Lhs[0].(*ast.Ident); !isId {
			return g.pathAssign(x, ind, k)
		}
	}
	v := g.expr(x.Rhs[0])
	if v.multi == nil { // one value
		if len(x.Lhs) != 1 || hkDropped[v.k] {
			g.fail(x, "assignment shape")
		}
		if id, ok := x.Rhs[0].(*ast.Ident); ok && hkPtrOf[v.k] != "" {
			g.copied[id.Name] = true
		}
		if v.k == "nil" || v.k == "empty" {
			old, d := g.lookup(hkPath(x.Lhs[0]))
			if define || d < 0 {
				g.fail(x, "`:=` of an untyped nil / empty string")
			}
			v = hkVal{s: g.as(v, old.k, x), k: old.k}
		}
		n := g.bind(x.Lhs[0], v.k, define)
		return hkPad(ind) + "let " + n + " := " + v.s + "\n" + k(ind)
	}
	// a call with a result list (the threaded receiver comes first)
	var names []string
	kinds := v.multi
	if v.thread != "" {
		rv, _ := g.lookup(v.thread)
		names = append(names, rv.lean)
		kinds = kinds[1:]
	}
	if len(kinds) != len(x.Lhs) {
		g.fail(x, "assignment shape")
	}
	for i, l := range x.Lhs {
		names = append(names, g.bind(l, kinds[i], define))
	}
	lhs := names[0]
	if len(names) > 1 {
		lhs = "(" + strings.Join(names, ", ") + ")"
	}
	arrow := ":="
	if v.action {
		arrow = "←"
	}
	return hkPad(ind) + "let " + lhs + " " + arrow + " " + v.s + "\n" + k(ind)
}

// p.F = e   and   m[k] = v
func (g *hkGen) pathAssign(x *ast.AssignStmt, ind int, k hkCont) string {
	if x.Tok != token.ASSIGN {
		g.fail(x, "`:=` on a field or an index")
	}
	switch l := x.Lhs[0].(type) {
	case *ast.SelectorExpr:
		root, ok := l.X.(*ast.Ident)
		if !ok {
			g.fail(l, "assignment target")
		}
		rv, d := g.lookup(root.Name)
		if d < 0 || rv.k != "hookp" {
			g.fail(l, "field assignment on %s (only a *Webhook can be assigned through)", root.Name)
		}
		if rv.param {
			g.fail(l, "field assignment through the pointer parameter %s (aliasing is not modelled)", root.Name)
		}
		f, ok := hkFields["hook"][l.Sel.Name]
		if !ok {
			g.fail(l, "field %s is not in the field table", l.Sel.Name)
		}
		v := g.want(x.Rhs[0], f.k)
		g.mutated[root.Name] = x
		tmp := g.fresh("v")
		out := hkPad(ind) + "let " + tmp + " := " + v.s + "\n"
		out += hkPad(ind) + "let " + rv.lean + " ← setField " + rv.lean + " (fun x_ => { x_ with " + f.lean + " := " + tmp + " })\n"
		return out + k(ind)
	case *ast.IndexExpr:
		root, ok := l.X.(*ast.Ident)
		if !ok {
			g.fail(l, "assignment target")
		}
		rv, d := g.lookup(root.Name)
		if d < 0 || rv.k != "hdrs" || rv.param {
			g.fail(l, "index assignment on %s (only a local map)", root.Name)
		}
		key, val := g.want(l.Index, "str"), g.want(x.Rhs[0], "str")
		return hkPad(ind) + "let " + rv.lean + " := mapSet " + rv.lean + " " + key.s + " " + val.s + "\n" + k(ind)
	}
	g.fail(x.Lhs[0], "assignment target")
	return ""
}

func (g *hkGen) stmt(s ast.Stmt, ind int, k hkCont) string {
	switch x := s.(type) {
	case *ast.ReturnStmt:
		if len(g.loopK) > 0 {
			g.fail(s, "return inside a range loop")
		}
		return g.ret(x, ind)
	case *ast.AssignStmt:
		return g.assign(x, ind, k)
	case *ast.IfStmt:
		return g.ifStmt(x, ind, k)
	case *ast.RangeStmt:
		return g.rangeStmt(x, ind, k)
	case *ast.BlockStmt:
		return g.scoped(x.List, ind, k)
	case *ast.BranchStmt:
		if x.Label == nil && len(g.loopK) > 0 {
			switch x.Tok {
			case token.CONTINUE:
				return g.loopK[len(g.loopK)-1].next(ind)
			case token.BREAK:
				return g.loopK[len(g.loopK)-1].brk(ind)
			}
		}
		g.fail(s, "%s", x.Tok)
	case *ast.DeclStmt:
		gd, ok := x.Decl.(*ast.GenDecl)
		if !ok || gd.Tok != token.VAR {
			g.fail(s, "declaration")
		}
		out := ""
		for _, sp := range gd.Specs {
			vs := sp.(*ast.ValueSpec)
			if vs.Type == nil || len(vs.Values) != 0 {
				g.fail(s, "var declaration other than an uninitialised scan target")
			}
			kd, ok := hkTypeKind(vs.Type)
			zero := map[hkKind]string{"row": "zeroRow", "rowps": "[]"}[kd]
			if !ok || zero == "" {
				g.fail(s, "var declaration other than an uninitialised scan target (dto.DbWebhook, []*dto.DbWebhook)")
			}
			for _, n := range vs.Names {
				if _, d := g.lookup(n.Name); d == len(g.scopes)-1 {
					g.fail(n, "redeclaration of %s", n.Name)
				}
				out += hkPad(ind) + "let " + g.declare(n.Name, kd, false) + " : " + hkLeanTy[kd] + " := " + zero + "\n"
			}
		}
		return out + k(ind)
	case *ast.DeferStmt:
		p := hkPath(x.Call.Fun)
		// SKIP LIST: defer res.Body.Close()
		if parts := strings.Split(p, "."); len(parts) == 3 && parts[1] == "Body" && parts[2] == "Close" && len(x.Call.Args) == 0 {
			if v, d := g.lookup(parts[0]); d >= 0 && v.k == "respp" {
				return k(ind)
			}
		}
		// EFFECT: defer func() { _ = tx.Rollback() }()
		if fl, ok := x.Call.Fun.(*ast.FuncLit); ok && len(x.Call.Args) == 0 && len(fl.Type.Params.List) == 0 && len(fl.Body.List) == 1 {
			if as, ok := fl.Body.List[0].(*ast.AssignStmt); ok && as.Tok == token.ASSIGN && len(as.Lhs) == 1 && hkPath(as.Lhs[0]) == "_" && len(as.Rhs) == 1 {
				if c, ok := as.Rhs[0].(*ast.CallExpr); ok && len(c.Args) == 0 {
					if parts := strings.Split(hkPath(c.Fun), "."); len(parts) == 2 && parts[1] == "Rollback" {
						if v, d := g.lookup(parts[0]); d >= 0 && v.k == "tx" {
							if len(g.loopK) > 0 {
								g.fail(s, "defer inside a range loop")
							}
							return hkPad(ind) + "txDeferRollback " + v.lean + " (do\n" + k(ind+1) + ")"
						}
					}
				}
			}
		}
		g.fail(s, "defer other than `defer res.Body.Close()` and `defer func() { _ = tx.Rollback() }()`")
	case *ast.ExprStmt:
		c, ok := x.X.(*ast.CallExpr)
		if !ok {
			g.fail(s, "expression statement")
		}
		p := hkPath(c.Fun)
		if hkLogRe.MatchString(p) && g.recv != "" && strings.HasPrefix(p, g.recv+".") { // SKIP LIST: logging
			g.pureArgs(c.Args)
			return k(ind)
		}
		v := g.expr(c)
		if !v.action || v.goRes != 0 {
			g.fail(s, "call %s as a statement (only calls of translated functions without results)", p)
		}
		if v.thread != "" {
			rv, _ := g.lookup(v.thread)
			return hkPad(ind) + "let " + rv.lean + " ← " + v.s + "\n" + k(ind)
		}
		return hkPad(ind) + v.s + "\n" + k(ind)
	}
	g.fail(s, "statement %T", s)
	return ""
}

func (g *hkGen) retTuple(parts []string) string {
	if g.fn.threaded {
		rv, _ := g.lookup(g.recv)
		parts = append([]string{rv.lean}, parts...)
	}
	switch len(parts) {
	case 0:
		return "pure ()"
	case 1:
		return "pure " + parts[0]
	}
	return "pure (" + strings.Join(parts, ", ") + ")"
}

func (g *hkGen) ret(x *ast.ReturnStmt, ind int) string {
	res := g.fn.results
	if len(x.Results) == 1 {
		if c, ok := x.Results[0].(*ast.CallExpr); ok {
			if v := g.expr(c); v.action && v.multi != nil { // return f(…)
				if v.thread != "" || v.goRes != len(res) {
					g.fail(x, "results of the returned call")
				}
				for i := range res {
					if v.multi[i] != res[i] {
						g.fail(x, "result %d of the returned call has kind %s, the function returns %s", i, v.multi[i], res[i])
					}
				}
				if !g.fn.threaded {
					return hkPad(ind) + v.s
				}
				tmp := g.fresh("r")
				rv, _ := g.lookup(g.recv)
				return hkPad(ind) + "let " + tmp + " ← " + v.s + "\n" + hkPad(ind) + "pure (" + rv.lean + ", " + tmp + ")"
			}
		}
	}
	if len(x.Results) != len(res) {
		g.fail(x, "number of results")
	}
	var parts []string
	for i, r := range x.Results {
		if id, ok := r.(*ast.Ident); ok {
			if v, d := g.lookup(id.Name); d >= 0 && v.param && hkPtrOf[v.k] != "" {
				g.fail(r, "a pointer parameter is returned (aliasing is not modelled)")
			}
		}
		parts = append(parts, g.want(r, res[i]).s)
	}
	return hkPad(ind) + g.retTuple(parts)
}

func (g *hkGen) ifStmt(x *ast.IfStmt, ind int, k hkCont) string {
	if x.Init != nil {
		as, ok := x.Init.(*ast.AssignStmt)
		if !ok {
			g.fail(x.Init, "if-init statement")
		}
		noInit := *x
		noInit.Init = nil
		outer := len(g.scopes)
		g.push()
		s := g.assign(as, ind, func(ind2 int) string {
			return g.ifStmt(&noInit, ind2, func(ind3 int) string { return g.outside(outer, func() string { return k(ind3) }) })
		})
		g.scopes = g.scopes[:outer]
		return s
	}
	c := g.want(x.Cond, "bool")
	thenS := g.scoped(x.Body.List, ind+1, k)
	var elseS string
	switch e := x.Else.(type) {
	case nil:
		elseS = k(ind + 1)
	case *ast.BlockStmt:
		elseS = g.scoped(e.List, ind+1, k)
	case *ast.IfStmt:
		elseS = g.ifStmt(e, ind+1, k)
	default:
		g.fail(x.Else, "else")
	}
	return hkPad(ind) + "if " + c.s + " then\n" + thenS + "\n" + hkPad(ind) + "else\n" + elseS
}

func (g *hkGen) rangeStmt(x *ast.RangeStmt, ind int, k hkCont) string {
	if x.Tok != token.DEFINE || x.Value == nil || x.Key == nil || hkPath(x.Key) != "_" {
		g.fail(x, "range other than `for _, x := range xs`")
	}
	xsID, ok := x.X.(*ast.Ident)
	if !ok {
		g.fail(x.X, "range over something other than a local slice")
	}
	xs := g.expr(x.X)
	el, ok := hkElem[xs.k]
	if !ok {
		g.fail(x.X, "range over a value of kind %s", xs.k)
	}
	// the loop state: outer variables assigned in the body; no jumps out of the body
	var state []string
	var stateGo []string
	seen := map[string]bool{}
	note := func(e ast.Expr) {
		for {
			if s, ok := e.(*ast.SelectorExpr); ok {
				e = s.X
			} else if s, ok := e.(*ast.IndexExpr); ok {
				e = s.X
			} else {
				break
			}
		}
		if id, ok := e.(*ast.Ident); ok && !seen[id.Name] && id.Name != "_" {
			if v, d := g.lookup(id.Name); d >= 0 {
				seen[id.Name] = true
				state = append(state, v.lean)
				stateGo = append(stateGo, id.Name)
			}
		}
	}
	nested, breaks := false, false
	ast.Inspect(x.Body, func(n ast.Node) bool {
		switch y := n.(type) {
		case *ast.ReturnStmt, *ast.DeferStmt, *ast.GoStmt, *ast.FuncLit, *ast.LabeledStmt, *ast.IncDecStmt, *ast.ForStmt, *ast.SwitchStmt, *ast.SelectStmt:
			g.fail(n, "%T inside a range loop", n)
		case *ast.RangeStmt:
			if y != x {
				nested = true
			}
		case *ast.BranchStmt:
			if (y.Tok != token.CONTINUE && y.Tok != token.BREAK) || y.Label != nil {
				g.fail(n, "%s inside a range loop", y.Tok)
			}
			if y.Tok == token.BREAK {
				breaks = true
			}
		case *ast.AssignStmt:
			for _, l := range y.Lhs {
				if y.Tok == token.ASSIGN { // a `:=` in the body declares a variable of the body
					note(l)
				}
			}
		case *ast.CallExpr: // x.M(…) on an outer *Webhook: the call rebinds x
			if sel, ok := y.Fun.(*ast.SelectorExpr); ok {
				if id, ok := sel.X.(*ast.Ident); ok {
					if v, d := g.lookup(id.Name); d >= 0 && v.k == "hookp" {
						note(id)
					}
				}
			}
		}
		return true
	})
	tup, pat := "()", "_"
	if len(state) == 1 {
		tup, pat = state[0], state[0]
	} else if len(state) > 1 {
		tup = "(" + strings.Join(state, ", ") + ")"
		pat = tup
	}
	for _, n := range stateGo {
		if n == xsID.Name {
			g.fail(x, "the slice %s is assigned inside the range over it", n)
		}
	}
	outer := len(g.scopes)
	xsVar, _ := g.lookup(xsID.Name)
	if hkPtrOf[el] != "" && el == "hookp" {
		xsVar.dead = true // its elements may be mutated through the loop variable: no later use
	}
	g.push()
	xN := g.bind(x.Value, el, true)
	if breaks && nested {
		g.fail(x, "break in a range loop that contains another range loop")
	}
	loopFn := "forRange"
	done := func(ind2 int) string { return hkPad(ind2) + "pure " + tup }
	brk := done
	if breaks { // the body answers whether the loop goes on
		loopFn = "forRangeBrk"
		done = func(ind2 int) string { return hkPad(ind2) + "pure (true, " + tup + ")" }
		brk = func(ind2 int) string { return hkPad(ind2) + "pure (false, " + tup + ")" }
	}
	g.loopK = append(g.loopK, hkLoop{done, brk})
	body := g.scoped(x.Body.List, ind+1, done)
	g.loopK = g.loopK[:len(g.loopK)-1]
	g.scopes = g.scopes[:outer]
	head := "let " + tup + " ← "
	if len(state) == 0 {
		head = ""
	}
	return hkPad(ind) + head + loopFn + " " + xs.s + " " + tup + " (fun " + xN + " " + pat + " => do\n" + body + ")\n" + k(ind)
}

// ---------- functions ----------

func (g *hkGen) function(recvTy, name string, argKinds []hkKind, at ast.Node) *hkFn {
	key := recvTy + "." + name
	if fn, ok := g.fns[key]; ok {
		if fn.state == 1 {
			g.fail(at, "recursion through %s", key)
		}
		// every call site must agree with the kinds the string parameters were given
		if argKinds != nil {
			i := 0
			for _, k := range argKinds {
				if hkDropped[k] {
					continue
				}
				if i < len(fn.params) && (k == "status") != (fn.params[i] == "status") && k != "empty" {
					g.fail(at, "argument %d of %s: a status line at one call site, an ordinary string at another", i+1, key)
				}
				i++
			}
		}
		return fn
	}
	rel, ok := hkTypeFile[recvTy]
	if !ok {
		g.fail(at, "type or package %q is not in the file table", recvTy)
	}
	f := g.load(rel)
	plain := recvTy == "notification" || recvTy == "dto"
	var decl *ast.FuncDecl
	for _, d := range f.ast.Decls {
		fd, ok := d.(*ast.FuncDecl)
		if !ok || fd.Name.Name != name {
			continue
		}
		if plain && fd.Recv == nil {
			decl = fd
		}
		if !plain && fd.Recv != nil && len(fd.Recv.List) == 1 && types.ExprString(fd.Recv.List[0].Type) == "*"+recvTy {
			decl = fd
		}
	}
	if decl == nil || decl.Body == nil {
		msg := fmt.Sprintf("function %s.%s not found in %s", recvTy, name, rel)
		if at != nil {
			g.fail(at, "%s", msg)
		}
		panic(hkErr{f.path + ": unsupported: " + msg})
	}
	fn := &hkFn{recv: recvTy, name: name, lean: recvTy + "_" + name, decl: decl, file: f, state: 1, threaded: recvTy == "Webhook"}
	g.fns[key] = fn
	// save and reset the per-function state (callees are translated on demand, in the middle of the caller)
	sFn, sRecv, sScopes, sTmp, sMut, sCop, sLoop := g.fn, g.recv, g.scopes, g.tmp, g.mutated, g.copied, g.loopK
	g.fn, g.scopes, g.tmp, g.mutated, g.copied, g.loopK = fn, []map[string]*hkVar{{}}, 0, map[string]ast.Node{}, map[string]bool{}, nil
	g.recv = ""
	sig := "def " + fn.lean + " (env : Env)"
	if !plain && len(decl.Recv.List[0].Names) == 1 {
		g.recv = decl.Recv.List[0].Names[0].Name
		switch recvTy {
		case "Webhook":
			sig += " (" + g.declare(g.recv, "hookp", false) + " : " + hkLeanTy["hookp"] + ")"
		case "DbWebhook":
			sig += " (" + g.declare(g.recv, "rowp", true) + " : " + hkLeanTy["rowp"] + ")"
		}
	} else if recvTy == "Webhook" || recvTy == "DbWebhook" {
		g.fail(decl, "unnamed receiver")
	}
	ai := 0
	for _, p := range decl.Type.Params.List {
		kd, ok := hkTypeKind(p.Type)
		if !ok {
			g.fail(p, "parameter type %s", types.ExprString(p.Type))
		}
		if len(p.Names) == 0 {
			g.fail(p, "unnamed parameter")
		}
		for _, n := range p.Names {
			pk := kd
			if argKinds != nil && ai < len(argKinds) {
				if kd == "str" && argKinds[ai] == "status" {
					pk = "status" // a string parameter that carries a LastEmitStatus
				}
				ai++
			}
			if hkDropped[pk] {
				if n.Name != "_" {
					g.scopes[0][n.Name] = &hkVar{lean: "", k: pk, param: true}
				}
				continue
			}
			fn.params = append(fn.params, pk)
			if n.Name == "_" {
				sig += " (_ : " + hkLeanTy[pk] + ")"
				continue
			}
			sig += " (" + g.declare(n.Name, pk, true) + " : " + hkLeanTy[pk] + ")"
		}
	}
	if decl.Type.Results != nil {
		for _, r := range decl.Type.Results.List {
			kd, ok := hkTypeKind(r.Type)
			if !ok || hkDropped[kd] || len(r.Names) != 0 {
				g.fail(r, "result type %s", types.ExprString(r.Type))
			}
			fn.results = append(fn.results, kd)
		}
	}
	var resTy []string
	if fn.threaded {
		resTy = append(resTy, hkLeanTy["hookp"])
	}
	for _, r := range fn.results {
		resTy = append(resTy, hkLeanTy[r])
	}
	if len(resTy) == 0 {
		resTy = []string{"Unit"}
	}
	sig += " : HookM (" + strings.Join(resTy, " × ") + ") := do\n"
	g.push() // the body is a scope of its own: a `:=` may shadow a parameter
	body := g.block(decl.Body.List, 1, func(ind int) string {
		if len(fn.results) != 0 {
			g.fail(decl, "missing return at the end of %s", name)
		}
		return hkPad(ind) + g.retTuple(nil)
	})
	for n, at := range g.mutated {
		if g.copied[n] {
			g.fail(at, "the pointer %s is both copied and mutated in %s (aliasing is not modelled)", n, name)
		}
	}
	goSig := strings.Join(strings.Fields(string(f.src[g.fset.Position(decl.Pos()).Offset:g.fset.Position(decl.Body.Lbrace).Offset])), " ")
	fn.text = "/-- " + rel + ": " + goSig + " -/\n" + sig + body + "\n"
	fn.state = 2
	g.order = append(g.order, fn)
	g.fn, g.recv, g.scopes, g.tmp, g.mutated, g.copied, g.loopK = sFn, sRecv, sScopes, sTmp, sMut, sCop, sLoop
	return fn
}

func genHookSvc() (res string, err error) {
	defer func() {
		if r := recover(); r != nil {
			if e, ok := r.(hkErr); ok {
				res, err = "", fmt.Errorf("%s", e.msg)
				return
			}
			panic(r)
		}
	}()
	g := &hkGen{fset: token.NewFileSet(), files: map[string]*hkFile{}, fns: map[string]*hkFn{}, mutated: map[string]ast.Node{}, copied: map[string]bool{}}
	g.checkStructs()
	for _, entry := range []string{"CreateWebhook", "DeleteWebhook", "Notify", "GetWebhookByURL"} {
		g.function("WebhooksService", entry, nil, nil)
	}
	var b strings.Builder
	b.WriteString(genHeader)
	b.WriteString("-- the webhook code of C12 (service, Webhook.Notify, repository, DTO mapping, SQL layer) translated by harness/cmd/extract/gen_hooksvc.go\n")
	b.WriteString("-- (subset, primitive table, effect and skip lists: see its header)\n")
	b.WriteString("import BHS.Model.HookSvcPrim\n\nset_option linter.unusedVariables false\n\nnamespace BHS.Gen.HookSvc\nopen BHS.Model.Hooks BHS.HookSvcPrim\n\n")
	for _, fn := range g.order {
		b.WriteString(fn.text + "\n")
	}
	b.WriteString("end BHS.Gen.HookSvc\n")
	return b.String(), nil
}
