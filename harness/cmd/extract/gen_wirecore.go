package main

// Gen.WireCore (C14): the byte-level core of /repo/internal/wire TRANSLATED statement by statement into Lean —
//   common.go      ReadVarInt, WriteVarInt, VarIntSerializeSize, ReadVarString, ReadVarBytes
//   message.go     maxMessagePayload, readMessageHeader (+ struct messageHeader), ReadMessageWithEncodingN,
//                  WriteMessageWithEncodingN
//   netaddress.go  maxNetAddressPayload
//   msg*.go, protoconf.go   MaxPayloadLength of every type of makeEmptyMessage's table that the model covers
//                  (the types of wireTypes in gen_wireconsts.go; the others are the explicit `none` rows)
// Refinement theorems generated = hand model (BHS.Wire): lean/BHS/Props/WireCoreGen.lean.
//
// Three kinds of function.  No io.Reader / io.Writer parameter: a pure Lean term (uintN = Nat; `+` and `*` with a
// non-constant operand wrap as the Go type does: BHS.wrap bits).  An io.Reader parameter: a `do` block in the hand
// model's reader monad `Rd` (byte list in, allocation meter + value + rest or an error out).  An io.Writer
// parameter: a `do` block in `Except Err`; every writer (the parameter, bytes.Buffer locals) is a byte list that
// grows by `++`, the result is the parameter's final value.
//
// Statement subset (continuation style: what follows a statement is translated inside the branch it runs in; a branch
// that falls through gets a copy of the statements after the `if` / `switch`).
//   x := e   x = e   var x T   x += e   f.g = e         -> let x := …   (a field: let hdr := { hdr with g := … })
//   if c { … } [else { … } | else if …]                   -> if c then … else …        (no initialiser)
//   switch x { case K…: … default: … }  (no fallthrough) -> if x = K ∨ … then … else if … else …
//   return …                                              -> the value / pure … / Rd.fail … / .error …
//   v, err := <reader primitive or translated function>(r, …) ; if err != nil { return …, err }
//                                                         -> let v ← …     (bind = exactly that propagation; the
//       `if` must follow immediately, return `err` itself and nothing else may happen in it; otherwise refused;
//       values returned NEXT TO a non-nil error are not modelled, as in the hand model: an error carries no value)
//   the same on a bytes.Reader / bytes.Buffer local s      -> let (v, s) ← subRd s (…)
//   msg, err := makeEmptyMessage(c) ; if err != nil { B } -> match lookupCmd c with | none => B | some msg => …
//   err := <writer primitive>(w, …)                       -> let w := w ++ …; `err` is then statically nil: a following
//       `if err != nil {…}` is dead code and dropped, `return …, err` is success (in-memory writes cannot fail)
//   copy(x[:], e)   discardInput(r, n)   make([]byte, n)   -> let x := goCopy x e / discard n / Rd.alloc n
// Expression subset: literals, locals, parameters, struct fields of messageHeader, package constants (by the Lean
//   name of the regenerated BHS.Gen constant, else their defining expression inline), ( ), conversions (widening =
//   identity, narrowing = % 2^bits), len, + * / on integers, == != < <= > >=, ! && ||, x[:], x[a:b], &x, and
//   the calls of the primitive table.  Conditions are Lean propositions.
// Primitive table (meaning in lean/BHS/Model/WirePrim.lean and the integer layer of lean/BHS/Model/Wire.lean):
//   binarySerializer.Uint8/16/32/64(r[, order])   get8 get16le get32le get64le get16be   (free-list plumbing not modelled)
//   binarySerializer.PutUint8/16/32/64(w, …)      put8 put16le put32le put64le put16be
//   io.ReadFull(r, buf)                           getBytes (len buf)      io.EOF = io.ErrUnexpectedEOF = Err.eof
//   readElements(r, &a, …) / writeElements(w, a, …)   one primitive per operand, READ OFF the `case *T:` / `case T:`
//       clause of readElement / writeElement for the operand's static type (clause must have the plain shape
//       `rv, err := binarySerializer.UintN(r, order); if err…; *e = T(rv); return nil` resp. io.ReadFull / w.Write)
//   w.Write(x), bw.Bytes(), bytes.NewBuffer/NewReader   `++`, the list itself
//   maxMessagePayload()      the parameter gmax (its own body is translated too, as a function of the global `ebs`)
//   makeEmptyMessage(c)      lookupCmd c over the regenerated command table (BHS.Gen.WireC.commandTable)
//   msg.MaxPayloadLength(pver)   the table `maxPayloadLength` generated here (none = type outside the model = Err.unmodelled)
//   msg.Command(), msg.BsvEncode, msg.Bsvdecode   Msg.command, encodePayload, decodeRd of the hand model (payload codecs
//       are NOT translated); Bsvdecode fills its receiver: `msg` is rebound to the decoded value
//   chainhash.DoubleHashB(x)   H (H x), H a parameter (any function; SHA-256 in the driver)
//   utf8.ValidString(c)      U c = true, U a parameter
//   bytes.Equal, bytes.TrimRight, bytes.Trim, copy, discardInput, make    =, trimRight, trimBoth, goCopy, discard, Rd.alloc
//   messageError(fn, text)   the hand model's Err constructor found from (fn, text) by wcErrTable — the same
//       vocabulary as c14Class in harness/cmd/drive/c14.go; fmt.Sprintf / err.Error() only feed that text
// Deliberately dropped (explicit allow-lists below): the byte counters `totalBytes` and `n` (wcDropVars) and the
//   int results that carry them, parameters of type MessageEncoding (ignored by every codec), fmt.Println (wcSkipCalls).
// Anything else: `file:line: unsupported: …`, the module is replaced by an empty one and the obligations break.

import (
	"fmt"
	"go/ast"
	"go/parser"
	"go/token"
	"os"
	"path/filepath"
	"sort"
	"strconv"
	"strings"
)

func init() { register("WireCore", genWireCore) }

var wcDropVars = map[string]bool{"totalBytes": true, "n": true}
var wcSkipCalls = map[string]bool{"fmt.Println": true}

// Go constant -> Lean name of the regenerated constant (BHS.Gen / BHS.Gen.WireC) or a numeral
var wcConstLean = map[string]string{
	"MaxVarIntPayload": "maxVarIntPayload", "MessageHeaderSize": "messageHeaderSize", "CommandSize": "commandSize",
	"MaxAddrPerMsg": "maxAddrPerMsg", "MaxInvPerMsg": "maxInvPerMsg", "MaxBlockHeadersPerMsg": "maxBlockHeadersPerMsg",
	"MaxBlockLocatorsPerMsg": "maxBlockLocatorsPerMsg", "MaxUserAgentLen": "maxUserAgentLen",
	"MaxBlockHeaderPayload": "maxBlockHeaderPayload", "MaxProtoconfPayload": "maxProtoconfPayload",
	"MultipleAddressVersion": "multipleAddressVersion", "NetAddressTimeVersion": "netAddressTimeVersion",
	"BIP0031Version": "bip0031Version", "BIP0035Version": "bip0035Version", "BIP0037Version": "bip0037Version",
	"RejectVersion": "rejectVersion", "SendHeadersVersion": "sendHeadersVersion", "FeeFilterVersion": "feeFilterVersion",
	"ProtoconfVerisosn": "protoconfVersion", "ProtocolVersion": "protocolVersion", "chainhash.HashSize": "hashSize",
	"math.MaxUint8": "255", "math.MaxUint16": "65535", "math.MaxUint32": "4294967295",
}

// messageError(fn, text) -> Err constructor; first match wins (mirror of c14Class)
var wcErrTable = []struct{ fn, prefix, contains, kind string }{
	{"ReadVarInt", "", "", "nonCanonical"},
	{"ReadVarString", "", "", "tooLong"},
	{"ReadVarBytes", "", "", "tooLong"},
	{"ReadMessage", "message payload is too large", "", "oversizeGlobal"},
	{"ReadMessage", "message from other network", "", "magic"},
	{"ReadMessage", "invalid command", "", "badCmd"},
	{"ReadMessage", "unhandled command", "", "badCmd"},
	{"ReadMessage", "payload exceeds max length", "", "oversizeType"},
	{"ReadMessage", "payload checksum failed", "", "checksum"},
	{"WriteMessage", "command [", "", "cmdTooLong"},
	{"WriteMessage", "", "maximum message payload size for messages of type", "oversizeType"},
	{"WriteMessage", "", "maximum message payload is", "oversizeGlobal"},
}

var wcLeanKeywords = map[string]bool{"from": true, "end": true, "at": true, "do": true, "then": true, "have": true, "show": true,
	"fun": true, "let": true, "in": true, "match": true, "with": true, "if": true, "else": true, "def": true, "open": true,
	"at_": true, "by": true, "until": true, "where": true, "instance": true, "structure": true, "class": true, "namespace": true}

type wcKind struct {
	k     string // nat bytes bool err nilerr lookuperr hdr msgT msgV reader sub writer unit
	bits  int    // nat: 8/16/32/64 (int = 64); 0 = untyped constant
	cst   bool   // nat: constant expression (the compiler rejects overflow: no wrap-around needed)
	n     string // bytes: Lean expression of the static length ("" = unknown)
	gotyp string // canonical Go type, for the readElement / writeElement dispatch
}

type wcFunc struct {
	lean     string
	mode     string   // pure | rd | wr
	implicit []string // of "U", "H", "gmax", "ebs": extra leading parameters
	keep     []int    // indexes of the Go parameters that are Lean parameters
	result   wcKind   // value of a successful call
}

type wcPkg struct {
	fset   *token.FileSet
	consts map[string]ast.Expr
	types  map[string]ast.Expr
	vars   map[string]ast.Expr
	decls  map[string]*ast.FuncDecl
	funcs  map[string]*wcFunc
	hdr    []struct {
		name string
		kind wcKind
	}
	err error
}

func (p *wcPkg) fail(n ast.Node, msg string) {
	if p.err == nil {
		p.err = fmt.Errorf("%s: unsupported: %s", p.fset.Position(n.Pos()), msg)
	}
}

func wcSel(e ast.Expr) string {
	switch x := e.(type) {
	case *ast.Ident:
		return x.Name
	case *ast.SelectorExpr:
		return wcSel(x.X) + "." + x.Sel.Name
	case *ast.ParenExpr:
		return wcSel(x.X)
	}
	return "?"
}

func wcName(s string) string {
	if wcLeanKeywords[s] {
		return "«" + s + "»"
	}
	return s
}

// constInt evaluates an integer constant expression of the package (array lengths, canonical types)
func (p *wcPkg) constInt(e ast.Expr, depth int) (int64, bool) {
	if depth > 20 {
		return 0, false
	}
	switch x := e.(type) {
	case *ast.BasicLit:
		if x.Kind == token.INT {
			v, err := strconv.ParseInt(x.Value, 0, 64)
			return v, err == nil
		}
	case *ast.ParenExpr:
		return p.constInt(x.X, depth+1)
	case *ast.Ident, *ast.SelectorExpr:
		s := wcSel(e)
		if l, ok := wcConstLean[s]; ok {
			if v, err := strconv.ParseInt(l, 10, 64); err == nil {
				return v, true
			}
		}
		if s == "chainhash.HashSize" {
			return 32, true
		}
		if c, ok := p.consts[s]; ok {
			return p.constInt(c, depth+1)
		}
	case *ast.CallExpr: // conversion of a constant
		if len(x.Args) == 1 {
			if _, ok := wcIntBits[wcSel(x.Fun)]; ok {
				return p.constInt(x.Args[0], depth+1)
			}
		}
	case *ast.BinaryExpr:
		a, ok1 := p.constInt(x.X, depth+1)
		b, ok2 := p.constInt(x.Y, depth+1)
		if ok1 && ok2 {
			switch x.Op {
			case token.ADD:
				return a + b, true
			case token.SUB:
				return a - b, true
			case token.MUL:
				return a * b, true
			}
		}
	}
	return 0, false
}

var wcIntBits = map[string]int{"uint8": 8, "byte": 8, "uint16": 16, "uint32": 32, "int32": 32, "uint64": 64, "int64": 64, "int": 64}

// kindOfType: Go type expression -> kind (with the canonical Go type)
func (p *wcPkg) kindOfType(e ast.Expr) wcKind {
	switch x := e.(type) {
	case *ast.Ident:
		if b, ok := wcIntBits[x.Name]; ok {
			g := x.Name
			if g == "byte" {
				g = "uint8"
			}
			return wcKind{k: "nat", bits: b, gotyp: g}
		}
		switch x.Name {
		case "string":
			return wcKind{k: "bytes", gotyp: "string"}
		case "bool":
			return wcKind{k: "bool", gotyp: "bool"}
		case "error":
			return wcKind{k: "err"}
		case "Message":
			return wcKind{k: "msgV", gotyp: "Message"}
		case "MessageEncoding":
			return wcKind{k: "unit", gotyp: "MessageEncoding"}
		case "messageHeader":
			return wcKind{k: "hdr", gotyp: "messageHeader"}
		}
		if u, ok := p.types[x.Name]; ok { // named integer type (BitcoinNet, ServiceFlag, …)
			k := p.kindOfType(u)
			if k.k == "nat" {
				k.gotyp = x.Name
				return k
			}
		}
	case *ast.ArrayType:
		el := p.kindOfType(x.Elt)
		if el.k == "nat" && el.bits == 8 {
			if x.Len == nil {
				return wcKind{k: "bytes", gotyp: "[]uint8"}
			}
			if v, ok := p.constInt(x.Len, 0); ok {
				n, _ := p.constLean(x.Len)
				return wcKind{k: "bytes", n: n, gotyp: fmt.Sprintf("[%d]uint8", v)}
			}
		}
	case *ast.StarExpr:
		return p.kindOfType(x.X)
	case *ast.SelectorExpr:
		switch wcSel(x) {
		case "io.Reader":
			return wcKind{k: "reader"}
		case "io.Writer", "bytes.Buffer":
			return wcKind{k: "writer"}
		case "chainhash.Hash":
			return wcKind{k: "bytes", n: "hashSize", gotyp: "chainhash.Hash"}
		}
	}
	p.fail(e, "type "+wcSel(e))
	return wcKind{k: "unit"}
}

// constLean: a constant expression as Lean text (regenerated names where they exist)
func (p *wcPkg) constLean(e ast.Expr) (string, bool) {
	switch x := e.(type) {
	case *ast.BasicLit:
		if x.Kind == token.INT {
			return x.Value, true
		}
	case *ast.ParenExpr:
		s, ok := p.constLean(x.X)
		return "(" + s + ")", ok
	case *ast.Ident, *ast.SelectorExpr:
		s := wcSel(e)
		if l, ok := wcConstLean[s]; ok {
			return l, true
		}
		if c, ok := p.consts[s]; ok {
			if _, isInt := p.constInt(c, 0); isInt {
				l, ok := p.constLean(c)
				return "(" + l + ")", ok
			}
		}
	case *ast.CallExpr:
		if len(x.Args) == 1 {
			if _, ok := wcIntBits[wcSel(x.Fun)]; ok {
				return p.constLean(x.Args[0])
			}
		}
	case *ast.BinaryExpr:
		a, ok1 := p.constLean(x.X)
		b, ok2 := p.constLean(x.Y)
		op := map[token.Token]string{token.ADD: " + ", token.MUL: " * "}[x.Op]
		if ok1 && ok2 && op != "" {
			return a + op + b, true
		}
	}
	return "", false
}

// ---------------------------------------------------------------------------------------------------------------
// one function

type wcFn struct {
	p      *wcPkg
	name   string
	mode   string
	vars   map[string]wcKind
	msgs   map[string]string // locals that hold message text -> the format string
	stream string            // the io.Reader parameter
	outw   string            // the io.Writer parameter
	uses   map[string]bool
	nres   int // number of Go results
}

func (f *wcFn) fail(n ast.Node, msg string) { f.p.fail(n, msg) }

func (f *wcFn) fork() map[string]wcKind {
	m := map[string]wcKind{}
	for k, v := range f.vars {
		m[k] = v
	}
	return m
}

func wcBytesLit(s string) string {
	var parts []string
	for _, c := range []byte(s) {
		parts = append(parts, strconv.Itoa(int(c)))
	}
	return "[" + strings.Join(parts, ", ") + "]"
}

// text: the string a message expression denotes (literal, concatenation, package var, Sprintf format, tracked local)
func (f *wcFn) text(e ast.Expr) (string, bool) {
	switch x := e.(type) {
	case *ast.BasicLit:
		if x.Kind == token.STRING {
			v, err := strconv.Unquote(x.Value)
			return v, err == nil
		}
	case *ast.BinaryExpr:
		if x.Op == token.ADD {
			a, ok1 := f.text(x.X)
			b, ok2 := f.text(x.Y)
			return a + b, ok1 && ok2
		}
	case *ast.ParenExpr:
		return f.text(x.X)
	case *ast.Ident:
		if m, ok := f.msgs[x.Name]; ok {
			return m, true
		}
		if v, ok := f.p.vars[x.Name]; ok {
			return f.text(v)
		}
	case *ast.CallExpr:
		fn := wcSel(x.Fun)
		if (fn == "fmt.Sprintf" || fn == "fmt.Errorf") && len(x.Args) >= 1 {
			for _, a := range x.Args[1:] { // operands must be pure expressions of the subset
				f.expr(a)
			}
			return f.text(x.Args[0])
		}
		if se, ok := x.Fun.(*ast.SelectorExpr); ok && se.Sel.Name == "Error" && len(x.Args) == 0 {
			if id, ok := se.X.(*ast.Ident); ok && f.vars[id.Name].k == "lookuperr" { // makeEmptyMessage's default clause
				if d := f.p.decls["makeEmptyMessage"]; d != nil {
					var txt string
					var found bool
					ast.Inspect(d.Body, func(n ast.Node) bool {
						if c, ok := n.(*ast.CallExpr); ok && wcSel(c.Fun) == "fmt.Errorf" && len(c.Args) >= 1 && !found {
							if bl, ok := c.Args[0].(*ast.BasicLit); ok {
								txt, _ = strconv.Unquote(bl.Value)
								found = true
							}
						}
						return true
					})
					return txt, found
				}
			}
		}
	}
	return "", false
}

// errKind: messageError(fn, text) -> Err constructor
func (f *wcFn) errKind(c *ast.CallExpr) string {
	if len(c.Args) != 2 {
		f.fail(c, "messageError arity")
		return "eof"
	}
	fn, ok := f.text(c.Args[0])
	if !ok {
		f.fail(c, "messageError: function name is not a string literal")
		return "eof"
	}
	txt, haveTxt := f.text(c.Args[1])
	for _, r := range wcErrTable {
		if r.fn != fn {
			continue
		}
		if r.prefix == "" && r.contains == "" {
			return r.kind
		}
		if haveTxt && strings.HasPrefix(txt, r.prefix) && strings.Contains(txt, r.contains) {
			return r.kind
		}
	}
	f.fail(c, fmt.Sprintf("messageError(%q, %q) outside the error vocabulary", fn, txt))
	return "eof"
}

func wcOrder(e ast.Expr) string {
	switch wcSel(e) {
	case "littleEndian", "binary.LittleEndian":
		return "le"
	case "bigEndian", "binary.BigEndian":
		return "be"
	}
	return "?"
}

var wcGetPrims = map[string]bool{"get8": true, "get16le": true, "get16be": true, "get32le": true, "get64le": true}
var wcPutPrims = map[string]bool{"put8": true, "put16le": true, "put16be": true, "put32le": true, "put64le": true}

// serializer: binarySerializer.UintN / PutUintN -> (primitive, bits)
func (f *wcFn) serializer(c *ast.CallExpr) (string, int) {
	m := strings.TrimPrefix(wcSel(c.Fun), "binarySerializer.")
	put := strings.HasPrefix(m, "PutUint")
	bits, err := strconv.Atoi(strings.TrimPrefix(strings.TrimPrefix(m, "Put"), "Uint"))
	if err != nil {
		f.fail(c, "serializer method "+m)
		return "get8", 8
	}
	name := map[bool]string{false: "get", true: "put"}[put] + strconv.Itoa(bits)
	if bits > 8 {
		if len(c.Args) < 2 {
			f.fail(c, "serializer arity")
			return "get8", 8
		}
		name += wcOrder(c.Args[1])
	}
	if !(put && wcPutPrims[name] || !put && wcGetPrims[name]) {
		f.fail(c, "no primitive "+name)
	}
	return name, bits
}

// expr: pure expression -> Lean text and kind
func (f *wcFn) expr(e ast.Expr) (string, wcKind) {
	p := f.p
	switch x := e.(type) {
	case *ast.ParenExpr:
		s, k := f.expr(x.X)
		return "(" + s + ")", k
	case *ast.BasicLit:
		switch x.Kind {
		case token.INT:
			return x.Value, wcKind{k: "nat", cst: true}
		case token.STRING:
			if v, err := strconv.Unquote(x.Value); err == nil {
				return wcBytesLit(v), wcKind{k: "bytes", gotyp: "string"}
			}
		}
	case *ast.Ident:
		switch x.Name {
		case "true":
			return "True", wcKind{k: "bool"}
		case "false":
			return "False", wcKind{k: "bool"}
		case "nil":
			return "none", wcKind{k: "nil"}
		}
		if k, ok := f.vars[x.Name]; ok {
			return wcName(x.Name), k
		}
		if x.Name == "ebs" {
			if _, ok := p.vars["ebs"]; ok {
				f.uses["ebs"] = true
				return "ebs", wcKind{k: "nat", bits: 32, gotyp: "uint32"}
			}
		}
		if s, ok := p.constLean(x); ok {
			k := wcKind{k: "nat", cst: true}
			return s, k
		}
	case *ast.SelectorExpr:
		if id, ok := x.X.(*ast.Ident); ok && f.vars[id.Name].k == "hdr" {
			for _, fl := range p.hdr {
				if fl.name == x.Sel.Name {
					return wcName(id.Name) + "." + fl.name, fl.kind
				}
			}
		}
		if s, ok := p.constLean(x); ok {
			return s, wcKind{k: "nat", cst: true}
		}
	case *ast.UnaryExpr:
		switch x.Op {
		case token.NOT:
			s, k := f.expr(x.X)
			if k.k != "bool" {
				f.fail(e, "! of a non-boolean")
			}
			return "¬ " + s, wcKind{k: "bool"}
		case token.AND:
			return f.expr(x.X)
		}
	case *ast.SliceExpr:
		s, k := f.expr(x.X)
		if k.k != "bytes" || x.Slice3 {
			f.fail(e, "slice of a non-byte-string")
		}
		if x.Low == nil && x.High == nil {
			return s, k
		}
		lo, hi := "0", ""
		if x.Low != nil {
			lo, _ = f.expr(x.Low)
		}
		if x.High == nil {
			f.fail(e, "open-ended slice")
			return s, k
		}
		hi, _ = f.expr(x.High)
		if lo == "0" {
			return "(List.take " + hi + " " + s + ")", wcKind{k: "bytes", gotyp: "[]uint8"}
		}
		return "(List.take (" + hi + " - " + lo + ") (List.drop " + lo + " " + s + "))", wcKind{k: "bytes", gotyp: "[]uint8"}
	case *ast.BinaryExpr:
		l, lk := f.expr(x.X)
		r, rk := f.expr(x.Y)
		switch x.Op {
		case token.LAND, token.LOR:
			if lk.k != "bool" || rk.k != "bool" {
				f.fail(e, "boolean operator on non-booleans")
			}
			return "(" + l + map[token.Token]string{token.LAND: " ∧ ", token.LOR: " ∨ "}[x.Op] + r + ")", wcKind{k: "bool"}
		case token.EQL, token.NEQ, token.LSS, token.LEQ, token.GTR, token.GEQ:
			if lk.k != rk.k || !(lk.k == "nat" || lk.k == "bytes" && (x.Op == token.EQL || x.Op == token.NEQ)) {
				f.fail(e, "comparison of "+lk.k+" with "+rk.k)
			}
			op := map[token.Token]string{token.EQL: " = ", token.NEQ: " ≠ ", token.LSS: " < ", token.LEQ: " ≤ ", token.GTR: " > ", token.GEQ: " ≥ "}[x.Op]
			return "(" + l + op + r + ")", wcKind{k: "bool"}
		case token.ADD, token.MUL, token.QUO:
			if lk.k != "nat" || rk.k != "nat" {
				f.fail(e, "arithmetic on non-integers")
			}
			op := map[token.Token]string{token.ADD: " + ", token.MUL: " * ", token.QUO: " / "}[x.Op]
			bits := lk.bits
			if rk.bits > bits {
				bits = rk.bits
			}
			k := wcKind{k: "nat", bits: bits, cst: lk.cst && rk.cst}
			if k.cst || x.Op == token.QUO {
				return l + op + r, k
			}
			if bits == 0 {
				f.fail(e, "arithmetic on values of unknown width")
			}
			return fmt.Sprintf("wrap %d (%s%s%s)", bits, l, op, r), k
		}
	case *ast.CallExpr:
		return f.call(x)
	}
	f.fail(e, fmt.Sprintf("expression %T %s", e, wcSel(e)))
	return "0", wcKind{k: "nat"}
}

func wcAtom(s string) string {
	if strings.ContainsAny(s, " ") && !(strings.HasPrefix(s, "(") && strings.HasSuffix(s, ")") && strings.Count(s, "(") == 1) &&
		!(strings.HasPrefix(s, "[") && strings.HasSuffix(s, "]")) {
		return "(" + s + ")"
	}
	return s
}

// call: pure calls (conversions, len, primitives without effect, translated pure functions)
func (f *wcFn) call(x *ast.CallExpr) (string, wcKind) {
	fn := wcSel(x.Fun)
	if at, ok := x.Fun.(*ast.ArrayType); ok && at.Len == nil && len(x.Args) == 1 { // []byte(s)
		s, k := f.expr(x.Args[0])
		if k.k != "bytes" {
			f.fail(x, "[]byte of a non-string")
		}
		return s, k
	}
	if bits, ok := wcIntBits[fn]; ok && len(x.Args) == 1 { // integer conversion
		s, k := f.expr(x.Args[0])
		if k.k != "nat" {
			f.fail(x, "integer conversion of "+k.k)
		}
		g := fn
		if g == "byte" {
			g = "uint8"
		}
		if k.cst || (k.bits != 0 && k.bits <= bits) {
			return s, wcKind{k: "nat", bits: bits, cst: k.cst, gotyp: g}
		}
		return fmt.Sprintf("(%s %% 2^%d)", s, bits), wcKind{k: "nat", bits: bits, gotyp: g}
	}
	if u, ok := f.p.types[fn]; ok && len(x.Args) == 1 { // conversion to a named integer type
		tk := f.p.kindOfType(u)
		s, k := f.expr(x.Args[0])
		if tk.k == "nat" && k.k == "nat" && (k.cst || k.bits <= tk.bits) {
			tk.gotyp, tk.cst = fn, k.cst
			return s, tk
		}
	}
	switch {
	case fn == "string" && len(x.Args) == 1:
		s, k := f.expr(x.Args[0])
		if k.k != "bytes" {
			f.fail(x, "string of a non-byte-string")
		}
		return s, k
	case fn == "len" && len(x.Args) == 1:
		s, k := f.expr(x.Args[0])
		if k.k != "bytes" {
			f.fail(x, "len of "+k.k)
		}
		return wcAtom(s) + ".length", wcKind{k: "nat", bits: 64, gotyp: "int"}
	case fn == "maxMessagePayload" && len(x.Args) == 0:
		f.uses["gmax"] = true
		return "gmax", wcKind{k: "nat", bits: 32, gotyp: "uint32"}
	case fn == "bytes.Equal" && len(x.Args) == 2:
		a, ak := f.expr(x.Args[0])
		b, bk := f.expr(x.Args[1])
		if ak.k != "bytes" || bk.k != "bytes" {
			f.fail(x, "bytes.Equal of non-byte-strings")
		}
		return "(" + a + " = " + b + ")", wcKind{k: "bool"}
	case (fn == "bytes.TrimRight" || fn == "bytes.Trim") && len(x.Args) == 2:
		a, ak := f.expr(x.Args[0])
		b, bk := f.expr(x.Args[1])
		if ak.k != "bytes" || bk.k != "bytes" {
			f.fail(x, fn+" of non-byte-strings")
		}
		return "(" + map[string]string{"bytes.TrimRight": "trimRight ", "bytes.Trim": "trimBoth "}[fn] + wcAtom(a) + " " + wcAtom(b) + ")", wcKind{k: "bytes", gotyp: "[]uint8"}
	case fn == "chainhash.DoubleHashB" && len(x.Args) == 1:
		a, ak := f.expr(x.Args[0])
		if ak.k != "bytes" {
			f.fail(x, "hash of a non-byte-string")
		}
		f.uses["H"] = true
		return "(H (H " + wcAtom(a) + "))", wcKind{k: "bytes", gotyp: "[]uint8"}
	case fn == "utf8.ValidString" && len(x.Args) == 1:
		a, ak := f.expr(x.Args[0])
		if ak.k != "bytes" {
			f.fail(x, "utf8.ValidString of a non-string")
		}
		f.uses["U"] = true
		return "(U " + wcAtom(a) + " = true)", wcKind{k: "bool"}
	}
	if se, ok := x.Fun.(*ast.SelectorExpr); ok {
		if id, ok := se.X.(*ast.Ident); ok {
			switch k := f.vars[id.Name]; {
			case k.k == "msgV" && se.Sel.Name == "Command" && len(x.Args) == 0:
				return wcName(id.Name) + ".command", wcKind{k: "bytes", gotyp: "string"}
			case k.k == "writer" && se.Sel.Name == "Bytes" && len(x.Args) == 0:
				return wcName(id.Name), wcKind{k: "bytes", gotyp: "[]uint8"}
			}
		}
	}
	if g, ok := f.p.funcs[fn]; ok && g.mode == "pure" {
		return f.callTranslated(x, g), g.result
	}
	f.fail(x, "call of "+fn)
	return "0", wcKind{k: "nat"}
}

// callTranslated: application of a function translated earlier (implicit parameters first, dropped ones omitted)
func (f *wcFn) callTranslated(x *ast.CallExpr, g *wcFunc) string {
	s := g.lean
	for _, im := range g.implicit {
		f.uses[im] = true
		s += " " + im
	}
	for _, i := range g.keep {
		if i >= len(x.Args) {
			f.fail(x, "arity")
			break
		}
		a, _ := f.expr(x.Args[i])
		s += " " + wcAtom(a)
	}
	if s != g.lean {
		return "(" + s + ")"
	}
	return s
}

func (f *wcFn) cond(e ast.Expr) string {
	s, k := f.expr(e)
	if k.k != "bool" {
		f.fail(e, "condition is not boolean")
	}
	if strings.HasPrefix(s, "(") && strings.HasSuffix(s, ")") && strings.Count(s, "(") == 1 {
		return s[1 : len(s)-1]
	}
	return s
}

func wcTerminates(list []ast.Stmt) bool {
	if len(list) == 0 {
		return false
	}
	switch s := list[len(list)-1].(type) {
	case *ast.ReturnStmt:
		return true
	case *ast.IfStmt:
		if s.Else == nil {
			return false
		}
		if !wcTerminates(s.Body.List) {
			return false
		}
		switch e := s.Else.(type) {
		case *ast.BlockStmt:
			return wcTerminates(e.List)
		case *ast.IfStmt:
			return wcTerminates([]ast.Stmt{e})
		}
	}
	return false
}

func (f *wcFn) doKw() string {
	if f.mode == "pure" {
		return ""
	}
	return " do"
}

// isErrNotNil: `err != nil`
func wcIsErrNotNil(e ast.Expr) (string, bool) {
	be, ok := e.(*ast.BinaryExpr)
	if !ok || be.Op != token.NEQ || wcSel(be.Y) != "nil" {
		return "", false
	}
	id, ok := be.X.(*ast.Ident)
	if !ok {
		return "", false
	}
	return id.Name, true
}

// skippable: statements about the dropped byte counters
func (f *wcFn) skippable(st ast.Stmt) bool {
	switch s := st.(type) {
	case *ast.AssignStmt:
		if len(s.Lhs) == 1 && len(s.Rhs) == 1 {
			if id, ok := s.Lhs[0].(*ast.Ident); ok && wcDropVars[id.Name] && f.mode != "pure" {
				switch r := s.Rhs[0].(type) {
				case *ast.BasicLit:
					return true
				case *ast.Ident:
					return wcDropVars[r.Name]
				}
			}
		}
	case *ast.ExprStmt:
		if c, ok := s.X.(*ast.CallExpr); ok && wcSkipCalls[wcSel(c.Fun)] {
			return true
		}
	}
	return false
}

// propagation: the next effective statement must be `if err != nil { return …, err }`; returns the statements after it
func (f *wcFn) propagation(at ast.Node, errName string, rest []ast.Stmt) []ast.Stmt {
	i := 0
	for i < len(rest) && f.skippable(rest[i]) {
		i++
	}
	if i < len(rest) {
		if is, ok := rest[i].(*ast.IfStmt); ok && is.Init == nil && is.Else == nil && len(is.Body.List) == 1 {
			if name, ok := wcIsErrNotNil(is.Cond); ok && name == errName {
				if rs, ok := is.Body.List[0].(*ast.ReturnStmt); ok && len(rs.Results) == f.nres && wcSel(rs.Results[len(rs.Results)-1]) == errName {
					delete(f.vars, errName) // consumed: a later use of it without a new assignment is refused
					return rest[i+1:]
				}
			}
		}
	}
	f.fail(at, "a fallible call that is not followed by `if "+errName+" != nil { return …, "+errName+" }`")
	return nil
}

func (f *wcFn) bind(lhs []string, reader, m string, ind string) string {
	pat := "_"
	if len(lhs) == 1 {
		pat = lhs[0]
	} else if len(lhs) > 1 {
		pat = "(" + strings.Join(lhs, ", ") + ")"
	}
	if reader == f.stream {
		if pat == "_" {
			return ind + "let _ ← " + m
		}
		return ind + "let " + pat + " ← " + m
	}
	return ind + "let (" + pat + ", " + wcName(reader) + ") ← subRd " + wcName(reader) + " " + wcAtom(m)
}

// readerCall: a call that consumes from a reader: (reader variable, Lean reader term, kinds of the values) or ok=false
func (f *wcFn) readerCall(c *ast.CallExpr) (reader, m string, vals []wcKind, rebinding string, ok bool) {
	fn := wcSel(c.Fun)
	arg0 := ""
	if len(c.Args) > 0 {
		arg0 = wcSel(c.Args[0])
	}
	isReader := func(n string) bool { k := f.vars[n].k; return k == "reader" || k == "sub" }
	switch {
	case strings.HasPrefix(fn, "binarySerializer.Uint") && isReader(arg0):
		prim, bits := f.serializer(c)
		return arg0, prim, []wcKind{{k: "nat", bits: bits, gotyp: "uint" + strconv.Itoa(bits)}}, "", true
	case fn == "io.ReadFull" && len(c.Args) == 2 && isReader(arg0):
		_, k := f.expr(c.Args[1])
		if k.k != "bytes" || k.n == "" {
			f.fail(c, "io.ReadFull into a buffer of unknown length")
		}
		name := ""
		switch b := c.Args[1].(type) {
		case *ast.Ident:
			name = b.Name
		case *ast.SliceExpr:
			if b.Low == nil && b.High == nil {
				name = wcSel(b.X)
			}
		}
		if _, isVar := f.vars[name]; !isVar {
			f.fail(c, "io.ReadFull into something that is not a local buffer")
		}
		return arg0, "getBytes " + wcAtom(k.n), nil, name, true
	case isReader(arg0):
		if g, okf := f.p.funcs[fn]; okf && g.mode == "rd" {
			return arg0, f.callTranslated(c, g), []wcKind{g.result}, "", true
		}
	}
	if se, okS := c.Fun.(*ast.SelectorExpr); okS && se.Sel.Name == "Bsvdecode" && len(c.Args) == 3 && isReader(arg0) {
		if id, okI := se.X.(*ast.Ident); okI && f.vars[id.Name].k == "msgT" {
			pv, _ := f.expr(c.Args[1])
			f.uses["gmax"] = true
			return arg0, "decodeRd gmax " + wcAtom(pv) + " " + wcName(id.Name), nil, "msg:" + id.Name, true
		}
	}
	return "", "", nil, "", false
}

// elementPrim: the primitive readElement / writeElement uses for an operand of static type k (read off the type switch)
func (f *wcFn) elementPrim(at ast.Node, fnName string, k wcKind) string {
	d := f.p.decls[fnName]
	if d == nil {
		f.fail(at, fnName+" not found")
		return "get8"
	}
	read := fnName == "readElement"
	var sw *ast.TypeSwitchStmt
	for _, st := range d.Body.List {
		if s, ok := st.(*ast.TypeSwitchStmt); ok {
			sw = s
		}
	}
	if sw == nil {
		f.fail(at, fnName+": no type switch")
		return "get8"
	}
	for _, cc := range sw.Body.List {
		cl := cc.(*ast.CaseClause)
		for _, te := range cl.List {
			t := te
			if read {
				st, ok := te.(*ast.StarExpr)
				if !ok {
					continue
				}
				t = st.X
			}
			sub := &wcPkg{fset: f.p.fset, consts: f.p.consts, types: f.p.types}
			ck := sub.kindOfType(t)
			if sub.err != nil || ck.gotyp != k.gotyp || k.gotyp == "" {
				continue
			}
			// the clause for this type: check its plain shape and read the primitive off its first statement
			body := cl.Body
			bad := func() string {
				f.fail(cl, fnName+": clause for "+k.gotyp+" is not of the plain shape")
				return "get8"
			}
			if len(body) < 3 {
				return bad()
			}
			as, ok := body[0].(*ast.AssignStmt)
			if !ok || len(as.Rhs) != 1 {
				return bad()
			}
			call, ok := as.Rhs[0].(*ast.CallExpr)
			if !ok {
				return bad()
			}
			is, ok := body[1].(*ast.IfStmt)
			if name, isErr := wcIsErrNotNil(is.Cond); !ok || !isErr || name != "err" || len(is.Body.List) != 1 {
				return bad()
			}
			if rs, ok := body[len(body)-1].(*ast.ReturnStmt); !ok || len(rs.Results) != 1 || wcSel(rs.Results[0]) != "nil" {
				return bad()
			}
			cf := wcSel(call.Fun)
			switch {
			case read && cf == "io.ReadFull" && len(body) == 3 && len(call.Args) == 2 && wcSel(call.Args[0]) == "r":
				if sl, ok := call.Args[1].(*ast.SliceExpr); !ok || wcSel(sl.X) != "e" || sl.Low != nil || sl.High != nil || k.n == "" {
					return bad()
				}
				return "getBytes " + wcAtom(k.n)
			case !read && cf == "w.Write" && len(body) == 3 && len(call.Args) == 1:
				if sl, ok := call.Args[0].(*ast.SliceExpr); !ok || wcSel(sl.X) != "e" || sl.Low != nil || sl.High != nil {
					return bad()
				}
				return "bytes"
			case read && strings.HasPrefix(cf, "binarySerializer.Uint") && len(body) == 4 && wcSel(call.Args[0]) == "r":
				prim, bits := f.serializer(call)
				st, ok := body[2].(*ast.AssignStmt) // *e = rv  |  *e = T(rv)
				if !ok || len(st.Lhs) != 1 || len(st.Rhs) != 1 || bits != k.bits {
					return bad()
				}
				if se, ok := st.Lhs[0].(*ast.StarExpr); !ok || wcSel(se.X) != "e" {
					return bad()
				}
				switch r := st.Rhs[0].(type) {
				case *ast.Ident:
					if r.Name != "rv" {
						return bad()
					}
				case *ast.CallExpr:
					if len(r.Args) != 1 || wcSel(r.Args[0]) != "rv" {
						return bad()
					}
				default:
					return bad()
				}
				return prim
			case !read && strings.HasPrefix(cf, "binarySerializer.PutUint") && len(body) == 3 && wcSel(call.Args[0]) == "w":
				prim, bits := f.serializer(call)
				v := call.Args[len(call.Args)-1]
				if c2, ok := v.(*ast.CallExpr); ok && len(c2.Args) == 1 {
					v = c2.Args[0]
				}
				if wcSel(v) != "e" || bits != k.bits {
					return bad()
				}
				return prim
			}
			return bad()
		}
	}
	f.fail(at, fnName+": no clause for the type "+k.gotyp)
	return "get8"
}

// assignTo: `let` line(s) for target := value
func (f *wcFn) assignTo(at ast.Node, target ast.Expr, val string, k wcKind, ind string) []string {
	switch t := target.(type) {
	case *ast.Ident:
		if t.Name == "_" {
			return nil
		}
		f.vars[t.Name] = k
		return []string{ind + "let " + wcName(t.Name) + " := " + val}
	case *ast.SelectorExpr:
		if id, ok := t.X.(*ast.Ident); ok && f.vars[id.Name].k == "hdr" {
			for _, fl := range f.p.hdr {
				if fl.name == t.Sel.Name {
					if fl.kind.k != k.k {
						f.fail(at, "field "+fl.name+" assigned a "+k.k)
					}
					h := wcName(id.Name)
					return []string{ind + "let " + h + " := { " + h + " with " + fl.name + " := " + val + " }"}
				}
			}
		}
	case *ast.UnaryExpr:
		if t.Op == token.AND {
			return f.assignTo(at, t.X, val, k, ind)
		}
	case *ast.SliceExpr:
		if t.Low == nil && t.High == nil {
			return f.assignTo(at, t.X, val, k, ind)
		}
	}
	f.fail(at, "assignment target "+wcSel(target))
	return nil
}

// ret: a return statement
func (f *wcFn) ret(s *ast.ReturnStmt, ind string) []string {
	if f.mode == "pure" {
		if len(s.Results) != 1 {
			f.fail(s, "return arity")
			return nil
		}
		v, k := f.expr(s.Results[0])
		if k.k != "nat" {
			f.fail(s, "return of "+k.k)
		}
		return []string{ind + v}
	}
	if len(s.Results) != f.nres || f.nres == 0 {
		f.fail(s, "return arity")
		return nil
	}
	last := s.Results[len(s.Results)-1]
	success := func() []string {
		if f.mode == "wr" {
			return []string{ind + "pure " + wcName(f.outw)}
		}
		var vals []string
		for _, r := range s.Results[:len(s.Results)-1] {
			if id, ok := r.(*ast.Ident); ok && wcDropVars[id.Name] {
				continue
			}
			v, k := f.expr(r)
			if k.k == "nat" && k.cst && len(s.Results) > 2 { // a literal byte count
				continue
			}
			vals = append(vals, v)
		}
		switch len(vals) {
		case 0:
			return []string{ind + "pure ()"}
		case 1:
			return []string{ind + "pure " + wcAtom(vals[0])}
		}
		return []string{ind + "pure (" + strings.Join(vals, ", ") + ")"}
	}
	failWith := func(kind string) []string {
		if f.mode == "wr" {
			return []string{ind + ".error ." + kind}
		}
		return []string{ind + "Rd.fail ." + kind}
	}
	switch x := last.(type) {
	case *ast.Ident:
		if x.Name == "nil" || f.vars[x.Name].k == "nilerr" {
			return success()
		}
	case *ast.CallExpr:
		fn := wcSel(x.Fun)
		if fn == "messageError" {
			return failWith(f.errKind(x))
		}
		if f.mode == "wr" && len(s.Results) == 1 { // return <writer primitive>(w, …)
			if lines, ok := f.writerCall(x, ind); ok {
				return append(lines, ind+"pure "+wcName(f.outw))
			}
		}
	}
	f.fail(s, "return of an error that is neither nil, messageError(…) nor a propagated `err`")
	return nil
}

// writerCall: a call that appends to a writer
func (f *wcFn) writerCall(c *ast.CallExpr, ind string) ([]string, bool) {
	fn := wcSel(c.Fun)
	wname := func(e ast.Expr) (string, bool) {
		if u, ok := e.(*ast.UnaryExpr); ok && u.Op == token.AND {
			e = u.X
		}
		id, ok := e.(*ast.Ident)
		if ok && f.vars[id.Name].k == "writer" {
			return id.Name, true
		}
		return "", false
	}
	app := func(w, v string) string { return ind + "let " + wcName(w) + " := " + wcName(w) + " ++ " + v }
	switch {
	case strings.HasPrefix(fn, "binarySerializer.PutUint") && len(c.Args) >= 2:
		if w, ok := wname(c.Args[0]); ok {
			prim, bits := f.serializer(c)
			v, k := f.expr(c.Args[len(c.Args)-1])
			if k.k != "nat" || !(k.cst || k.bits == bits) {
				f.fail(c, "operand width")
			}
			return []string{app(w, prim+" "+wcAtom(v))}, true
		}
	case fn == "writeElements" && len(c.Args) >= 1:
		if w, ok := wname(c.Args[0]); ok {
			var out []string
			for _, a := range c.Args[1:] {
				v, k := f.expr(a)
				prim := f.elementPrim(a, "writeElement", k)
				if prim == "bytes" {
					out = append(out, app(w, v))
				} else {
					out = append(out, app(w, prim+" "+wcAtom(v)))
				}
			}
			return out, true
		}
	}
	if se, ok := c.Fun.(*ast.SelectorExpr); ok {
		if w, ok := wname(se.X); ok && se.Sel.Name == "Write" && len(c.Args) == 1 {
			v, k := f.expr(c.Args[0])
			if k.k != "bytes" {
				f.fail(c, "Write of a non-byte-string")
			}
			return []string{app(w, v)}, true
		}
	}
	return nil, false
}

// stmts: a statement list, the tail being the continuation; always ends in a value
func (f *wcFn) stmts(list []ast.Stmt, ind string) []string {
	if f.p.err != nil {
		return nil
	}
	if len(list) == 0 {
		f.p.err = fmt.Errorf("%s: unsupported: control reaches the end of the function without a return", f.name)
		return nil
	}
	st, rest := list[0], list[1:]
	if f.skippable(st) {
		return f.stmts(rest, ind)
	}
	branch := func(body []ast.Stmt, follow []ast.Stmt, ind string) []string {
		saved := f.vars
		savedM := f.msgs
		f.vars = f.fork()
		m := map[string]string{}
		for k, v := range f.msgs {
			m[k] = v
		}
		f.msgs = m
		full := body
		if !wcTerminates(body) {
			full = append(append([]ast.Stmt{}, body...), follow...)
		}
		out := f.stmts(full, ind)
		f.vars, f.msgs = saved, savedM
		return out
	}
	switch s := st.(type) {
	case *ast.ReturnStmt:
		return f.ret(s, ind)
	case *ast.DeclStmt:
		gd, ok := s.Decl.(*ast.GenDecl)
		if !ok || gd.Tok != token.VAR || len(gd.Specs) != 1 {
			f.fail(s, "declaration")
			return nil
		}
		vs := gd.Specs[0].(*ast.ValueSpec)
		if len(vs.Names) != 1 || len(vs.Values) > 1 || vs.Type == nil {
			f.fail(s, "var declaration form")
			return nil
		}
		name := vs.Names[0].Name
		k := f.p.kindOfType(vs.Type)
		if len(vs.Values) == 1 {
			v, vk := f.expr(vs.Values[0])
			if vk.k != k.k {
				f.fail(s, "initialiser kind")
			}
			f.vars[name] = k
			return append([]string{ind + "let " + wcName(name) + " := " + v}, f.stmts(rest, ind)...)
		}
		f.vars[name] = k
		var line string
		switch {
		case k.k == "nat":
			line = "let " + wcName(name) + " : Nat := 0"
		case k.k == "bytes" && k.n != "":
			line = "let " + wcName(name) + " := zeros " + wcAtom(k.n)
		case k.k == "writer":
			line = "let " + wcName(name) + " : Bytes := []"
		default:
			f.fail(s, "zero value of "+k.k)
		}
		return append([]string{ind + line}, f.stmts(rest, ind)...)
	case *ast.ExprStmt:
		c, ok := s.X.(*ast.CallExpr)
		if !ok {
			f.fail(s, "expression statement")
			return nil
		}
		fn := wcSel(c.Fun)
		switch {
		case fn == "discardInput" && len(c.Args) == 2 && wcSel(c.Args[0]) == f.stream && f.mode == "rd":
			n, k := f.expr(c.Args[1])
			if k.k != "nat" {
				f.fail(s, "discardInput count")
			}
			return append([]string{ind + "discard " + wcAtom(n)}, f.stmts(rest, ind)...)
		case fn == "copy" && len(c.Args) == 2:
			dst, dk := f.expr(c.Args[0])
			src, sk := f.expr(c.Args[1])
			if dk.k != "bytes" || sk.k != "bytes" {
				f.fail(s, "copy of non-byte-strings")
			}
			dk2 := dk
			lines := f.assignTo(s, c.Args[0], "goCopy "+wcAtom(dst)+" "+wcAtom(src), dk2, ind)
			return append(lines, f.stmts(rest, ind)...)
		}
		f.fail(s, "call statement "+fn)
		return nil
	case *ast.IfStmt:
		if s.Init != nil {
			f.fail(s, "if with initialiser")
			return nil
		}
		if name, ok := wcIsErrNotNil(s.Cond); ok {
			if f.vars[name].k == "nilerr" { // statically nil: dead branch
				if s.Else != nil {
					f.fail(s, "else of a dead error test")
				}
				return f.stmts(rest, ind)
			}
			f.fail(s, "test of `"+name+"` that does not directly follow the call that set it")
			return nil
		}
		c := f.cond(s.Cond)
		out := []string{ind + "if " + c + " then" + f.doKw()}
		out = append(out, branch(s.Body.List, rest, ind+"  ")...)
		out = append(out, ind+"else"+f.doKw())
		switch e := s.Else.(type) {
		case nil:
			out = append(out, branch(nil, rest, ind+"  ")...)
		case *ast.BlockStmt:
			out = append(out, branch(e.List, rest, ind+"  ")...)
		case *ast.IfStmt:
			out = append(out, branch([]ast.Stmt{e}, rest, ind+"  ")...)
		}
		return out
	case *ast.SwitchStmt:
		if s.Init != nil || s.Tag == nil {
			f.fail(s, "switch form")
			return nil
		}
		tag, tk := f.expr(s.Tag)
		if _, isId := s.Tag.(*ast.Ident); !isId || tk.k != "nat" {
			f.fail(s, "switch tag must be an integer local")
		}
		var out []string
		var dflt []ast.Stmt
		kw := "if "
		cur := ind
		for _, cc := range s.Body.List {
			cl := cc.(*ast.CaseClause)
			for _, b := range cl.Body {
				if _, ok := b.(*ast.BranchStmt); ok {
					f.fail(b, "fallthrough / break in a switch")
				}
			}
			if cl.List == nil {
				dflt = cl.Body
				continue
			}
			var alts []string
			for _, e := range cl.List {
				v, k := f.expr(e)
				if k.k != "nat" {
					f.fail(e, "case label")
				}
				alts = append(alts, tag+" = "+v)
			}
			out = append(out, cur+kw+strings.Join(alts, " ∨ ")+" then"+f.doKw())
			out = append(out, branch(cl.Body, rest, cur+"  ")...)
			kw = "else if "
		}
		if kw == "if " {
			return branch(dflt, rest, ind)
		}
		out = append(out, cur+"else"+f.doKw())
		out = append(out, branch(dflt, rest, cur+"  ")...)
		return out
	case *ast.AssignStmt:
		return f.assign(s, rest, ind, branch)
	}
	f.fail(st, fmt.Sprintf("statement %T", st))
	return nil
}

func (f *wcFn) assign(s *ast.AssignStmt, rest []ast.Stmt, ind string, branch func([]ast.Stmt, []ast.Stmt, string) []string) []string {
	next := func(lines ...string) []string { return append(lines, f.stmts(rest, ind)...) }
	if s.Tok == token.ADD_ASSIGN && len(s.Lhs) == 1 && len(s.Rhs) == 1 {
		if id, ok := s.Lhs[0].(*ast.Ident); ok && wcDropVars[id.Name] && f.mode != "pure" {
			return f.stmts(rest, ind)
		}
		v, k := f.expr(&ast.BinaryExpr{X: s.Lhs[0], Op: token.ADD, Y: s.Rhs[0], OpPos: s.Pos()})
		return next(f.assignTo(s, s.Lhs[0], v, k, ind)...)
	}
	if (s.Tok != token.DEFINE && s.Tok != token.ASSIGN) || len(s.Rhs) != 1 {
		f.fail(s, "assignment form")
		return nil
	}
	rhs := s.Rhs[0]
	errName := ""
	if n := len(s.Lhs); n > 0 {
		if id, ok := s.Lhs[n-1].(*ast.Ident); ok && (id.Name == "err") {
			errName = id.Name
		}
	}
	// targets that receive values (the error and the dropped byte counters left out)
	var targets []ast.Expr
	for i, l := range s.Lhs {
		if i == len(s.Lhs)-1 && errName != "" {
			continue
		}
		if id, ok := l.(*ast.Ident); ok && wcDropVars[id.Name] && f.mode != "pure" {
			continue
		}
		targets = append(targets, l)
	}
	if c, ok := rhs.(*ast.CallExpr); ok {
		fn := wcSel(c.Fun)
		// readers
		if f.mode == "rd" {
			if fn == "readElements" && len(c.Args) >= 1 && errName != "" {
				rd := wcSel(c.Args[0])
				if k := f.vars[rd].k; k != "reader" && k != "sub" {
					f.fail(s, "readElements on "+rd)
				}
				after := f.propagation(s, errName, rest)
				var out []string
				for _, a := range c.Args[1:] {
					u, ok := a.(*ast.UnaryExpr)
					if !ok || u.Op != token.AND {
						f.fail(a, "readElements operand is not &x")
						continue
					}
					_, k := f.expr(u.X)
					prim := f.elementPrim(a, "readElement", k)
					out = append(out, f.bind([]string{"e"}, rd, prim, ind))
					out = append(out, f.assignTo(a, u.X, "e", k, ind)...)
				}
				return append(out, f.stmts(after, ind)...)
			}
			if rd, m, vals, rebinding, ok := f.readerCall(c); ok {
				if errName == "" {
					f.fail(s, "reader call without an error result")
					return nil
				}
				after := f.propagation(s, errName, rest)
				var names []string
				switch {
				case strings.HasPrefix(rebinding, "msg:"):
					n := strings.TrimPrefix(rebinding, "msg:")
					names = []string{wcName(n)}
					f.vars[n] = wcKind{k: "msgV", gotyp: "Message"}
				case rebinding != "":
					names = []string{wcName(rebinding)}
				default:
					if len(targets) != len(vals) {
						f.fail(s, "result arity of "+fn)
						return nil
					}
					for i, t := range targets {
						id, ok := t.(*ast.Ident)
						if !ok {
							f.fail(s, "target of a reader call")
							return nil
						}
						if id.Name == "_" {
							names = append(names, "_")
							continue
						}
						names = append(names, wcName(id.Name))
						f.vars[id.Name] = vals[i]
					}
				}
				return append([]string{f.bind(names, rd, m, ind)}, f.stmts(after, ind)...)
			}
			if fn == "makeEmptyMessage" && len(c.Args) == 1 && errName != "" && len(targets) == 1 {
				a, ak := f.expr(c.Args[0])
				if ak.k != "bytes" {
					f.fail(s, "makeEmptyMessage argument")
				}
				i := 0
				for i < len(rest) && f.skippable(rest[i]) {
					i++
				}
				var is *ast.IfStmt
				if i < len(rest) {
					is, _ = rest[i].(*ast.IfStmt)
				}
				name, isErr := "", false
				if is != nil {
					name, isErr = wcIsErrNotNil(is.Cond)
				}
				if is == nil || !isErr || name != errName || is.Init != nil || is.Else != nil || !wcTerminates(is.Body.List) {
					f.fail(s, "makeEmptyMessage must be followed by `if err != nil { …return… }`")
					return nil
				}
				msgName := wcSel(targets[0])
				out := []string{ind + "match lookupCmd " + wcAtom(a) + " with", ind + "| none =>" + f.doKw()}
				saved := f.vars
				f.vars = f.fork()
				f.vars[errName] = wcKind{k: "lookuperr"}
				out = append(out, f.stmts(is.Body.List, ind+"  ")...)
				f.vars = saved
				out = append(out, ind+"| some "+wcName(msgName)+" =>"+f.doKw())
				f.vars[msgName] = wcKind{k: "msgT", gotyp: "Message"}
				delete(f.vars, errName)
				return append(out, f.stmts(rest[i+1:], ind+"  ")...)
			}
			if fn == "make" && len(c.Args) == 2 && len(targets) == 1 && errName == "" {
				if at, ok := c.Args[0].(*ast.ArrayType); ok && at.Len == nil && f.p.kindOfType(at).k == "bytes" {
					n, nk := f.expr(c.Args[1])
					if nk.k != "nat" {
						f.fail(s, "make length")
					}
					name := wcSel(targets[0])
					f.vars[name] = wcKind{k: "bytes", n: n, gotyp: "[]uint8"}
					return next(ind + "Rd.alloc " + wcAtom(n))
				}
			}
			if (fn == "bytes.NewReader" || fn == "bytes.NewBuffer") && len(c.Args) == 1 && len(targets) == 1 && errName == "" {
				v, k := f.expr(c.Args[0])
				if k.k != "bytes" {
					f.fail(s, fn+" of a non-byte-string")
				}
				name := wcSel(targets[0])
				f.vars[name] = wcKind{k: "sub"}
				return next(ind + "let " + wcName(name) + " := " + v)
			}
		}
		if f.mode == "wr" {
			if lines, ok := f.writerCall(c, ind); ok {
				if errName != "" {
					f.vars[errName] = wcKind{k: "nilerr"}
				}
				return next(lines...)
			}
			if se, ok := c.Fun.(*ast.SelectorExpr); ok && se.Sel.Name == "BsvEncode" && len(c.Args) == 3 && errName != "" {
				id, _ := se.X.(*ast.Ident)
				w := c.Args[0]
				if u, ok := w.(*ast.UnaryExpr); ok && u.Op == token.AND {
					w = u.X
				}
				if id == nil || f.vars[id.Name].k != "msgV" || f.vars[wcSel(w)].k != "writer" {
					f.fail(s, "BsvEncode form")
					return nil
				}
				pv, _ := f.expr(c.Args[1])
				after := f.propagation(s, errName, rest)
				wn := wcName(wcSel(w))
				return append([]string{ind + "let enc ← encodePayload " + wcAtom(pv) + " " + wcName(id.Name), ind + "let " + wn + " := " + wn + " ++ enc"},
					f.stmts(after, ind)...)
			}
			if fn == "bytes.NewBuffer" && len(c.Args) == 1 && len(targets) == 1 && errName == "" {
				if mk, ok := c.Args[0].(*ast.CallExpr); ok && wcSel(mk.Fun) == "make" && len(mk.Args) == 3 {
					if v, ok := f.p.constInt(mk.Args[1], 0); ok && v == 0 {
						name := wcSel(targets[0])
						f.vars[name] = wcKind{k: "writer"}
						return next(ind + "let " + wcName(name) + " : Bytes := []")
					}
				}
			}
		}
		if se, ok := c.Fun.(*ast.SelectorExpr); ok && se.Sel.Name == "MaxPayloadLength" && len(c.Args) == 1 && len(targets) == 1 && errName == "" {
			if id, ok := se.X.(*ast.Ident); ok {
				pv, _ := f.expr(c.Args[0])
				f.uses["gmax"] = true
				name := wcSel(targets[0])
				f.vars[name] = wcKind{k: "nat", bits: 32, gotyp: "uint32"}
				switch {
				case f.vars[id.Name].k == "msgT" && f.mode == "rd":
					return next(ind + "let " + wcName(name) + " ← liftOpt (maxPayloadLength gmax " + wcAtom(pv) + " " + wcName(id.Name) + ")")
				case f.vars[id.Name].k == "msgV" && f.mode == "wr":
					return next(ind + "let " + wcName(name) + " ← liftOptE (maxPayloadLength gmax " + wcAtom(pv) + " " + wcName(id.Name) + ".msgType)")
				}
			}
		}
		if (fn == "fmt.Sprintf") && len(targets) == 1 && errName == "" { // message text: tracked, not emitted
			if txt, ok := f.text(c); ok {
				f.msgs[wcSel(targets[0])] = txt
				return f.stmts(rest, ind)
			}
			f.fail(s, "message text is not a literal format")
			return nil
		}
	}
	if cl, ok := rhs.(*ast.CompositeLit); ok && len(cl.Elts) == 0 && len(targets) == 1 && errName == "" {
		if k := f.p.kindOfType(cl.Type); k.k == "hdr" {
			name := wcSel(targets[0])
			f.vars[name] = k
			return next(ind + "let " + wcName(name) + " : MessageHeader := {}")
		}
	}
	if len(s.Lhs) != 1 || errName != "" {
		f.fail(s, "multi-value assignment from "+wcSel(rhs))
		return nil
	}
	v, k := f.expr(rhs)
	if k.k == "nat" && k.cst && k.bits == 0 {
		k.bits = 64 // untyped constant assigned to a variable: int
	}
	if s.Tok == token.ASSIGN {
		if id, ok := s.Lhs[0].(*ast.Ident); ok {
			if old, ok := f.vars[id.Name]; ok && old.k == "nat" && k.k == "nat" {
				k.bits, k.gotyp = old.bits, old.gotyp
			}
		}
	}
	k.cst = false
	return next(f.assignTo(s, s.Lhs[0], v, k, ind)...)
}

var wcLeanType = map[string]string{"nat": "Nat", "bytes": "Bytes", "hdr": "MessageHeader", "msgV": "Msg", "msgT": "MsgType", "writer": "Bytes"}

// function: translate one declaration
func (p *wcPkg) function(key, lean string) string {
	fd := p.decls[key]
	if fd == nil || fd.Body == nil {
		if p.err == nil {
			p.err = fmt.Errorf("internal/wire: function %s not found", key)
		}
		return ""
	}
	f := &wcFn{p: p, name: key, mode: "pure", vars: map[string]wcKind{}, msgs: map[string]string{}, uses: map[string]bool{}}
	type par struct {
		name string
		k    wcKind
	}
	var pars []par
	var keep []int
	idx := 0
	for _, fl := range fd.Type.Params.List {
		k := p.kindOfType(fl.Type)
		names := fl.Names
		if len(names) == 0 {
			names = []*ast.Ident{{Name: "_"}}
		}
		for _, n := range names {
			switch {
			case k.k == "reader":
				f.mode, f.stream = "rd", n.Name
				f.vars[n.Name] = k
			case k.k == "unit" || n.Name == "_":
				// dropped: MessageEncoding, blank parameters
			default:
				if k.k == "writer" {
					f.mode, f.outw = "wr", n.Name
				}
				f.vars[n.Name] = k
				pars = append(pars, par{n.Name, k})
				keep = append(keep, idx)
			}
			idx++
		}
	}
	var resKinds []wcKind
	if fd.Type.Results != nil {
		for _, fl := range fd.Type.Results.List {
			if len(fl.Names) > 0 {
				p.fail(fd, "named results")
			}
			resKinds = append(resKinds, p.kindOfType(fl.Type))
		}
	}
	f.nres = len(resKinds)
	var result wcKind
	var rtype string
	switch f.mode {
	case "pure":
		if len(resKinds) != 1 || resKinds[0].k != "nat" {
			p.fail(fd, "result of a pure function")
			return ""
		}
		result, rtype = resKinds[0], "Nat"
		if result.gotyp == "int" {
			result.bits = 64
		}
	case "rd":
		if len(resKinds) == 0 || resKinds[len(resKinds)-1].k != "err" {
			p.fail(fd, "reader function without an error result")
			return ""
		}
		var ts []string
		for _, k := range resKinds[:len(resKinds)-1] {
			if k.k == "nat" && k.gotyp == "int" && len(resKinds) > 2 {
				continue // byte count
			}
			result = k
			ts = append(ts, wcLeanType[k.k])
		}
		switch len(ts) {
		case 1:
			rtype = "Rd " + ts[0]
		case 2:
			rtype = "Rd (" + ts[0] + " × " + ts[1] + ")"
			result = wcKind{k: "tuple"}
		default:
			p.fail(fd, "result list")
			return ""
		}
	case "wr":
		if len(resKinds) == 0 || resKinds[len(resKinds)-1].k != "err" {
			p.fail(fd, "writer function without an error result")
			return ""
		}
		rtype = "Except Err Bytes"
	}
	body := f.stmts(fd.Body.List, "  ")
	if p.err != nil {
		return ""
	}
	var implicit []string
	sig := "def " + lean
	for _, im := range []struct{ n, t string }{{"U", "Bytes → Bool"}, {"H", "Bytes → Bytes"}, {"gmax", "Nat"}, {"ebs", "Nat"}} {
		if f.uses[im.n] {
			implicit = append(implicit, im.n)
			sig += " (" + im.n + " : " + im.t + ")"
		}
	}
	for _, pa := range pars {
		sig += " (" + wcName(pa.name) + " : " + wcLeanType[pa.k.k] + ")"
	}
	sig += " : " + rtype + " :="
	if f.mode != "pure" {
		sig += " do"
	}
	p.funcs[key] = &wcFunc{lean: lean, mode: f.mode, implicit: implicit, keep: keep, result: result}
	pos := p.fset.Position(fd.Pos())
	return fmt.Sprintf("-- %s %s\n%s\n%s\n", filepath.Base(pos.Filename), key, sig, strings.Join(body, "\n"))
}

func wcLoad() (*wcPkg, error) {
	p := &wcPkg{fset: token.NewFileSet(), consts: map[string]ast.Expr{}, types: map[string]ast.Expr{}, vars: map[string]ast.Expr{},
		decls: map[string]*ast.FuncDecl{}, funcs: map[string]*wcFunc{}}
	dir := filepath.Join(*repo, "internal", "wire")
	ents, err := os.ReadDir(dir)
	if err != nil {
		return nil, err
	}
	var names []string
	for _, e := range ents {
		if strings.HasSuffix(e.Name(), ".go") && !strings.HasSuffix(e.Name(), "_test.go") {
			names = append(names, e.Name())
		}
	}
	sort.Strings(names)
	for _, n := range names {
		file, err := parser.ParseFile(p.fset, filepath.Join(dir, n), nil, 0)
		if err != nil {
			return nil, err
		}
		for _, d := range file.Decls {
			switch x := d.(type) {
			case *ast.GenDecl:
				for _, sp := range x.Specs {
					switch s := sp.(type) {
					case *ast.ValueSpec:
						for i, nm := range s.Names {
							if i < len(s.Values) {
								if x.Tok == token.CONST {
									p.consts[nm.Name] = s.Values[i]
								} else {
									p.vars[nm.Name] = s.Values[i]
								}
							}
						}
					case *ast.TypeSpec:
						p.types[s.Name.Name] = s.Type
					}
				}
			case *ast.FuncDecl:
				key := x.Name.Name
				if x.Recv != nil && len(x.Recv.List) == 1 {
					t := x.Recv.List[0].Type
					if st, ok := t.(*ast.StarExpr); ok {
						t = st.X
					}
					key = wcSel(t) + "." + key
				}
				p.decls[key] = x
			}
		}
	}
	return p, nil
}

func genWireCore() (string, error) {
	p, err := wcLoad()
	if err != nil {
		return "", err
	}
	var b strings.Builder
	b.WriteString(genHeader)
	b.WriteString("import BHS.Model.WirePrim\n\nset_option linter.unusedVariables false\n\nnamespace BHS.Gen.WireCore\n")
	b.WriteString("open BHS BHS.Gen BHS.Gen.WireC BHS.WirePrim\n")
	b.WriteString("open BHS.Wire (Bytes Err Rd Msg get8 get16le get16be get32le get64le getBytes put8 put16le put16be put32le put64le lookupCmd encodePayload decodeRd)\n\n")
	// struct messageHeader
	st, ok := p.types["messageHeader"].(*ast.StructType)
	if !ok {
		return "", fmt.Errorf("internal/wire: struct messageHeader not found")
	}
	b.WriteString("-- message.go type messageHeader\nstructure MessageHeader where\n")
	for _, fl := range st.Fields.List {
		k := p.kindOfType(fl.Type)
		for _, n := range fl.Names {
			p.hdr = append(p.hdr, struct {
				name string
				kind wcKind
			}{n.Name, k})
			switch {
			case k.k == "nat":
				fmt.Fprintf(&b, "  %s : Nat := 0\n", n.Name)
			case k.k == "bytes" && k.n != "":
				fmt.Fprintf(&b, "  %s : Bytes := zeros %s\n", n.Name, wcAtom(k.n))
			case k.k == "bytes":
				fmt.Fprintf(&b, "  %s : Bytes := []\n", n.Name)
			default:
				p.fail(fl, "field type of messageHeader")
			}
		}
	}
	b.WriteString("\n")
	if p.err != nil {
		return "", p.err
	}
	emit := func(key, lean string) {
		s := p.function(key, lean)
		b.WriteString(s + "\n")
	}
	emit("maxMessagePayload", "maxMessagePayload")
	// the functions above take `ebs`; inside the others maxMessagePayload() is the parameter gmax
	delete(p.funcs, "maxMessagePayload")
	emit("ReadVarInt", "readVarInt")
	emit("WriteVarInt", "writeVarInt")
	emit("VarIntSerializeSize", "varIntSerializeSize")
	emit("ReadVarString", "readVarString")
	emit("ReadVarBytes", "readVarBytes")
	emit("maxNetAddressPayload", "maxNetAddressPayload")
	if p.err != nil {
		return "", p.err
	}
	// MaxPayloadLength of every type named in makeEmptyMessage: translated for the modelled types, `none` otherwise
	table, err := wireCommandTable()
	if err != nil {
		return "", err
	}
	var rows []string
	seen := map[string]bool{}
	for _, e := range table {
		t := e[1]
		if seen[t] {
			continue
		}
		seen[t] = true
		if _, modelled := wireTypes[t]; !modelled {
			rows = append(rows, fmt.Sprintf("  | .%s => none -- a type outside the model", t))
			continue
		}
		key := t + ".MaxPayloadLength"
		emit(key, "mpl_"+t)
		if p.err != nil {
			return "", p.err
		}
		g := p.funcs[key]
		app := g.lean
		for _, im := range g.implicit {
			if im != "gmax" {
				return "", fmt.Errorf("%s: unsupported: needs %s", key, im)
			}
			app += " gmax"
		}
		if len(g.keep) == 1 {
			app += " pver"
		}
		rows = append(rows, fmt.Sprintf("  | .%s => some (%s)", t, app))
	}
	b.WriteString("-- msg.MaxPayloadLength(pver) by concrete type (the types of makeEmptyMessage, in switch order)\n")
	b.WriteString("def maxPayloadLength (gmax pver : Nat) : MsgType → Option Nat\n" + strings.Join(rows, "\n") + "\n\n")
	emit("readMessageHeader", "readMessageHeader")
	emit("ReadMessageWithEncodingN", "readMessageWithEncodingN")
	emit("WriteMessageWithEncodingN", "writeMessageWithEncodingN")
	if p.err != nil {
		return "", p.err
	}
	b.WriteString("end BHS.Gen.WireCore\n")
	return b.String(), nil
}
