package main

// Gen.Admission: the admission bookkeeping of the p2p server — transports/p2p/server.go handleAddPeerMsg,
// handleDonePeerMsg, handleBanPeerMsg and the int-valued methods of transports/p2p/peerstate.go (Count, CountIP) —
// TRANSLATED statement by statement from the Go source into Lean functions over the state of the hand model
// (BHS.Model.Peers.State / Peer / Cfg). The refinement theorems are in lean/BHS/Props/Admission.lean.
//
// SUBSET (everything else: `file:line: unsupported: …`, non-zero exit, the module is replaced by an empty one):
//   statements   if / else-if / else (optional init statement), early `return`, `var x map[..]..` (alias variable),
//                `x = state.<map field>` (alias of a map: Go maps are references, the alias is resolved statically on
//                every path), `x := e` (int / bool / time locals -> Lean `let`), `m[k] = v`, `m[k]++`, `m[k]--`,
//                `delete(m, k)`, `v, ok := m[k]`, `host, _, err := net.SplitHostPort(<peer>.Addr())`, expression
//                statements that are calls of the skip / record lists. No loops, no switch, no goto, no defer.
//                Control flow is rendered in continuation style: the statements after an `if` are translated once per
//                fall-through branch, so every path of the Go function is one straight line of Lean `let`s.
//   expressions  int literals, + and -, == != < <= > >= on ints, ! && || (short-circuit; folded when one side is
//                statically known), parentheses, `x == nil` / `x != nil` for the error of SplitHostPort (known per
//                branch) and for the peer parameter (the model has no nil peer: folds to "not nil").
//   peerState    the struct must have exactly the six map fields of the table admFields (checked against the parsed
//                type); methods with receiver *peerState, result int and a single `return e` become Lean functions.
//
// PRIMITIVE TABLE (Go -> Lean, names of BHS.Model.Peers)
//   peer maps  map[int32]*serverPeer   m[sp.ID()] = sp -> put m sp  (the key MUST be <value>.ID(), else unsupported)
//                                      delete(m, id) -> del m id;  _, ok := m[id] -> has m id;  len(m) -> m.length
//   banned     map[string]time.Time    total function Nat → Option Nat: v, ok := m[h] -> match m h with some v / none
//                                      (ok known per branch; the zero time of the `none` branch is not modelled: a use
//                                      of v there is unsupported); m[h] = t -> upd m h (some t); delete -> upd m h none
//   counters   map[string]int          total function Nat → Int, missing entry = 0: m[k] -> m k; m[k] = v -> upd m k v;
//                                      m[k]++ / m[k]-- -> bump m k 1 / (-1); delete(m, k) -> upd m k 0
//   net.SplitHostPort(<peer>.Addr())   parameter addr_ : Option Nat (some host / none = error); err known per branch;
//                                      the host of the error branch ("") is not modelled: a use there is unsupported
//   time.Now() -> state.now; t.Before(u) -> t < u; t.After(u) -> u < t; t.Add(d) -> t + d (ms, as in the hand model)
//   <recv>.p2pConfig.BanDuration -> cfg_.banMs; config.MaxPeers / config.MaxPeersPerIP -> cfg_.maxPeers / cfg_.maxPerIP
//   atomic.LoadInt32(&<recv>.shutdown) -> shutdownFlag state (1 when the model's flag is set, else 0)
//   sp.ID() -> sp.id; sp.Inbound() -> sp.kind = inbound; sp.persistent -> sp.kind = persistent (the hand model's Kind
//   has no inbound persistent peer: server.go creates inbound peers with newServerPeer(s, false, …));
//   sp.VersionKnown() -> sp.vk; addrmgr.GroupKey(sp.NA()) -> sp.group; state.Count() / state.CountIP(h) -> the
//   translated peerState methods.
//
// SKIP LIST (not translated; arguments must be side-effect free, checked against the table admPureCalls):
//   <x>.log.<Level>().Msgf/Msg(…);  <recv>.connManager.Disconnect(…);  <recv>.addrManager.Connected(…);
//   `x := logging.DirectionString(…)` (x may then only be used inside skipped calls);
//   an `if` whose branches consist of skipped calls only (its condition must be side-effect free).
// RECORD LIST: <peer>.Disconnect() — counted in the last component of the result (a function without such a call has
//   no such component).

import (
	"fmt"
	"go/ast"
	"go/parser"
	"go/token"
	"go/types"
	"path/filepath"
	"regexp"
	"strings"
)

func init() { register("Admission", genAdmission) }

type admKind int

const (
	akBad admKind = iota
	akInt
	akBool
	akTime
	akDur
	akHost
	akGroup
	akID
	akPeer
	akNA
	akNil
	akErr
	akPeerMap
	akOptMap
	akIntMap
	akLogOnly
	akNoMap // declared alias variable without a target yet
)

type admVal struct {
	lean  string
	k     admKind
	konst *bool  // akBool: statically known; akErr: true = err != nil
	field string // map kinds: Lean field of State
	why   string // akBad: why the value is not available
	id    int    // identity of the Go variable (scoping)
}

type admField struct {
	lean string
	k    admKind
	typ  string
}

// Go field of peerState -> Lean field of BHS.Model.Peers.State
var admFields = map[string]admField{
	"inboundPeers":    {"inb", akPeerMap, "map[int32]*serverPeer"},
	"outboundPeers":   {"outb", akPeerMap, "map[int32]*serverPeer"},
	"persistentPeers": {"pers", akPeerMap, "map[int32]*serverPeer"},
	"banned":          {"banned", akOptMap, "map[string]time.Time"},
	"outboundGroups":  {"groups", akIntMap, "map[string]int"},
	"connectionCount": {"conn", akIntMap, "map[string]int"},
}

// calls allowed inside skipped calls / conditions of skipped ifs (no side effects)
var admPureCalls = map[string]bool{"ID": true, "NA": true, "Addr": true, "Inbound": true, "VersionKnown": true,
	"VerAckReceived": true, "Until": true, "String": true}

var admLogRe = regexp.MustCompile(`^\w+\.log\.(Trace|Debug|Info|Warn|Error)\(\)\.(Msgf|Msg)$`)

// Go identifiers that are tokens of Lean are emitted as «name» (a missed one is a loud parse error of the generated file)
var admLeanKeywords = func() map[string]bool {
	m := map[string]bool{}
	for _, w := range strings.Fields(`abbrev at attribute axiom break by calc catch class continue def deriving do else end
		example export extends finally for from fun have if import in include inductive infix infixl infixr instance let local
		macro match meta mut mutual namespace nofun nomatch noncomputable nonrec notation omit opaque open partial postfix
		prefix private protected public repeat return scoped section show structure suffices syntax then theorem this try
		universe unless unsafe until using variable where while with Type Prop Sort elab initialize sorry admit
		termination_by decreasing_by`) {
		m[w] = true
	}
	return m
}()

type admErr struct{ msg string }

type admEnv struct{ vars map[string]admVal }

func (e *admEnv) clone() *admEnv {
	n := &admEnv{vars: map[string]admVal{}}
	for k, v := range e.vars {
		n.vars[k] = v
	}
	return n
}

// leaving a scope: variables of the outer scope keep what the inner scope assigned to them, names declared inside vanish
func admLeave(inner, outer *admEnv) *admEnv {
	n := &admEnv{vars: map[string]admVal{}}
	for k, o := range outer.vars {
		if i, ok := inner.vars[k]; ok && i.id == o.id {
			n.vars[k] = i
		} else {
			n.vars[k] = o
		}
	}
	return n
}

type admTr struct {
	fset    *token.FileSet
	recv    string // Go name of the *server receiver ("" in peerState methods)
	state   string // Go name of the *peerState parameter / receiver
	peer    string // Go name of the *serverPeer / *peer.Peer parameter
	methods map[string]int
	nextID  int
	record  bool // the function contains a call of the record list
	useCfg  bool
	useAddr bool
	results int
}

func (t *admTr) fail(n ast.Node, msg string) {
	panic(admErr{fmt.Sprintf("%s: unsupported: %s", t.fset.Position(n.Pos()), msg)})
}

func admName(s string) string {
	if admLeanKeywords[s] {
		return "«" + s + "»"
	}
	return s
}

func (t *admTr) fresh(v admVal) admVal {
	t.nextID++
	v.id = t.nextID
	return v
}

func admPad(n int) string { return strings.Repeat("  ", n) }

// a.b().c rendered as text
func admPath(e ast.Expr) string {
	switch x := e.(type) {
	case *ast.Ident:
		return x.Name
	case *ast.SelectorExpr:
		return admPath(x.X) + "." + x.Sel.Name
	case *ast.CallExpr:
		if len(x.Args) == 0 {
			return admPath(x.Fun) + "()"
		}
	case *ast.UnaryExpr:
		if x.Op == token.AND {
			return "&" + admPath(x.X)
		}
	}
	return "?"
}

func admBool(b bool) *bool { return &b }

func admConst(b bool) admVal {
	if b {
		return admVal{lean: "true", k: akBool, konst: admBool(true)}
	}
	return admVal{lean: "false", k: akBool, konst: admBool(false)}
}

// ---------- side-effect-free check for what is skipped ----------

func (t *admTr) pure(e ast.Expr) {
	switch x := e.(type) {
	case *ast.Ident, *ast.BasicLit:
	case *ast.SelectorExpr:
		t.pure(x.X)
	case *ast.ParenExpr:
		t.pure(x.X)
	case *ast.UnaryExpr:
		if x.Op != token.NOT && x.Op != token.AND && x.Op != token.SUB {
			t.fail(e, "operator "+x.Op.String()+" inside skipped code")
		}
		t.pure(x.X)
	case *ast.BinaryExpr:
		t.pure(x.X)
		t.pure(x.Y)
	case *ast.CallExpr:
		sel, ok := x.Fun.(*ast.SelectorExpr)
		if !ok || !admPureCalls[sel.Sel.Name] {
			t.fail(e, "call "+admPath(x.Fun)+" inside skipped code (not in the side-effect-free table)")
		}
		t.pure(sel.X)
		for _, a := range x.Args {
			t.pure(a)
		}
	default:
		t.fail(e, "expression inside skipped code")
	}
}

// call of the skip list? (shape only)
func (t *admTr) isSkipCall(c *ast.CallExpr) bool {
	p := admPath(c.Fun)
	return admLogRe.MatchString(p) || (t.recv != "" && (p == t.recv+".connManager.Disconnect" || p == t.recv+".addrManager.Connected"))
}

// skipped call? (its arguments must be side-effect free)
func (t *admTr) skipCall(c *ast.CallExpr) bool {
	if !t.isSkipCall(c) {
		return false
	}
	for _, a := range c.Args {
		t.pure(a)
	}
	return true
}

func (t *admTr) recordCall(c *ast.CallExpr) bool {
	return t.peer != "" && admPath(c.Fun) == t.peer+".Disconnect" && len(c.Args) == 0
}

// a non-empty statement list made of skipped calls only
func (t *admTr) onlySkipped(list []ast.Stmt) bool {
	for _, s := range list {
		es, ok := s.(*ast.ExprStmt)
		if !ok {
			return false
		}
		c, ok := es.X.(*ast.CallExpr)
		if !ok || t.recordCall(c) || !t.isSkipCall(c) {
			return false
		}
	}
	return len(list) > 0
}

func (t *admTr) hasRecord(n ast.Node) bool {
	found := false
	ast.Inspect(n, func(m ast.Node) bool {
		if c, ok := m.(*ast.CallExpr); ok && t.recordCall(c) {
			found = true
		}
		return true
	})
	return found
}

// ---------- expressions ----------

func (t *admTr) st() string { return admName(t.state) }

func (t *admTr) mapOf(e ast.Expr, env *admEnv) admVal {
	v := t.expr(e, env)
	switch v.k {
	case akPeerMap, akOptMap, akIntMap:
		v.lean = t.st() + "." + v.field
		return v
	case akNoMap:
		t.fail(e, "map variable used before it is assigned")
	}
	t.fail(e, "not a map of peerState")
	return v
}

func (t *admTr) want(e ast.Expr, env *admEnv, k admKind, what string) admVal {
	v := t.expr(e, env)
	if v.k == akBad {
		t.fail(e, v.why)
	}
	if v.k != k {
		t.fail(e, "expected "+what)
	}
	return v
}

func (t *admTr) expr(e ast.Expr, env *admEnv) admVal {
	switch x := e.(type) {
	case *ast.ParenExpr:
		v := t.expr(x.X, env)
		if v.konst == nil && v.k != akPeerMap && v.k != akOptMap && v.k != akIntMap {
			v.lean = "(" + v.lean + ")"
		}
		return v
	case *ast.BasicLit:
		if x.Kind == token.INT {
			return admVal{lean: "(" + x.Value + " : Int)", k: akInt}
		}
	case *ast.Ident:
		switch x.Name {
		case "nil":
			return admVal{k: akNil}
		case "true":
			return admConst(true)
		case "false":
			return admConst(false)
		}
		if v, ok := env.vars[x.Name]; ok {
			return v
		}
		if x.Name == t.peer {
			return admVal{lean: admName(t.peer), k: akPeer}
		}
		t.fail(e, "identifier "+x.Name)
	case *ast.SelectorExpr:
		p := admPath(x)
		if base, ok := x.X.(*ast.Ident); ok && base.Name == t.state {
			if _, shadow := env.vars[t.state]; !shadow {
				if f, ok := admFields[x.Sel.Name]; ok {
					return admVal{k: f.k, field: f.lean}
				}
			}
		}
		switch {
		case t.peer != "" && p == t.peer+".persistent":
			return admVal{lean: "decide (" + admName(t.peer) + ".kind = Kind.persistent)", k: akBool}
		case p == "config.MaxPeers":
			t.useCfg = true
			return admVal{lean: "(cfg_.maxPeers : Int)", k: akInt}
		case p == "config.MaxPeersPerIP":
			t.useCfg = true
			return admVal{lean: "(cfg_.maxPerIP : Int)", k: akInt}
		case t.recv != "" && p == t.recv+".p2pConfig.BanDuration":
			t.useCfg = true
			return admVal{lean: "cfg_.banMs", k: akDur}
		}
		t.fail(e, "selector "+p)
	case *ast.IndexExpr:
		m := t.mapOf(x.X, env)
		if m.k != akIntMap {
			t.fail(e, "single-value read of a map whose zero value is not modelled")
		}
		key := t.keyOf(x.Index, env, m)
		return admVal{lean: "(" + m.lean + " " + key + ")", k: akInt}
	case *ast.UnaryExpr:
		if x.Op == token.NOT {
			v := t.want(x.X, env, akBool, "a boolean")
			if v.konst != nil {
				return admConst(!*v.konst)
			}
			return admVal{lean: "(!" + v.lean + ")", k: akBool}
		}
	case *ast.BinaryExpr:
		return t.binary(x, env)
	case *ast.CallExpr:
		return t.call(x, env)
	}
	t.fail(e, "expression")
	return admVal{}
}

// key of a map access, by the map's kind
func (t *admTr) keyOf(e ast.Expr, env *admEnv, m admVal) string {
	v := t.expr(e, env)
	if v.k == akBad {
		t.fail(e, v.why)
	}
	switch {
	case m.k == akPeerMap && v.k == akID:
		return v.lean
	case m.field == "groups" && v.k == akGroup:
		return v.lean
	case (m.field == "conn" || m.field == "banned") && v.k == akHost:
		return v.lean
	}
	t.fail(e, "key of the wrong sort for state."+m.field)
	return ""
}

func (t *admTr) binary(x *ast.BinaryExpr, env *admEnv) admVal {
	switch x.Op {
	case token.LAND, token.LOR:
		and := x.Op == token.LAND
		l := t.want(x.X, env, akBool, "a boolean")
		if l.konst != nil {
			if *l.konst != and { // false && _ , true || _ : the right operand is never evaluated
				return admConst(!and)
			}
			return t.want(x.Y, env, akBool, "a boolean")
		}
		r := t.want(x.Y, env, akBool, "a boolean")
		if r.konst != nil {
			if *r.konst != and { // l && false, l || true (l has no side effects)
				return admConst(!and)
			}
			return l
		}
		op := " && "
		if !and {
			op = " || "
		}
		return admVal{lean: "(" + l.lean + op + r.lean + ")", k: akBool}
	case token.EQL, token.NEQ, token.LSS, token.LEQ, token.GTR, token.GEQ:
		l, r := t.expr(x.X, env), t.expr(x.Y, env)
		if l.k == akNil {
			l, r = r, l
		}
		if r.k == akNil && (x.Op == token.EQL || x.Op == token.NEQ) {
			switch l.k {
			case akErr:
				return admConst(*l.konst == (x.Op == token.NEQ))
			case akPeer: // the model has no nil peer
				return admConst(x.Op == token.NEQ)
			}
			t.fail(x, "nil comparison of this operand")
		}
		if l.k == akBad {
			t.fail(x.X, l.why)
		}
		if r.k == akBad {
			t.fail(x.Y, r.why)
		}
		if l.k != akInt || r.k != akInt {
			t.fail(x, "comparison of non-integers")
		}
		op := map[token.Token]string{token.EQL: "=", token.NEQ: "≠", token.LSS: "<", token.LEQ: "≤", token.GTR: ">", token.GEQ: "≥"}[x.Op]
		return admVal{lean: "decide (" + l.lean + " " + op + " " + r.lean + ")", k: akBool}
	case token.ADD, token.SUB:
		l := t.want(x.X, env, akInt, "an integer")
		r := t.want(x.Y, env, akInt, "an integer")
		return admVal{lean: "(" + l.lean + " " + x.Op.String() + " " + r.lean + ")", k: akInt}
	}
	t.fail(x, "operator "+x.Op.String())
	return admVal{}
}

func (t *admTr) call(x *ast.CallExpr, env *admEnv) admVal {
	p := admPath(x.Fun)
	sp := admName(t.peer)
	switch {
	case p == "len" && len(x.Args) == 1:
		m := t.mapOf(x.Args[0], env)
		if m.k != akPeerMap {
			t.fail(x, "len of a map represented as a total function")
		}
		return admVal{lean: "(Int.ofNat " + m.lean + ".length)", k: akInt}
	case p == "time.Now" && len(x.Args) == 0:
		return admVal{lean: t.st() + ".now", k: akTime}
	case p == "atomic.LoadInt32" && len(x.Args) == 1 && t.recv != "" && admPath(x.Args[0]) == "&"+t.recv+".shutdown":
		return admVal{lean: "(shutdownFlag " + t.st() + ")", k: akInt}
	case p == "addrmgr.GroupKey" && len(x.Args) == 1:
		t.want(x.Args[0], env, akNA, "<peer>.NA()")
		return admVal{lean: sp + ".group", k: akGroup}
	}
	if t.peer != "" && len(x.Args) == 0 {
		switch p {
		case t.peer + ".ID":
			return admVal{lean: sp + ".id", k: akID}
		case t.peer + ".Inbound":
			return admVal{lean: "decide (" + sp + ".kind = Kind.inbound)", k: akBool}
		case t.peer + ".VersionKnown":
			return admVal{lean: sp + ".vk", k: akBool}
		case t.peer + ".NA":
			return admVal{k: akNA}
		}
	}
	if sel, ok := x.Fun.(*ast.SelectorExpr); ok {
		// methods of peerState translated from peerstate.go
		if base, ok := sel.X.(*ast.Ident); ok && base.Name == t.state {
			if n, ok := t.methods[sel.Sel.Name]; ok && n == len(x.Args) {
				s := "(peerState_" + sel.Sel.Name + " " + t.st()
				for _, a := range x.Args {
					s += " " + t.want(a, env, akHost, "a host").lean
				}
				return admVal{lean: s + ")", k: akInt}
			}
			t.fail(x, "method "+sel.Sel.Name+" of peerState (not an int-valued single-return method)")
		}
		// time arithmetic
		if len(x.Args) == 1 {
			switch sel.Sel.Name {
			case "Before", "After":
				a := t.want(sel.X, env, akTime, "a time")
				b := t.want(x.Args[0], env, akTime, "a time")
				if sel.Sel.Name == "After" {
					a, b = b, a
				}
				return admVal{lean: "decide (" + a.lean + " < " + b.lean + ")", k: akBool}
			case "Add":
				a := t.want(sel.X, env, akTime, "a time")
				d := t.want(x.Args[0], env, akDur, "a duration")
				return admVal{lean: "(" + a.lean + " + " + d.lean + ")", k: akTime}
			}
		}
	}
	t.fail(x, "call "+p+" (not in the primitive table)")
	return admVal{}
}

// ---------- statements ----------

type admCont func(env *admEnv, ind int) string

func (t *admTr) setState(field, val string, ind int) string {
	return admPad(ind) + "let " + t.st() + " := { " + t.st() + " with " + field + " := " + val + " };\n"
}

func (t *admTr) block(list []ast.Stmt, env *admEnv, ind int, k admCont) string {
	if len(list) == 0 {
		return k(env, ind)
	}
	rest := func(env2 *admEnv, ind2 int) string { return t.block(list[1:], env2, ind2, k) }
	return t.stmt(list[0], env, ind, rest)
}

// a nested block with its own scope
func (t *admTr) scoped(list []ast.Stmt, env *admEnv, ind int, k admCont) string {
	return t.block(list, env.clone(), ind, func(inner *admEnv, ind2 int) string { return k(admLeave(inner, env), ind2) })
}

func (t *admTr) terminal(ret []string, ind int) string {
	parts := append([]string{t.st()}, ret...)
	if t.record {
		parts = append(parts, "disc_")
	}
	if len(parts) == 1 {
		return admPad(ind) + parts[0]
	}
	return admPad(ind) + "(" + strings.Join(parts, ", ") + ")"
}

func (t *admTr) stmt(s ast.Stmt, env *admEnv, ind int, k admCont) string {
	switch x := s.(type) {
	case *ast.ReturnStmt:
		if len(x.Results) != t.results {
			t.fail(s, "number of results")
		}
		var ret []string
		for _, r := range x.Results {
			ret = append(ret, t.want(r, env, akBool, "a boolean result").lean)
		}
		return t.terminal(ret, ind)
	case *ast.BlockStmt:
		return t.scoped(x.List, env, ind, k)
	case *ast.ExprStmt:
		c, ok := x.X.(*ast.CallExpr)
		if !ok {
			t.fail(s, "expression statement")
		}
		if t.recordCall(c) {
			return admPad(ind) + "let disc_ := disc_ + 1;\n" + k(env, ind)
		}
		if t.skipCall(c) {
			return k(env, ind)
		}
		if admPath(c.Fun) == "delete" && len(c.Args) == 2 {
			m := t.mapOf(c.Args[0], env)
			key := t.keyOf(c.Args[1], env, m)
			var val string
			switch m.k {
			case akPeerMap:
				val = "del " + m.lean + " " + key
			case akOptMap:
				val = "upd " + m.lean + " " + key + " none"
			default:
				val = "upd " + m.lean + " " + key + " 0"
			}
			return t.setState(m.field, val, ind) + k(env, ind)
		}
		t.fail(s, "call "+admPath(c.Fun)+" (not in the primitive, skip or record tables)")
	case *ast.IncDecStmt:
		ix, ok := x.X.(*ast.IndexExpr)
		if !ok {
			t.fail(s, "++/-- of something that is not a counter map entry")
		}
		m := t.mapOf(ix.X, env)
		if m.k != akIntMap {
			t.fail(s, "++/-- on a non-counter map")
		}
		d := "1"
		if x.Tok == token.DEC {
			d = "(-1)"
		}
		return t.setState(m.field, "bump "+m.lean+" "+t.keyOf(ix.Index, env, m)+" "+d, ind) + k(env, ind)
	case *ast.DeclStmt:
		gd, ok := x.Decl.(*ast.GenDecl)
		if !ok || gd.Tok != token.VAR {
			t.fail(s, "declaration")
		}
		env = env.clone()
		for _, spec := range gd.Specs {
			vs := spec.(*ast.ValueSpec)
			if len(vs.Values) != 0 || vs.Type == nil || types.ExprString(vs.Type) != "map[int32]*serverPeer" {
				t.fail(s, "var declaration other than an uninitialised peer-map variable")
			}
			for _, n := range vs.Names {
				env.vars[n.Name] = t.fresh(admVal{k: akNoMap})
			}
		}
		return k(env, ind)
	case *ast.AssignStmt:
		return t.assign(x, env, ind, k)
	case *ast.IfStmt:
		return t.ifStmt(x, env, ind, k)
	}
	t.fail(s, fmt.Sprintf("statement %T", s))
	return ""
}

func (t *admTr) assign(x *ast.AssignStmt, env *admEnv, ind int, k admCont) string {
	define := x.Tok == token.DEFINE
	if x.Tok != token.ASSIGN && !define {
		t.fail(x, "assignment operator "+x.Tok.String())
	}
	name := func(e ast.Expr) string {
		id, ok := e.(*ast.Ident)
		if !ok {
			t.fail(e, "assignment target")
		}
		if id.Name == t.state || id.Name == t.peer || id.Name == t.recv || id.Name == "cfg_" || id.Name == "addr_" || id.Name == "disc_" {
			t.fail(e, "assignment to "+id.Name)
		}
		return id.Name
	}
	// host, _, err := net.SplitHostPort(<peer>.Addr())
	if len(x.Lhs) == 3 && len(x.Rhs) == 1 {
		c, ok := x.Rhs[0].(*ast.CallExpr)
		if !ok || !define || admPath(c.Fun) != "net.SplitHostPort" || len(c.Args) != 1 || t.peer == "" || admPath(c.Args[0]) != t.peer+".Addr()" {
			t.fail(x, "three-value assignment other than `h, _, err := net.SplitHostPort(<peer>.Addr())`")
		}
		h, port, er := name(x.Lhs[0]), name(x.Lhs[1]), name(x.Lhs[2])
		if port != "_" {
			t.fail(x.Lhs[1], "the port of SplitHostPort is not modelled")
		}
		t.useAddr = true
		okEnv, errEnv := env.clone(), env.clone()
		pat := "_"
		if h != "_" {
			pat = admName(h)
			okEnv.vars[h] = t.fresh(admVal{lean: pat, k: akHost})
			errEnv.vars[h] = admVal{k: akBad, why: "host after a failed SplitHostPort (\"\") is not modelled", id: okEnv.vars[h].id}
		}
		if er != "_" {
			okEnv.vars[er] = t.fresh(admVal{k: akErr, konst: admBool(false)})
			errEnv.vars[er] = admVal{k: akErr, konst: admBool(true), id: okEnv.vars[er].id}
		}
		return admPad(ind) + "(match addr_ with\n" + admPad(ind) + "| some " + pat + " =>\n" + k(okEnv, ind+1) + "\n" +
			admPad(ind) + "| none =>\n" + k(errEnv, ind+1) + ")"
	}
	// v, ok := m[k]
	if len(x.Lhs) == 2 && len(x.Rhs) == 1 {
		ix, isIx := x.Rhs[0].(*ast.IndexExpr)
		if !isIx || !define {
			t.fail(x, "two-value assignment other than `v, ok := m[k]`")
		}
		v, okn := name(x.Lhs[0]), name(x.Lhs[1])
		m := t.mapOf(ix.X, env)
		key := t.keyOf(ix.Index, env, m)
		switch m.k {
		case akPeerMap:
			if v != "_" {
				t.fail(x.Lhs[0], "value of a peer-map lookup is not modelled (only `_, ok := m[id]`)")
			}
			env = env.clone()
			if okn == "_" {
				return k(env, ind)
			}
			env.vars[okn] = t.fresh(admVal{lean: admName(okn), k: akBool})
			return admPad(ind) + "let " + admName(okn) + " := has " + m.lean + " " + key + ";\n" + k(env, ind)
		case akOptMap:
			someEnv, noneEnv := env.clone(), env.clone()
			pat := "_"
			if v != "_" {
				pat = admName(v)
				someEnv.vars[v] = t.fresh(admVal{lean: pat, k: akTime})
				noneEnv.vars[v] = admVal{k: akBad, why: "zero time.Time of a missing map entry is not modelled", id: someEnv.vars[v].id}
			}
			if okn != "_" {
				someEnv.vars[okn] = t.fresh(admConst(true))
				nv := admConst(false)
				nv.id = someEnv.vars[okn].id
				noneEnv.vars[okn] = nv
			}
			return admPad(ind) + "(match " + m.lean + " " + key + " with\n" + admPad(ind) + "| some " + pat + " =>\n" + k(someEnv, ind+1) + "\n" +
				admPad(ind) + "| none =>\n" + k(noneEnv, ind+1) + ")"
		}
		t.fail(x, "two-value lookup in a counter map")
	}
	if len(x.Lhs) != 1 || len(x.Rhs) != 1 {
		t.fail(x, "assignment shape")
	}
	// m[k] = v
	if ix, ok := x.Lhs[0].(*ast.IndexExpr); ok && !define {
		m := t.mapOf(ix.X, env)
		switch m.k {
		case akPeerMap:
			v := t.want(x.Rhs[0], env, akPeer, "the peer")
			if c, ok := ix.Index.(*ast.CallExpr); !ok || admPath(c) != admPath(x.Rhs[0])+".ID()" {
				t.fail(x, "peer map store whose key is not <value>.ID()")
			}
			return t.setState(m.field, "put "+m.lean+" "+v.lean, ind) + k(env, ind)
		case akOptMap:
			v := t.want(x.Rhs[0], env, akTime, "a time")
			return t.setState(m.field, "upd "+m.lean+" "+t.keyOf(ix.Index, env, m)+" (some "+v.lean+")", ind) + k(env, ind)
		default:
			v := t.want(x.Rhs[0], env, akInt, "an integer")
			return t.setState(m.field, "upd "+m.lean+" "+t.keyOf(ix.Index, env, m)+" "+v.lean, ind) + k(env, ind)
		}
	}
	n := name(x.Lhs[0])
	// x := logging.DirectionString(…): only for the log
	if c, ok := x.Rhs[0].(*ast.CallExpr); ok && define && admPath(c.Fun) == "logging.DirectionString" {
		for _, a := range c.Args {
			t.pure(a)
		}
		env = env.clone()
		env.vars[n] = t.fresh(admVal{k: akBad, why: n + " is computed by a skipped call (log only)"})
		return k(env, ind)
	}
	v := t.expr(x.Rhs[0], env)
	if v.k == akBad {
		t.fail(x.Rhs[0], v.why)
	}
	old, exists := env.vars[n]
	if n == "_" {
		return k(env, ind)
	}
	if define && exists {
		t.fail(x, "redeclaration / shadowing of "+n)
	}
	env = env.clone()
	switch v.k {
	case akPeerMap: // alias of a map of the state
		if define {
			env.vars[n] = t.fresh(admVal{k: akPeerMap, field: v.field})
		} else {
			if !exists || (old.k != akNoMap && old.k != akPeerMap) {
				t.fail(x, "assignment of a map to "+n)
			}
			env.vars[n] = admVal{k: akPeerMap, field: v.field, id: old.id}
		}
		return k(env, ind)
	case akInt, akBool, akTime, akHost:
		if !define {
			if !exists || old.k != v.k {
				t.fail(x, "assignment to "+n)
			}
			env.vars[n] = admVal{lean: admName(n), k: v.k, id: old.id}
		} else {
			env.vars[n] = t.fresh(admVal{lean: admName(n), k: v.k})
		}
		return admPad(ind) + "let " + admName(n) + " := " + v.lean + ";\n" + k(env, ind)
	}
	t.fail(x, "assignment of this sort of value")
	return ""
}

func (t *admTr) ifStmt(x *ast.IfStmt, env *admEnv, ind int, k admCont) string {
	if x.Init != nil {
		as, ok := x.Init.(*ast.AssignStmt)
		if !ok {
			t.fail(x.Init, "if-init statement")
		}
		noInit := *x
		noInit.Init = nil
		return t.assign(as, env.clone(), ind, func(inner *admEnv, ind2 int) string {
			return t.ifStmt(&noInit, inner, ind2, func(after *admEnv, ind3 int) string { return k(admLeave(after, env), ind3) })
		})
	}
	// an if that only guards skipped calls
	var elseList []ast.Stmt
	elseSkipped := x.Else == nil
	if b, ok := x.Else.(*ast.BlockStmt); ok {
		elseList, elseSkipped = b.List, t.onlySkipped(b.List)
	}
	if elseSkipped && t.onlySkipped(x.Body.List) {
		for _, s := range append(append([]ast.Stmt{}, x.Body.List...), elseList...) {
			t.skipCall(s.(*ast.ExprStmt).X.(*ast.CallExpr))
		}
		t.pure(x.Cond)
		return k(env, ind)
	}
	c := t.want(x.Cond, env, akBool, "a boolean condition")
	thenB := func(ind2 int) string { return t.scoped(x.Body.List, env, ind2, k) }
	elseB := func(ind2 int) string {
		switch e := x.Else.(type) {
		case nil:
			return k(env, ind2)
		case *ast.BlockStmt:
			return t.scoped(e.List, env, ind2, k)
		case *ast.IfStmt:
			return t.ifStmt(e, env, ind2, k)
		}
		t.fail(x.Else, "else")
		return ""
	}
	if c.konst != nil { // statically decided on this path (err / ok of a lookup / nil peer)
		if *c.konst {
			return thenB(ind)
		}
		return elseB(ind)
	}
	return admPad(ind) + "(if " + c.lean + " then\n" + thenB(ind+1) + "\n" + admPad(ind) + "else\n" + elseB(ind+1) + ")"
}

// ---------- functions ----------

func admFindFunc(f *ast.File, name string) *ast.FuncDecl {
	for _, d := range f.Decls {
		if fd, ok := d.(*ast.FuncDecl); ok && fd.Name.Name == name && fd.Recv != nil {
			return fd
		}
	}
	return nil
}

func (t *admTr) handler(fd *ast.FuncDecl) string {
	t.recv, t.state, t.peer = "", "", ""
	t.record, t.useCfg, t.useAddr = false, false, false
	if len(fd.Recv.List) != 1 || len(fd.Recv.List[0].Names) != 1 || types.ExprString(fd.Recv.List[0].Type) != "*server" {
		t.fail(fd, "receiver")
	}
	t.recv = fd.Recv.List[0].Names[0].Name
	for _, p := range fd.Type.Params.List {
		ty := types.ExprString(p.Type)
		for _, n := range p.Names {
			switch ty {
			case "*peerState":
				t.state = n.Name
			case "*serverPeer", "*peer.Peer":
				t.peer = n.Name
			default:
				t.fail(p, "parameter type "+ty)
			}
		}
	}
	if t.state == "" || t.peer == "" {
		t.fail(fd, "handler without a *peerState and a peer parameter")
	}
	t.results = 0
	resTy := "State"
	if fd.Type.Results != nil {
		if len(fd.Type.Results.List) != 1 || len(fd.Type.Results.List[0].Names) != 0 || types.ExprString(fd.Type.Results.List[0].Type) != "bool" {
			t.fail(fd.Type.Results, "result type (only none or bool)")
		}
		t.results = 1
		resTy += " × Bool"
	}
	t.record = t.hasRecord(fd.Body)
	if t.record {
		resTy += " × Nat"
	}
	body := t.block(fd.Body.List, &admEnv{vars: map[string]admVal{}}, 1, func(_ *admEnv, ind int) string {
		if t.results != 0 {
			t.fail(fd, "missing return")
		}
		return t.terminal(nil, ind)
	})
	sig := "def " + fd.Name.Name
	if t.useCfg {
		sig += " (cfg_ : Cfg)"
	}
	sig += " (" + t.st() + " : State) (" + admName(t.peer) + " : Peer)"
	if t.useAddr {
		sig += " (addr_ : Option Nat)"
	}
	sig += " : " + resTy + " :=\n"
	if t.record {
		sig += "  let disc_ : Nat := 0;\n"
	}
	return sig + body + "\n"
}

func (t *admTr) method(fd *ast.FuncDecl) string {
	t.recv, t.peer = "", ""
	t.state = fd.Recv.List[0].Names[0].Name
	env := &admEnv{vars: map[string]admVal{}}
	sig := "def peerState_" + fd.Name.Name + " (" + t.st() + " : State)"
	for _, p := range fd.Type.Params.List {
		if types.ExprString(p.Type) != "string" {
			t.fail(p, "parameter type of a peerState method (only string = host)")
		}
		for _, n := range p.Names {
			env.vars[n.Name] = t.fresh(admVal{lean: admName(n.Name), k: akHost})
			sig += " (" + admName(n.Name) + " : Nat)"
		}
	}
	rs := fd.Body.List[0].(*ast.ReturnStmt)
	return sig + " : Int :=\n  " + t.want(rs.Results[0], env, akInt, "an integer").lean + "\n"
}

func genAdmission() (res string, err error) {
	defer func() {
		if r := recover(); r != nil {
			if e, ok := r.(admErr); ok {
				res, err = "", fmt.Errorf("%s", e.msg)
				return
			}
			panic(r)
		}
	}()
	fset := token.NewFileSet()
	t := &admTr{fset: fset, methods: map[string]int{}}
	psFile := filepath.Join(*repo, "transports", "p2p", "peerstate.go")
	pf, err := parser.ParseFile(fset, psFile, nil, 0)
	if err != nil {
		return "", err
	}
	var b strings.Builder
	b.WriteString(genHeader)
	b.WriteString("-- translated by harness/cmd/extract/gen_admission.go (subset, primitive table, skip/record lists: see its header)\n")
	b.WriteString("import BHS.Model.Peers\n\nset_option linter.unusedVariables false\n\nnamespace BHS.Gen.Admission\nopen BHS.Model.Peers\n\n")
	b.WriteString("/-- primitive: `atomic.LoadInt32(&s.shutdown)` (`Stop` adds 1 once; the model keeps the flag) -/\n")
	b.WriteString("def shutdownFlag (s : State) : Int := if s.shutdown then 1 else 0\n\n")
	// the struct: exactly the fields of the table, with the expected map types
	seen := 0
	found := false
	for _, d := range pf.Decls {
		gd, ok := d.(*ast.GenDecl)
		if !ok || gd.Tok != token.TYPE {
			continue
		}
		for _, sp := range gd.Specs {
			ts := sp.(*ast.TypeSpec)
			st, ok := ts.Type.(*ast.StructType)
			if ts.Name.Name != "peerState" || !ok {
				continue
			}
			found = true
			for _, f := range st.Fields.List {
				for _, n := range f.Names {
					want, ok := admFields[n.Name]
					if !ok {
						t.fail(f, "field "+n.Name+" of peerState is not in the field table")
					}
					if got := types.ExprString(f.Type); got != want.typ {
						t.fail(f, "field "+n.Name+" has type "+got+", the table expects "+want.typ)
					}
					seen++
				}
			}
		}
	}
	if !found || seen != len(admFields) {
		return "", fmt.Errorf("%s: unsupported: peerState does not have exactly the %d fields of the field table", psFile, len(admFields))
	}
	// int-valued single-return methods of peerState
	for _, d := range pf.Decls {
		fd, ok := d.(*ast.FuncDecl)
		if !ok || fd.Recv == nil || len(fd.Recv.List) != 1 || len(fd.Recv.List[0].Names) != 1 || types.ExprString(fd.Recv.List[0].Type) != "*peerState" {
			continue
		}
		if fd.Type.Results == nil || len(fd.Type.Results.List) != 1 || types.ExprString(fd.Type.Results.List[0].Type) != "int" {
			continue
		}
		if len(fd.Body.List) != 1 {
			t.fail(fd, "int-valued peerState method that is not a single return")
		}
		if rs, ok := fd.Body.List[0].(*ast.ReturnStmt); !ok || len(rs.Results) != 1 {
			t.fail(fd, "int-valued peerState method that is not a single return")
		}
		b.WriteString("/-- transports/p2p/peerstate.go (*peerState)." + fd.Name.Name + " -/\n" + t.method(fd) + "\n")
		t.methods[fd.Name.Name] = fd.Type.Params.NumFields()
	}
	srvFile := filepath.Join(*repo, "transports", "p2p", "server.go")
	sf, err := parser.ParseFile(fset, srvFile, nil, 0)
	if err != nil {
		return "", err
	}
	for _, name := range []string{"handleAddPeerMsg", "handleDonePeerMsg", "handleBanPeerMsg"} {
		fd := admFindFunc(sf, name)
		if fd == nil {
			return "", fmt.Errorf("%s: %s not found", srvFile, name)
		}
		b.WriteString("/-- transports/p2p/server.go (*server)." + name + " -/\n" + t.handler(fd) + "\n")
	}
	b.WriteString("end BHS.Gen.Admission\n")
	return b.String(), nil
}
