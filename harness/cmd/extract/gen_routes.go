package main

// Gen.Routes: the gin routing table as cmd/main.go builds it
// (httpserver.NewHTTPServer + metrics.Register + endpoints.SetupRoutes +
// websocket Server.SetupEntrypoint), enumerated at run time with
// engine.Routes() for each of the 8 configurations
// {use_auth} x {debug_profiling} x {metrics enabled}.
//
// metrics.EnableMetrics() sets a package global that cannot be unset, so the
// four metrics-off tables are produced first.

import (
	"fmt"
	"os"
	"path/filepath"
	"sort"
	"strings"

	"github.com/bitcoin-sv/block-headers-service/metrics"
	"github.com/bitcoin-sv/block-headers-service/transports/http/endpoints"
	httpserver "github.com/bitcoin-sv/block-headers-service/transports/http/server"
	"github.com/bitcoin-sv/block-headers-service/transports/websocket"
	"github.com/bitcoin-sv/block-headers-service/verifharness/lib"
	"github.com/gin-gonic/gin"
)

func init() { register("Routes", genRoutes) }

func leanStr(s string) string {
	var b strings.Builder
	b.WriteByte('"')
	for _, r := range s {
		switch {
		case r == '"':
			b.WriteString("\\\"")
		case r == '\\':
			b.WriteString("\\\\")
		case r < 0x20 || r == 0x7f:
			fmt.Fprintf(&b, "\\x%02x", r)
		default:
			b.WriteRune(r)
		}
	}
	b.WriteByte('"')
	return b.String()
}

func leanBool(v bool) string {
	if v {
		return "true"
	}
	return "false"
}

func sortRoutes(rs [][2]string) {
	sort.Slice(rs, func(i, j int) bool {
		if rs[i][1] != rs[j][1] {
			return rs[i][1] < rs[j][1]
		}
		return rs[i][0] < rs[j][0]
	})
}

func genRoutes() (s string, err error) {
	defer func() {
		if r := recover(); r != nil {
			err = fmt.Errorf("building the gin engine panicked: %v", r)
		}
	}()
	if _, on := metrics.Get(); on {
		return "", fmt.Errorf("metrics already enabled in the extractor process: metrics-off tables cannot be produced")
	}
	dir, err := os.MkdirTemp("/dev/shm", "verif-extract-routes-")
	if err != nil {
		return "", err
	}
	defer os.RemoveAll(dir)
	old, had := os.LookupEnv("VERIF_WORK")
	os.Setenv("VERIF_WORK", dir)
	defer func() {
		if had {
			os.Setenv("VERIF_WORK", old)
		} else {
			os.Unsetenv("VERIF_WORK")
		}
	}()
	st, err := lib.NewStack(lib.StackOpts{File: filepath.Join(dir, "routes.db"), NoEngine: true, AdminToken: "extract-admin"})
	if err != nil {
		return "", err
	}
	defer st.Close()

	var b strings.Builder
	b.WriteString(genHeader)
	b.WriteString("-- engine.Routes() of the gin engine wired as cmd/main.go does, for {use_auth} x {debug_profiling} x {metrics}\n")
	b.WriteString("import BHS.Model.Auth\n\nnamespace BHS.Gen\nopen BHS.Model.Auth\n\n")
	var names, wnames []string
	for _, m := range []bool{false, true} {
		if m {
			metrics.EnableMetrics()
		}
		for _, a := range []bool{false, true} {
			for _, p := range []bool{false, true} {
				hc := *st.Cfg.HTTP
				hc.UseAuth = a
				hc.ProfilingEndpointsEnabled = p
				server := httpserver.NewHTTPServer(&hc, st.Log)
				server.ApplyConfiguration(metrics.Register)
				server.ApplyConfiguration(endpoints.SetupRoutes(st.Svc, &hc))
				ws, err := websocket.NewServer(st.Log, st.Svc, hc.UseAuth)
				if err != nil {
					return "", err
				}
				server.ApplyConfiguration(ws.SetupEntrypoint)
				var engine *gin.Engine
				server.ApplyConfiguration(func(e *gin.Engine) { engine = e })
				var rs, wrapped [][2]string
				for _, r := range engine.Routes() {
					rs = append(rs, [2]string{r.Method, r.Path})
					// gin reports the name of the last handler of the chain; a handler registered through
					// auth.RequireAdmin(h, true) is the closure "…auth.RequireAdmin.func1" or, when the
					// call is inlined into the registering function, "….RegisterAPIEndpoints.RequireAdmin.func1"
					if strings.Contains(r.Handler, "RequireAdmin.func") {
						wrapped = append(wrapped, [2]string{r.Method, r.Path})
					}
				}
				sortRoutes(rs)
				sortRoutes(wrapped)
				name := fmt.Sprintf("routes_%s_%s_%s", leanBool(a)[:1], leanBool(p)[:1], leanBool(m)[:1])
				names = append(names, fmt.Sprintf("  (⟨%s, %s, %s⟩, %s)", leanBool(a), leanBool(p), leanBool(m), name))
				fmt.Fprintf(&b, "/-- use_auth=%v debug_profiling=%v metrics=%v -/\ndef %s : List Route := [\n", a, p, m, name)
				for i, r := range rs {
					sep := ","
					if i == len(rs)-1 {
						sep = ""
					}
					fmt.Fprintf(&b, "  ⟨%s, %s⟩%s\n", leanStr(r[0]), leanStr(r[1]), sep)
				}
				b.WriteString("]\n\n")
				wname := "adminWrapped_" + name[len("routes_"):]
				wnames = append(wnames, fmt.Sprintf("  (⟨%s, %s, %s⟩, %s)", leanBool(a), leanBool(p), leanBool(m), wname))
				fmt.Fprintf(&b, "/-- routes whose final handler is the auth.RequireAdmin closure -/\ndef %s : List Route := [", wname)
				for i, r := range wrapped {
					if i > 0 {
						b.WriteString(", ")
					}
					fmt.Fprintf(&b, "⟨%s, %s⟩", leanStr(r[0]), leanStr(r[1]))
				}
				b.WriteString("]\n\n")
			}
		}
	}
	b.WriteString("/-- one row per configuration ⟨useAuth, profiling, metrics⟩ -/\ndef routes : List (Cfg × List Route) := [\n")
	b.WriteString(strings.Join(names, ",\n"))
	b.WriteString("\n]\n\n/-- per configuration: the routes registered through auth.RequireAdmin(h, true) -/\ndef adminWrapped : List (Cfg × List Route) := [\n")
	b.WriteString(strings.Join(wnames, ",\n"))
	b.WriteString("\n]\n\nend BHS.Gen\n")
	return b.String(), nil
}
