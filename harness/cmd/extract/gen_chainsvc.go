package main

// Gen.ChainSvc: `chainService.Add` and every function it reaches inside service/chain_service.go and
// domains/headers.go, TRANSLATED statement by statement into Lean `do` blocks over the repository monad
// BHS/Model/RepoM.lean (`RepoM H`). The call graph is discovered from `Add` (callees are emitted first; recursion is
// refused), so an inlined, renamed, added or removed helper changes the generated module.
// The refinement theorem Props/ChainSvc.lean `Gen_add_refines` states generated Add = hand model (plan / add).
//
// Supported subset (anything else: `file:line:col: unsupported: …`, exit 1, module emptied, obligation broken)
//   statements  x := e | a, b := f(…) | x = e | a, b = f(…) | p.Field = e (p a local *BlockHeader that is never copied)
//               | xs[i] = e | var x T immediately followed by an if/else chain assigning x in every branch
//               | if [init;] c {…} [else if …] [else {…}] | return e… | for [i|_], x := range xs {…}
//               | cs.addMutex.Lock() ↦ lockMutex (the repository primitives fault outside the critical section),
//                 cs.addMutex.Unlock() ↦ unlockMutex, defer cs.addMutex.Unlock() (no effect inside one run)
//               | the skip list: cs.log.…(…), metrics.…(…), cs.notification.Notify(…) (Notify placement is pinned by Gen.CallSites)
//   expressions identifiers, nil, true/false, integer literals, field selection (through a *BlockHeader: a dereference
//               that faults on nil), &x, *x, !x, && || (short-circuit, also over effects), == != < <= > >= +, len, make of
//               a hash slice, xs[i], BlockHeader composite literals (every omitted field gets its Go zero value; State must
//               be given), calls of the translated functions and methods, and the primitive table below.
//   types       *domains.BlockHeader ↦ Option (Row H); domains.BlockHeader ↦ Row H; BlockHeaderSource (and pointer) ↦ Src H;
//               chainhash.Hash / domains.BlockHash (and pointers) ↦ H; []*domains.BlockHeader, chain, *chain ↦ List (Option (Row H));
//               []chainhash.Hash ↦ List H; int32 / uint32 / time.Time / *big.Int ↦ Nat; bool; error ↦ Option Err;
//               HeaderState ↦ St; result lists ↦ tuples. Pointers other than *BlockHeader are only created by `&local`
//               in this code and are treated as the value.
// The translator core below (kinds, scopes, expressions, statements, call graph) is shared with gen_headersvc.go, which
// plugs in a csProfile (further types, primitives and statement forms — listed in its header; they are off for this module).
// Primitive table (trusted mapping, see RepoM.lean)
//   cs.[Repositories.]Headers.{GetHeaderByHash, GetHeaderByHeight, GetTip, GetStaleChainHeadersBackFrom,
//   GetLongestChainHeadersFromHeight, UpdateState, AddHeaderToDatabase} ↦ the RepoM primitives;
//   cs.[BlockHasher.]BlockHash ↦ cfg.hashOf; cs.chainParams.HeadersToIgnore ↦ cfg.forbidden;
//   <AddBlockErrorCode>.error() / .causedBy(&e) ↦ Err.code / causedBy; errors.Is(e, bhserrors.ErrHeaderNotFound) ↦ isNotFound;
//   domains.CalculateWork ↦ Chain.work (the regenerated Gen.calcWork); CumulatedChainWorkOf, .BigInt(), *x on big values,
//   hash conversions, .String(), .ChainHash() ↦ identity; (*CumulatedChainWork).Add ↦ +; big.NewInt(k) ↦ k;
//   .Cmp ↦ bigCmp; .Sign ↦ bigSign; .IsEqual on hashes ↦ ==; time.Time .Before/.After/.Equal ↦ < > == on the seconds;
//   domains.NewRejectedBlockHeader ↦ rejectedHeader.

import (
	"fmt"
	"go/ast"
	"go/parser"
	"go/token"
	"os"
	"path/filepath"
	"regexp"
	"strconv"
	"strings"
)

func init() { register("ChainSvc", genChainSvc) }

type ckind string // hdrp hdr src hash chain hashes nat int big bool err state

var csLeanTy = map[ckind]string{"hdrp": "Option (Row H)", "hdr": "Row H", "src": "Src H", "hash": "H", "chain": "List (Option (Row H))",
	"hashes": "List H", "nat": "Nat", "int": "Int", "big": "Nat", "bool": "Bool", "err": "Option Err", "state": "St"}

type csField struct {
	lean string
	k    ckind
}

// the data refinement BlockHeader ≙ Row, BlockHeaderSource ≙ Src (checked against the struct declarations)
var csHdrFields = map[string]csField{"Height": {"height", "nat"}, "Hash": {"hash", "hash"}, "Version": {"version", "int"},
	"MerkleRoot": {"merkle", "hash"}, "Timestamp": {"time", "nat"}, "Bits": {"bits", "nat"}, "Nonce": {"nonce", "nat"},
	"State": {"st", "state"}, "Chainwork": {"work", "big"}, "CumulatedWork": {"cum", "big"}, "PreviousBlock": {"prev", "hash"}}
var csSrcFields = map[string]csField{"Version": {"version", "int"}, "PrevBlock": {"prev", "hash"}, "MerkleRoot": {"merkle", "hash"},
	"Timestamp": {"time", "nat"}, "Bits": {"bits", "nat"}, "Nonce": {"nonce", "nat"}}
var csStates = map[string]string{"Orphan": "St.orphan", "Stale": "St.stale", "LongestChain": "St.lc"}

type csPrim struct {
	lean string
	args []ckind
	res  []ckind
}

var csPrims = map[string]csPrim{
	"GetHeaderByHash":                  {"getHeaderByHash", []ckind{"hash"}, []ckind{"hdrp", "err"}},
	"GetHeaderByHeight":                {"getHeaderByHeight", []ckind{"nat"}, []ckind{"hdrp", "err"}},
	"GetTip":                           {"getTip'", nil, []ckind{"hdrp", "err"}},
	"GetStaleChainHeadersBackFrom":     {"getStaleChainHeadersBackFrom", []ckind{"hash"}, []ckind{"chain", "err"}},
	"GetLongestChainHeadersFromHeight": {"getLongestChainHeadersFromHeight", []ckind{"nat"}, []ckind{"chain", "err"}},
	"UpdateState":                      {"updateState", []ckind{"hashes", "state"}, []ckind{"err"}},
	"AddHeaderToDatabase":              {"addHeaderToDatabase", []ckind{"hdr"}, []ckind{"err"}},
}

type csFunc struct {
	decl    *ast.FuncDecl
	pkg     string // "service" | "domains"
	recv    string // receiver type name ("" for plain functions)
	lean    string
	params  []ckind
	results []ckind
	text    string
	state   int // 0 new, 1 in progress, 2 done
}

type csGen struct {
	fset     *token.FileSet
	src      map[string][]byte
	funcs    map[string]*csFunc // "<recvType>.<name>" / ".<name>", per package prefix "service:" "domains:"
	codes    map[string]bool    // AddBlockErrorCode constants
	order    []*csFunc
	err      error
	stPkg    string // package of the function being translated
	recvCS   string // name of the *chainService receiver ("" outside its methods)
	prof     *csProfile
	recvName string          // name of the receiver variable of the function being translated
	loops    int             // nesting depth of `for` loops (break / continue)
	dropped  map[string]bool // parameters of a dropped kind
	bump     int             // set by a statement that wraps the rest of its block: extra indentation from now on
	// per function
	scopes   []map[string]string // Go name -> Lean name
	kinds    map[string]ckind    // Lean name -> kind
	used     map[string]bool
	params   map[string]bool // Lean names of parameters
	assigned map[string]bool // Go names assigned with `=` somewhere in the function
	copied   map[string]bool // Go names copied into another variable
	results  []ckind
	out      []string
}

// csProfile: what a sibling translator (gen_headersvc.go) adds to the core. Every hook is consulted BEFORE the
// built-in rules; a nil hook is skipped. The ChainSvc module uses the core without a profile.
type csProfile struct {
	monad     string                                                    // Lean monad of the generated definitions
	dropRecv  map[string]bool                                           // receiver types that do not become a parameter
	goKind    func(g *csGen, e ast.Expr) (ckind, bool)                  // Go type ↦ kind
	field     func(g *csGen, k ckind, name string) (csField, bool)      // field of a struct kind
	sel       func(g *csGen, x *ast.SelectorExpr) (csVal, bool)         // qualified constants, receiver fields
	call      func(g *csGen, c *ast.CallExpr, want ckind) (csVal, bool) // primitive table, wiring of the interfaces
	assign    func(g *csGen, x *ast.AssignStmt, ind int) bool           // statements with a meaning of their own
	exprStmt  func(g *csGen, s ast.Stmt, c *ast.CallExpr, ind int) bool // skip list
	composite func(g *csGen, cl *ast.CompositeLit) (csVal, bool)        // composite literals of further structs
	zero      map[ckind]string                                          // Go zero values for `var x T`
	ident     func(g *csGen, name string) (csVal, bool)                 // package-level constants
	paramKind func(name string, k ckind) ckind                          // kind of a parameter, given its name
	// a `defer` with a meaning: emits the head of a wrapper (e.g. "deferred (…) do") and returns true; the statements
	// that follow the defer in its block become the wrapper's body
	deferStmt func(g *csGen, x *ast.DeferStmt, ind int) bool
}

type csVal struct {
	s string  // Lean term; when m: a monadic action (to be bound with ←)
	k []ckind // result kinds (one, or several for a call with a result list)
	m bool
}

func (g *csGen) fail(n ast.Node, msg string, a ...any) {
	if g.err == nil {
		g.err = fmt.Errorf("%s: unsupported: %s", g.fset.Position(n.Pos()), fmt.Sprintf(msg, a...))
	}
}

func (g *csGen) goText(n ast.Node) string {
	p, e := g.fset.Position(n.Pos()), g.fset.Position(n.End())
	b := g.src[p.Filename]
	if b == nil || e.Offset > len(b) {
		return "?"
	}
	return strings.Join(strings.Fields(string(b[p.Offset:e.Offset])), " ")
}

// goKind maps a Go type expression to a kind
func (g *csGen) goKind(e ast.Expr) (ckind, bool) {
	if g.prof != nil && g.prof.goKind != nil {
		if k, ok := g.prof.goKind(g, e); ok {
			return k, true
		}
	}
	switch x := e.(type) {
	case *ast.Ident:
		switch x.Name {
		case "int32", "uint32":
			return "nat", true
		case "bool":
			return "bool", true
		case "error":
			return "err", true
		case "chain":
			return "chain", true
		case "BlockHeader":
			return "hdr", true
		case "BlockHeaderSource":
			return "src", true
		case "BlockHash":
			return "hash", true
		case "HeaderState":
			return "state", true
		}
	case *ast.SelectorExpr:
		switch selText(x) {
		case "domains.BlockHeader":
			return "hdr", true
		case "domains.BlockHeaderSource":
			return "src", true
		case "domains.BlockHash", "chainhash.Hash":
			return "hash", true
		case "domains.HeaderState":
			return "state", true
		case "time.Time":
			return "nat", true
		}
	case *ast.StarExpr:
		if selText(x.X) == "big.Int" {
			return "big", true
		}
		k, ok := g.goKind(x.X)
		if ok && k == "hdr" {
			return "hdrp", true
		}
		if ok && (k == "src" || k == "hash" || k == "chain") {
			return k, true
		}
	case *ast.ArrayType:
		if x.Len == nil {
			if k, ok := g.goKind(x.Elt); ok && k == "hdrp" {
				return "chain", true
			} else if ok && k == "hash" {
				return "hashes", true
			}
		}
	}
	return "", false
}

// ---- scopes

var csReserved = map[string]bool{"at": true, "from": true, "end": true, "do": true, "then": true, "fun": true, "this": true, "have": true,
	"show": true, "by": true, "in": true, "let": true, "where": true, "with": true, "open": true, "cfg": true, "H": true, "default": true,
	"some": true, "none": true, "pure": true, "deref": true, "index": true, "setIndex": true}

func (g *csGen) declare(goName string, k ckind) string {
	base := goName
	if csReserved[base] {
		base += "_"
	}
	name := base
	for i := 1; g.used[name]; i++ {
		name = fmt.Sprintf("%s_%d", base, i)
	}
	g.used[name] = true
	g.scopes[len(g.scopes)-1][goName] = name
	g.kinds[name] = k
	return name
}

func (g *csGen) lookup(goName string) (string, bool) {
	for i := len(g.scopes) - 1; i >= 0; i-- {
		if n, ok := g.scopes[i][goName]; ok {
			return n, true
		}
	}
	return "", false
}

func (g *csGen) push() { g.scopes = append(g.scopes, map[string]string{}) }
func (g *csGen) pop()  { g.scopes = g.scopes[:len(g.scopes)-1] }

func (g *csGen) emit(ind int, s string) { g.out = append(g.out, strings.Repeat("  ", ind)+s) }

// ---- expressions

func one(s string, k ckind) csVal { return csVal{s: s, k: []ckind{k}} }

// list kinds and their element kinds; nil of a pointer / error / slice kind
var csElem = map[ckind]ckind{"chain": "hdrp", "hashes": "hash", "srcs": "srcp"}
var csNil = map[ckind]string{"hdrp": "none", "err": "none", "srcp": "none"}

// integer kinds rendered as Lean Int ("nat" is Lean Nat); u8 / u32 wrap around, int does not (assumption: no overflow)
var csIntKinds = map[ckind]int{"int": 0, "u8": 8, "u32": 32}

func csWrap(k ckind, s string) string {
	if b := csIntKinds[k]; b > 0 {
		return fmt.Sprintf("(wrapU %d %s)", b, s)
	}
	return s
}

// val translates an expression of exactly one value; a monadic action is bound in place with (← …)
func (g *csGen) val(e ast.Expr, want ckind) (string, ckind) {
	v := g.expr(e, want)
	if len(v.k) != 1 {
		g.fail(e, "expression with %d values used as one value", len(v.k))
		return "default", want
	}
	if v.m {
		return "(← " + v.s + ")", v.k[0]
	}
	return v.s, v.k[0]
}

func (g *csGen) expr(e ast.Expr, want ckind) csVal {
	switch x := e.(type) {
	case *ast.ParenExpr:
		return g.expr(x.X, want)
	case *ast.BasicLit:
		if x.Kind == token.INT {
			if _, err := strconv.ParseUint(x.Value, 10, 63); err == nil {
				k := want
				_, isInt := csIntKinds[k]
				if k != "nat" && k != "big" && !isInt {
					k = "nat"
				}
				if isInt {
					return one("("+x.Value+" : Int)", k)
				}
				return one(x.Value, k)
			}
		}
		if x.Kind == token.STRING && g.prof != nil {
			if v, err := strconv.Unquote(x.Value); err == nil {
				return one(strconv.Quote(v), "str")
			}
		}
		g.fail(e, "literal %s", x.Value)
	case *ast.Ident:
		switch x.Name {
		case "nil":
			if n, ok := csNil[want]; ok {
				return one(n, want)
			}
			if _, ok := csElem[want]; ok && g.prof != nil { // a nil slice: length 0, ranges over nothing
				return one("[]", want)
			}
			g.fail(e, "nil of kind %q", want)
			return one("none", want)
		case "true", "false":
			return one(x.Name, "bool")
		}
		if n, ok := g.lookup(x.Name); ok {
			return one(n, g.kinds[n])
		}
		if s, ok := csStates[x.Name]; ok && g.stPkg == "domains" {
			return one(s, "state")
		}
		if g.prof != nil && g.prof.ident != nil {
			if v, ok := g.prof.ident(g, x.Name); ok {
				return v
			}
		}
		g.fail(e, "identifier %s", x.Name)
	case *ast.SelectorExpr:
		return g.selector(x)
	case *ast.StarExpr:
		s, k := g.val(x.X, "")
		switch k {
		case "hdrp":
			return one("(← deref "+s+")", "hdr")
		case "hash", "chain", "big", "src":
			return one(s, k)
		}
		g.fail(e, "dereference of kind %q", k)
	case *ast.UnaryExpr:
		switch x.Op {
		case token.NOT:
			s, k := g.val(x.X, "bool")
			if k != "bool" {
				g.fail(e, "! on kind %q", k)
			}
			return one("(!"+s+")", "bool")
		case token.SUB:
			s, k := g.val(x.X, "int")
			if _, ok := csIntKinds[k]; !ok {
				g.fail(e, "unary - on kind %q", k)
			}
			return one(csWrap(k, "(- "+s+")"), k)
		case token.AND:
			if cl, ok := x.X.(*ast.CompositeLit); ok {
				v := g.compositeVal(cl)
				switch v.k[0] {
				case "hdr":
					return one("(some "+v.s+")", "hdrp")
				case "srcv":
					return one("(some "+v.s+")", "srcp")
				case "hash":
					return one(v.s, "hash")
				}
				g.fail(e, "address of a composite literal of kind %q", v.k[0])
				return one("none", "hdrp")
			}
			if _, ok := x.X.(*ast.Ident); !ok {
				if _, ok := x.X.(*ast.SelectorExpr); !ok {
					if _, ok := x.X.(*ast.IndexExpr); !ok || g.prof == nil {
						g.fail(e, "address of a non-variable")
					}
				}
			}
			s, k := g.val(x.X, "")
			switch k {
			case "hdr":
				return one("(some "+s+")", "hdrp")
			case "hash", "src", "chain":
				return one(s, k)
			case "scan", "rowv": // `var x T` filled through its address, an element of a slice of structs: the pointer is the value
				return one(s, "hdrp")
			}
			g.fail(e, "address of kind %q", k)
		default:
			g.fail(e, "unary %s", x.Op)
		}
	case *ast.BinaryExpr:
		return g.binary(x)
	case *ast.CallExpr:
		return g.call(x, want)
	case *ast.IndexExpr:
		s, k := g.val(x.X, "")
		i, ik := g.val(x.Index, "nat")
		ek, ok := csElem[k]
		if ik != "nat" || !ok {
			g.fail(e, "index of kind %q by %q", k, ik)
		}
		return one("(← index "+s+" "+i+")", ek)
	case *ast.SliceExpr:
		// xs[lo:hi] (either bound may be missing); out of range is the fault of `sliceOf`
		if g.prof == nil || x.Slice3 {
			g.fail(e, "slice expression")
			break
		}
		s, k := g.val(x.X, want)
		if _, ok := csElem[k]; !ok {
			g.fail(e, "slice of kind %q", k)
		}
		lo, hi := "0", s+".length"
		if x.Low != nil {
			v, vk := g.val(x.Low, "nat")
			if vk != "nat" {
				g.fail(x.Low, "slice bound of kind %q", vk)
			}
			lo = v
		}
		if x.High != nil {
			v, vk := g.val(x.High, "nat")
			if vk != "nat" {
				g.fail(x.High, "slice bound of kind %q", vk)
			}
			hi = v
		}
		return one("(← sliceOf "+s+" "+lo+" "+hi+")", k)
	case *ast.CompositeLit:
		return g.compositeVal(x)
	default:
		g.fail(e, "expression %T", e)
	}
	return one("default", want)
}

func (g *csGen) fieldOf(k ckind, name string) (csField, bool) {
	if g.prof != nil && g.prof.field != nil {
		if f, ok := g.prof.field(g, k, name); ok {
			return f, true
		}
	}
	switch k {
	case "hdrp", "hdr":
		f, ok := csHdrFields[name]
		return f, ok
	case "src":
		f, ok := csSrcFields[name]
		return f, ok
	}
	return csField{}, false
}

// compositeVal: a composite literal, as a value of its kind
func (g *csGen) compositeVal(cl *ast.CompositeLit) csVal {
	if g.prof != nil && g.prof.composite != nil {
		if v, ok := g.prof.composite(g, cl); ok {
			return v
		}
	}
	return one(g.composite(cl), "hdr")
}

func (g *csGen) selector(x *ast.SelectorExpr) csVal {
	if g.prof != nil && g.prof.sel != nil {
		if v, ok := g.prof.sel(g, x); ok {
			return v
		}
	}
	t := selText(x)
	if g.recvCS != "" && t == g.recvCS+".chainParams.HeadersToIgnore" {
		return one("cfg.forbidden", "hashes")
	}
	if id, ok := x.X.(*ast.Ident); ok && id.Name == "domains" {
		if _, shadow := g.lookup("domains"); !shadow {
			if s, ok := csStates[x.Sel.Name]; ok {
				return one(s, "state")
			}
			g.fail(x, "constant %s", t)
			return one("default", "state")
		}
	}
	s, k := g.val(x.X, "")
	f, ok := g.fieldOf(k, x.Sel.Name)
	if !ok {
		g.fail(x, "field %s of kind %q", x.Sel.Name, k)
		return one("default", "nat")
	}
	if k == "hdrp" || k == "srcp" {
		s = "(← deref " + s + ")"
	}
	if strings.Contains(f.lean, "%s") {
		return one(fmt.Sprintf(f.lean, s), f.k)
	}
	return one(s+"."+f.lean, f.k)
}

func (g *csGen) composite(cl *ast.CompositeLit) string {
	if k, ok := g.goKind(cl.Type); !ok || k != "hdr" {
		g.fail(cl, "composite literal of %s", g.goText(cl.Type))
		return "default"
	}
	given := map[string]string{}
	for _, el := range cl.Elts {
		kv, ok := el.(*ast.KeyValueExpr)
		if !ok {
			g.fail(el, "positional composite literal")
			return "default"
		}
		name := selText(kv.Key)
		f, ok := csHdrFields[name]
		if !ok {
			g.fail(kv, "field %s", name)
			return "default"
		}
		s, k := g.val(kv.Value, f.k)
		if k != f.k {
			g.fail(kv, "field %s: kind %q, want %q", name, k, f.k)
		}
		given[name] = s
	}
	parts := []string{"id := 0"}
	for _, name := range csHdrOrder {
		f := csHdrFields[name]
		s, ok := given[name]
		if !ok {
			switch f.k {
			case "nat", "big", "int":
				s = "0"
			case "hash":
				s = "default"
			default:
				g.fail(cl, "field %s omitted: its Go zero value has no model", name)
			}
		}
		parts = append(parts, f.lean+" := "+s)
	}
	return "({ " + strings.Join(parts, ", ") + " } : Row H)"
}

var csHdrOrder []string // BlockHeader fields in declaration order

var csCmp = map[token.Token]string{token.LSS: "<", token.LEQ: "≤", token.GTR: ">", token.GEQ: "≥"}

func isNil(e ast.Expr) bool { id, ok := e.(*ast.Ident); return ok && id.Name == "nil" }

// isFreshAddr: `&T{…}` (possibly parenthesised)
func isFreshAddr(e ast.Expr) bool {
	for {
		p, ok := e.(*ast.ParenExpr)
		if !ok {
			break
		}
		e = p.X
	}
	u, ok := e.(*ast.UnaryExpr)
	if !ok || u.Op != token.AND {
		return false
	}
	_, ok = u.X.(*ast.CompositeLit)
	return ok
}

// pureExpr: an expression whose evaluation cannot fault or have an effect (identifiers, literals, len, conversions, + - *)
func pureExpr(e ast.Expr) bool {
	switch x := e.(type) {
	case *ast.Ident, *ast.BasicLit:
		return true
	case *ast.ParenExpr:
		return pureExpr(x.X)
	case *ast.BinaryExpr:
		return (x.Op == token.ADD || x.Op == token.SUB || x.Op == token.MUL) && pureExpr(x.X) && pureExpr(x.Y)
	case *ast.CallExpr:
		if id, ok := x.Fun.(*ast.Ident); ok && len(x.Args) == 1 {
			switch id.Name {
			case "len", "int", "int32", "uint8", "uint32":
				return pureExpr(x.Args[0])
			}
		}
	}
	return false
}

func (g *csGen) binary(x *ast.BinaryExpr) csVal {
	switch x.Op {
	case token.LAND, token.LOR:
		l, lk := g.val(x.X, "bool")
		r, rk := g.val(x.Y, "bool")
		if lk != "bool" || rk != "bool" {
			g.fail(x, "%s on kinds %q, %q", x.Op, lk, rk)
		}
		if strings.Contains(r, "(←") { // the right operand has effects (dereference, call): keep the short circuit
			op := "<&&>"
			if x.Op == token.LOR {
				op = "<||>"
			}
			return one("(← (pure "+l+" "+op+" (do pure "+r+")))", "bool")
		}
		op := "&&"
		if x.Op == token.LOR {
			op = "||"
		}
		return one("("+l+" "+op+" "+r+")", "bool")
	case token.EQL, token.NEQ:
		if isFreshAddr(x.X) || isFreshAddr(x.Y) { // the address of a fresh composite literal equals no other pointer
			o := x.X
			if isFreshAddr(x.X) {
				o = x.Y
			}
			if _, k := g.val(o, ""); k != "hdrp" && k != "srcp" {
				g.fail(x, "comparison of kind %q with a fresh address", k)
			}
			return one(map[bool]string{true: "false", false: "true"}[x.Op == token.EQL], "bool")
		}
		if isNil(x.X) || isNil(x.Y) {
			o := x.X
			if isNil(x.X) {
				o = x.Y
			}
			s, k := g.val(o, "")
			switch k {
			case "hdrp", "err", "srcp":
				if x.Op == token.EQL {
					return one(s+".isNone", "bool")
				}
				return one(s+".isSome", "bool")
			case "big": // the model has no nil big integer
				return one(map[bool]string{true: "false", false: "true"}[x.Op == token.EQL], "bool")
			}
			g.fail(x, "nil test on kind %q", k)
			return one("true", "bool")
		}
		l, r, k := g.operands(x)
		switch k {
		case "nat", "int", "big", "state", "hash", "bool", "u8", "u32":
		default:
			g.fail(x, "%s on kind %q", x.Op, k)
		}
		if x.Op == token.EQL {
			return one("("+l+" == "+r+")", "bool")
		}
		return one("("+l+" != "+r+")", "bool")
	case token.LSS, token.LEQ, token.GTR, token.GEQ:
		l, r, k := g.operands(x)
		if _, isInt := csIntKinds[k]; k != "nat" && k != "big" && !isInt {
			g.fail(x, "%s on kind %q", x.Op, k)
		}
		return one("(decide ("+l+" "+csCmp[x.Op]+" "+r+"))", "bool")
	case token.ADD, token.SUB, token.MUL:
		l, r, k := g.operands(x)
		_, isInt := csIntKinds[k]
		// nat / big: heights stay below 2^31 (assumption of C01), no wrap-around is modelled; and only + (Nat has no -)
		if !isInt && !((k == "nat" || k == "big") && x.Op == token.ADD) {
			g.fail(x, "%s on kind %q", x.Op, k)
		}
		return one(csWrap(k, "("+l+" "+x.Op.String()+" "+r+")"), k)
	}
	g.fail(x, "operator %s", x.Op)
	return one("default", "nat")
}

func (g *csGen) operands(x *ast.BinaryExpr) (string, string, ckind) {
	var l, r string
	var lk, rk ckind
	if _, lit := x.X.(*ast.BasicLit); lit {
		r, rk = g.val(x.Y, "")
		l, lk = g.val(x.X, rk)
	} else {
		l, lk = g.val(x.X, "")
		r, rk = g.val(x.Y, lk)
	}
	if lk != rk {
		g.fail(x, "operands of kinds %q and %q", lk, rk)
	}
	return l, r, lk
}

// droppedArg: an argument of a dropped kind (context.Context)
func (g *csGen) droppedArg(a ast.Expr) bool {
	if g.prof == nil {
		return false
	}
	if id, ok := a.(*ast.Ident); ok {
		return g.dropped[id.Name]
	}
	if c, ok := a.(*ast.CallExpr); ok {
		return selText(c.Fun) == "context.Background" && len(c.Args) == 0
	}
	return false
}

func (g *csGen) args(c *ast.CallExpr, kinds []ckind) string {
	var list []ast.Expr
	for _, a := range c.Args {
		if !g.droppedArg(a) {
			list = append(list, a)
		}
	}
	if len(list) != len(kinds) {
		g.fail(c, "%d arguments, want %d", len(list), len(kinds))
		return ""
	}
	s := ""
	for i, a := range list {
		t, k := g.val(a, kinds[i])
		if k != kinds[i] {
			g.fail(a, "argument of kind %q, want %q", k, kinds[i])
		}
		s += " " + t
	}
	return s
}

func (g *csGen) dropsRecv(recv string) bool {
	return recv == "chainService" || (g.prof != nil && g.prof.dropRecv[recv])
}

// callFunc emits a call of a translated function
func (g *csGen) callFunc(c *ast.CallExpr, f *csFunc, recv string) csVal {
	g.translate(f)
	kinds := f.params
	s := f.lean
	if f.recv == "chainService" {
		s += " cfg"
	} else if f.recv != "" && !g.dropsRecv(f.recv) {
		s += " " + recv
		kinds = kinds[1:]
	}
	return csVal{s: s + g.args(c, kinds), k: f.results, m: true}
}

func (g *csGen) call(c *ast.CallExpr, want ckind) csVal {
	if g.prof != nil && g.prof.call != nil {
		if v, ok := g.prof.call(g, c, want); ok {
			return v
		}
	}
	bad := func(msg string, a ...any) csVal {
		g.fail(c, msg, a...)
		return one("default", want)
	}
	arg1 := func(k ckind) string {
		if len(c.Args) != 1 {
			g.fail(c, "%d arguments, want 1", len(c.Args))
			return "default"
		}
		s, ak := g.val(c.Args[0], k)
		if ak != k {
			g.fail(c, "argument of kind %q, want %q", ak, k)
		}
		return s
	}
	pkgFunc := func(pkg, name string) (csVal, bool) {
		if pkg == "domains" {
			switch name {
			case "CalculateWork":
				return one("(Chain.work "+arg1("nat")+")", "big"), true
			case "CumulatedChainWorkOf":
				return one(arg1("big"), "big"), true
			case "NewRejectedBlockHeader":
				return one("(rejectedHeader "+arg1("hash")+")", "hdrp"), true
			}
		}
		if f, ok := g.funcs[pkg+":."+name]; ok {
			return g.callFunc(c, f, ""), true
		}
		return csVal{}, false
	}
	switch fn := c.Fun.(type) {
	case *ast.ArrayType:
		if k, ok := g.goKind(fn); ok && k == "chain" {
			return one(arg1("chain"), "chain")
		}
		return bad("conversion to %s", g.goText(fn))
	case *ast.Ident:
		switch fn.Name {
		case "len":
			if len(c.Args) == 1 {
				s, k := g.val(c.Args[0], "")
				if _, ok := csElem[k]; ok {
					return one(s+".length", "nat")
				}
			}
			return bad("len")
		case "make":
			// make(T, n) / make(T, n, cap): the capacity has no meaning in the model (it must be effect-free)
			if len(c.Args) == 2 || (len(c.Args) == 3 && g.prof != nil && pureExpr(c.Args[2])) {
				if k, ok := g.goKind(c.Args[0]); ok {
					if lit, isLit := c.Args[1].(*ast.BasicLit); isLit && lit.Value == "0" && csElem[k] != "" {
						return one("([] : "+csLeanTy[k]+")", k)
					}
					if n, nk := g.val(c.Args[1], "nat"); nk == "nat" && k == "hashes" {
						return one("(List.replicate "+n+" (default : H))", "hashes")
					}
				}
			}
			return bad("make")
		case "append":
			if len(c.Args) == 2 && g.prof != nil {
				xs, k := g.val(c.Args[0], want)
				if ek, ok := csElem[k]; ok {
					if v, vk := g.val(c.Args[1], ek); vk == ek {
						return one("("+xs+" ++ ["+v+"])", k)
					}
				}
			}
			return bad("append")
		}
		if _, local := g.lookup(fn.Name); !local {
			if v, ok := pkgFunc(g.stPkg, fn.Name); ok {
				return v
			}
		}
		return bad("call of %s", fn.Name)
	case *ast.SelectorExpr:
		t := selText(fn)
		name := fn.Sel.Name
		if id, ok := fn.X.(*ast.Ident); ok {
			if _, local := g.lookup(id.Name); !local {
				switch {
				case t == "chainhash.Hash" || t == "domains.BlockHash":
					return one(arg1("hash"), "hash")
				case t == "big.NewInt":
					return one(arg1("big"), "big")
				case t == "errors.Is" && len(c.Args) == 2 && selText(c.Args[1]) == "bhserrors.ErrHeaderNotFound":
					s, k := g.val(c.Args[0], "err")
					if k != "err" {
						g.fail(c, "errors.Is on kind %q", k)
					}
					return one("(isNotFound "+s+")", "bool")
				case id.Name == "domains":
					if v, ok := pkgFunc("domains", name); ok {
						return v
					}
				case g.codes[id.Name] && name == "error" && len(c.Args) == 0:
					return one("(some (Err.code "+strconv.Quote(id.Name)+"))", "err")
				case g.codes[id.Name] && name == "causedBy" && len(c.Args) == 1:
					if u, ok := c.Args[0].(*ast.UnaryExpr); ok && u.Op == token.AND {
						s, k := g.val(u.X, "err")
						if k == "err" {
							return one("(causedBy "+strconv.Quote(id.Name)+" "+s+")", "err")
						}
					}
				case g.recvCS != "" && id.Name == g.recvCS:
					if name == "BlockHash" {
						return one("(cfg.hashOf "+arg1("src")+")", "hash")
					}
					if f, ok := g.funcs["service:chainService."+name]; ok {
						return g.callFunc(c, f, "")
					}
				}
				return bad("call of %s", t)
			}
		}
		if g.recvCS != "" && (t == g.recvCS+".Headers."+name || t == g.recvCS+".Repositories.Headers."+name) {
			p, ok := csPrims[name]
			if !ok {
				return bad("repository method %s", name)
			}
			return csVal{s: p.lean + g.args(c, p.args), k: p.res, m: true}
		}
		if g.recvCS != "" && t == g.recvCS+".BlockHasher.BlockHash" {
			return one("(cfg.hashOf "+arg1("src")+")", "hash")
		}
		s, k := g.val(fn.X, "")
		switch {
		case k == "hash" && (name == "String" || name == "ChainHash") && len(c.Args) == 0:
			return one(s, "hash")
		case k == "hash" && name == "IsEqual":
			return one("("+s+" == "+arg1("hash")+")", "bool")
		case k == "big" && name == "Cmp":
			return one("(bigCmp "+s+" "+arg1("big")+")", "int")
		case k == "big" && name == "Sign" && len(c.Args) == 0:
			return one("(bigSign "+s+")", "int")
		case k == "big" && name == "Add": // (*CumulatedChainWork).Add
			return one("("+s+" + "+arg1("big")+")", "big")
		case k == "big" && name == "BigInt" && len(c.Args) == 0:
			return one(s, "big")
		case k == "nat" && (name == "Before" || name == "After"): // time.Time, modelled by its seconds
			return one("(decide ("+s+" "+map[string]string{"Before": "<", "After": ">"}[name]+" "+arg1("nat")+"))", "bool")
		case k == "nat" && name == "Equal":
			return one("("+s+" == "+arg1("nat")+")", "bool")
		case k == "hdrp" || k == "hdr":
			if f, ok := g.funcs["domains:BlockHeader."+name]; ok {
				if k == "hdr" {
					s = "(some " + s + ")"
				}
				return g.callFunc(c, f, s)
			}
		case k == "chain":
			if f, ok := g.funcs["service:chain."+name]; ok {
				return g.callFunc(c, f, s)
			}
		}
		return bad("method %s on kind %q", name, k)
	}
	return bad("call")
}

// ---- statements

func (g *csGen) skipped(c *ast.CallExpr) bool {
	if g.recvCS == "" {
		return false
	}
	t := selText(c.Fun)
	if t == g.recvCS+".notification.Notify" || strings.HasPrefix(t, "metrics.") {
		return true
	}
	// cs.log.<level>().<…>(…): walk to the root of the call chain
	var e ast.Expr = c
	for {
		switch x := e.(type) {
		case *ast.CallExpr:
			e = x.Fun
			continue
		case *ast.SelectorExpr:
			if selText(x) == g.recvCS+".log" {
				return true
			}
			e = x.X
			continue
		}
		return false
	}
}

func (g *csGen) block(list []ast.Stmt, ind int) {
	g.push()
	n := len(g.out)
	for i, s := range list {
		var next ast.Stmt
		if i+1 < len(list) {
			next = list[i+1]
		}
		g.stmt(s, next, ind)
		if g.bump > 0 { // the rest of the block is the body of the wrapper just emitted
			ind, n, g.bump = ind+g.bump, len(g.out), 0
		}
	}
	if len(g.out) == n {
		g.emit(ind, "pure ()")
	}
	g.pop()
}

func (g *csGen) zeroOf(k ckind) (string, bool) {
	if g.prof == nil {
		return "", false
	}
	z, ok := g.prof.zero[k]
	return z, ok
}

// rangeWritesOnlyAt: every `xs[e] = …` in the body has e = the loop index variable
func (g *csGen) rangeWritesOnlyAt(body ast.Stmt, xs, idx string) bool {
	ok := true
	ast.Inspect(body, func(n ast.Node) bool {
		if a, isA := n.(*ast.AssignStmt); isA {
			for _, l := range a.Lhs {
				if ie, isI := l.(*ast.IndexExpr); isI && selText(ie.X) == xs && (idx == "_" || selText(ie.Index) != idx) {
					ok = false
				}
			}
		}
		return true
	})
	return ok
}

// assignsAll: does every path through s assign the variable?
func assignsAll(s ast.Stmt, name string) bool {
	switch x := s.(type) {
	case *ast.BlockStmt:
		for _, t := range x.List {
			if assignsAll(t, name) {
				return true
			}
		}
	case *ast.AssignStmt:
		for _, l := range x.Lhs {
			if id, ok := l.(*ast.Ident); ok && id.Name == name && x.Tok == token.ASSIGN {
				return true
			}
		}
	case *ast.IfStmt:
		return x.Else != nil && assignsAll(x.Body, name) && assignsAll(x.Else, name)
	}
	return false
}

func (g *csGen) bind(ind int, lhs []string, v csVal, define bool, mut bool) {
	pat := lhs[0]
	if len(lhs) > 1 {
		pat = "(" + strings.Join(lhs, ", ") + ")"
	}
	arrow := ":="
	if v.m {
		arrow = "←"
	}
	switch {
	case define && mut:
		g.emit(ind, "let mut "+pat+" "+arrow+" "+v.s)
	case define:
		g.emit(ind, "let "+pat+" "+arrow+" "+v.s)
	default:
		g.emit(ind, pat+" "+arrow+" "+v.s)
	}
}

func (g *csGen) stmt(s ast.Stmt, next ast.Stmt, ind int) {
	switch x := s.(type) {
	case *ast.ExprStmt:
		if c, ok := x.X.(*ast.CallExpr); ok && g.prof != nil && g.prof.exprStmt != nil && g.prof.exprStmt(g, s, c, ind) {
			return
		}
		if c, ok := x.X.(*ast.CallExpr); ok && g.skipped(c) {
			g.emit(ind, "-- skipped: "+g.goText(s))
			return
		}
		if c, ok := x.X.(*ast.CallExpr); ok && g.recvCS != "" && len(c.Args) == 0 {
			switch selText(c.Fun) {
			case g.recvCS + ".addMutex.Lock":
				g.emit(ind, "lockMutex")
				return
			case g.recvCS + ".addMutex.Unlock":
				g.emit(ind, "unlockMutex")
				return
			}
		}
		g.fail(s, "expression statement %s", g.goText(s))
	case *ast.DeferStmt:
		if g.prof != nil && g.prof.deferStmt != nil && g.prof.deferStmt(g, x, ind) {
			g.bump = 1
			return
		}
		if g.recvCS != "" && selText(x.Call.Fun) == g.recvCS+".addMutex.Unlock" {
			g.emit(ind, "-- "+g.goText(s)+": released when the function returns")
			return
		}
		g.fail(s, "defer")
	case *ast.DeclStmt:
		gd, ok := x.Decl.(*ast.GenDecl)
		if !ok || gd.Tok != token.VAR || len(gd.Specs) != 1 {
			g.fail(s, "declaration")
			return
		}
		vs := gd.Specs[0].(*ast.ValueSpec)
		k, ok := g.goKind(vs.Type)
		if z, zok := g.zeroOf(k); ok && zok && len(vs.Names) == 1 && len(vs.Values) == 0 {
			g.emit(ind, "let mut "+g.declare(vs.Names[0].Name, k)+" : "+csLeanTy[k]+" := "+z)
			return
		}
		if !ok || len(vs.Names) != 1 || len(vs.Values) != 0 || next == nil || !assignsAll(next, vs.Names[0].Name) {
			g.fail(s, "var declaration (supported: `var x T` followed by an if/else chain assigning x in every branch)")
			return
		}
		// the placeholder is never read: every branch of the next statement assigns the variable
		g.emit(ind, "let mut "+g.declare(vs.Names[0].Name, k)+" : "+csLeanTy[k]+" := default")
	case *ast.AssignStmt:
		g.assign(x, ind)
	case *ast.IfStmt:
		g.ifStmt(x, ind, "if ")
	case *ast.ReturnStmt:
		if len(x.Results) == 1 && len(g.results) > 1 { // return f(…) of a call with the same result list
			v := g.expr(x.Results[0], "")
			if !v.m || len(v.k) != len(g.results) {
				g.fail(s, "return of %d values, want %d", len(v.k), len(g.results))
				return
			}
			for i := range v.k {
				if v.k[i] != g.results[i] {
					g.fail(s, "result of kind %q, want %q", v.k[i], g.results[i])
				}
			}
			g.emit(ind, "return (← "+v.s+")")
			return
		}
		if len(x.Results) != len(g.results) {
			g.fail(s, "return of %d values, want %d", len(x.Results), len(g.results))
			return
		}
		var parts []string
		for i, r := range x.Results {
			t, k := g.val(r, g.results[i])
			if k != g.results[i] {
				g.fail(r, "result of kind %q, want %q", k, g.results[i])
			}
			parts = append(parts, t)
		}
		if len(parts) == 1 {
			g.emit(ind, "return "+parts[0])
		} else {
			g.emit(ind, "return ("+strings.Join(parts, ", ")+")")
		}
	case *ast.RangeStmt:
		if x.Tok != token.DEFINE {
			g.fail(s, "range without :=")
			return
		}
		xs, k := g.val(x.X, "")
		ek, ok := csElem[k]
		if !ok {
			g.fail(s, "range over kind %q", k)
			return
		}
		name := func(e ast.Expr) string {
			if e == nil {
				return "_"
			}
			id, ok := e.(*ast.Ident)
			if !ok {
				g.fail(e, "range variable")
				return "_"
			}
			return id.Name
		}
		kn, vn := name(x.Key), name(x.Value)
		if vn == "_" && kn == "_" {
			g.fail(s, "range without a variable")
			return
		}
		// The Lean loop runs over the list as it is on entry. Go reads element i when iteration i starts, so the two
		// agree as long as the body writes the ranged slice at the current index only — checked here.
		if id, ok := x.X.(*ast.Ident); ok && !g.rangeWritesOnlyAt(x.Body, id.Name, kn) {
			g.fail(s, "the loop body writes the ranged slice elsewhere than at the loop index")
			return
		}
		g.push()
		switch {
		case vn == "_":
			g.emit(ind, "for "+g.declare(kn, "nat")+" in List.range "+xs+".length do")
		case kn == "_":
			g.emit(ind, "for "+g.declare(vn, ek)+" in "+xs+" do")
		default:
			v := g.declare(vn, ek)
			g.emit(ind, "for ("+v+", "+g.declare(kn, "nat")+") in "+xs+".zipIdx do")
		}
		g.loops++
		g.block(x.Body.List, ind+1)
		g.loops--
		g.pop()
	case *ast.ForStmt:
		// `for cond {…}` / `for {…}`: at most `fuel` iterations (the loop budget of the monad); running out of fuel is
		// the fault `outOfFuel`, so a refinement theorem also bounds the number of iterations
		if x.Init != nil || x.Post != nil || g.prof == nil {
			g.fail(s, "for loop with init / post statement")
			return
		}
		g.emit(ind, "for _ in (← loopFuel) do")
		if x.Cond != nil {
			c, k := g.val(x.Cond, "bool")
			if k != "bool" {
				g.fail(x.Cond, "condition of kind %q", k)
			}
			g.emit(ind+1, "if !"+c+" then")
			g.emit(ind+2, "break")
		}
		g.loops++
		g.block(x.Body.List, ind+1)
		g.loops--
	case *ast.BranchStmt:
		if g.loops == 0 || x.Label != nil || (x.Tok != token.BREAK && x.Tok != token.CONTINUE) {
			g.fail(s, "%s", x.Tok)
			return
		}
		g.emit(ind, x.Tok.String())
	case *ast.IncDecStmt:
		id, ok := x.X.(*ast.Ident)
		n, nok := "", false
		if ok {
			n, nok = g.lookup(id.Name)
		}
		if _, isInt := csIntKinds[g.kinds[n]]; !nok || !isInt || g.params[n] {
			g.fail(s, "%s (supported: on a local integer variable)", x.Tok)
			return
		}
		op := map[token.Token]string{token.INC: "+", token.DEC: "-"}[x.Tok]
		g.emit(ind, n+" := "+csWrap(g.kinds[n], "("+n+" "+op+" (1 : Int))"))
	default:
		g.fail(s, "statement %T", s)
	}
}

func (g *csGen) ifStmt(x *ast.IfStmt, ind int, kw string) {
	if x.Init != nil {
		// `if init; c {…}`: the init statement first, in a scope of its own (Lean names are fresh, so the binding
		// staying visible after the `if` cannot capture anything)
		g.push()
		defer g.pop()
		if kw != "if " {
			g.emit(ind, "else")
			ind, kw = ind+1, "if "
		}
		g.stmt(x.Init, nil, ind)
	}
	c, k := g.val(x.Cond, "bool")
	if k != "bool" {
		g.fail(x.Cond, "condition of kind %q", k)
	}
	g.emit(ind, kw+c+" then")
	g.block(x.Body.List, ind+1)
	switch e := x.Else.(type) {
	case nil:
	case *ast.BlockStmt:
		g.emit(ind, "else")
		g.block(e.List, ind+1)
	case *ast.IfStmt:
		g.ifStmt(e, ind, "else if ")
	default:
		g.fail(x, "else")
	}
}

var csOpAssign = map[token.Token]token.Token{token.ADD_ASSIGN: token.ADD, token.SUB_ASSIGN: token.SUB, token.MUL_ASSIGN: token.MUL}

func (g *csGen) assign(x *ast.AssignStmt, ind int) {
	if g.prof != nil && g.prof.assign != nil && g.prof.assign(g, x, ind) {
		return
	}
	if op, ok := csOpAssign[x.Tok]; ok && len(x.Lhs) == 1 && len(x.Rhs) == 1 && g.prof != nil {
		id, isId := x.Lhs[0].(*ast.Ident)
		n, nok := "", false
		if isId {
			n, nok = g.lookup(id.Name)
		}
		if !nok || g.params[n] {
			g.fail(x, "%s (supported: on a local variable)", x.Tok)
			return
		}
		v := g.binary(&ast.BinaryExpr{X: id, OpPos: x.TokPos, Op: op, Y: x.Rhs[0]})
		g.emit(ind, n+" := "+v.s)
		return
	}
	if x.Tok != token.DEFINE && x.Tok != token.ASSIGN {
		g.fail(x, "assignment operator %s", x.Tok)
		return
	}
	if len(x.Rhs) != 1 {
		g.fail(x, "parallel assignment")
		return
	}
	// p.Field = e / xs[i] = e
	if len(x.Lhs) == 1 && x.Tok == token.ASSIGN {
		switch l := x.Lhs[0].(type) {
		case *ast.SelectorExpr:
			id, ok := l.X.(*ast.Ident)
			if !ok {
				g.fail(x, "assignment target")
				return
			}
			p, ok := g.lookup(id.Name)
			f, fok := csHdrFields[l.Sel.Name]
			if !ok || !fok || g.kinds[p] != "hdrp" || g.params[p] || g.copied[id.Name] {
				g.fail(x, "field assignment (supported: through a local *BlockHeader that is not a parameter and is never copied)")
				return
			}
			v, k := g.val(x.Rhs[0], f.k)
			if k != f.k {
				g.fail(x, "field %s: kind %q, want %q", l.Sel.Name, k, f.k)
			}
			g.emit(ind, p+" := some { (← deref "+p+") with "+f.lean+" := "+v+" }")
			return
		case *ast.IndexExpr:
			id, ok := l.X.(*ast.Ident)
			if !ok {
				g.fail(x, "assignment target")
				return
			}
			xs, ok := g.lookup(id.Name)
			ek, eok := csElem[g.kinds[xs]]
			if !ok || !eok || g.params[xs] || (g.prof == nil && ek != "hash") {
				g.fail(x, "indexed assignment (supported: into a local slice)")
				return
			}
			i, ik := g.val(l.Index, "nat")
			v, k := g.val(x.Rhs[0], ek)
			if ik != "nat" || k != ek {
				g.fail(x, "indexed assignment of kind %q at %q", k, ik)
			}
			g.emit(ind, xs+" := (← setIndex "+xs+" "+i+" "+v+")")
			return
		}
	}
	var want ckind
	if len(x.Lhs) == 1 && x.Tok == token.ASSIGN {
		if id, ok := x.Lhs[0].(*ast.Ident); ok {
			if n, ok := g.lookup(id.Name); ok {
				want = g.kinds[n]
			}
		}
	}
	v := g.expr(x.Rhs[0], want)
	if len(v.k) != len(x.Lhs) {
		g.fail(x, "%d values assigned to %d variables", len(v.k), len(x.Lhs))
		return
	}
	var names []string
	mut := false
	for i, l := range x.Lhs {
		id, ok := l.(*ast.Ident)
		if !ok {
			g.fail(x, "assignment target")
			return
		}
		if x.Tok == token.DEFINE {
			if id.Name == "_" {
				names = append(names, "_")
				continue
			}
			// Go re-uses a variable of the same scope here; a fresh Lean binding that shadows it from now on is equivalent
			names = append(names, g.declare(id.Name, v.k[i]))
			mut = mut || g.assigned[id.Name]
			continue
		}
		n, ok := g.lookup(id.Name)
		if !ok || g.params[n] || g.kinds[n] != v.k[i] {
			g.fail(x, "assignment to %s (supported: a local variable of the same kind)", id.Name)
			return
		}
		names = append(names, n)
	}
	g.bind(ind, names, v, x.Tok == token.DEFINE, mut)
}

// ---- functions

func (g *csGen) translate(f *csFunc) {
	if f.state == 2 || g.err != nil {
		return
	}
	if f.state == 1 {
		g.fail(f.decl, "recursive function %s", f.lean)
		return
	}
	f.state = 1
	// save the caller's context
	saved := *g
	g.stPkg, g.recvCS, g.recvName, g.loops = f.pkg, "", "", 0
	if f.decl.Recv != nil && len(f.decl.Recv.List[0].Names) == 1 {
		g.recvName = f.decl.Recv.List[0].Names[0].Name
	}
	g.scopes, g.kinds, g.used, g.params = []map[string]string{{}}, map[string]ckind{}, map[string]bool{}, map[string]bool{}
	g.assigned, g.copied, g.results, g.out = map[string]bool{}, map[string]bool{}, f.results, nil
	g.dropped = map[string]bool{}
	var sig []string
	if f.recv == "chainService" {
		g.recvCS = f.decl.Recv.List[0].Names[0].Name
		sig = append(sig, "(cfg : Cfg H)")
	}
	i := 0
	addParam := func(name string) {
		n := g.declare(name, f.params[i])
		g.params[n] = true
		sig = append(sig, "("+n+" : "+csLeanTy[f.params[i]]+")")
		i++
	}
	if f.recv != "" && !g.dropsRecv(f.recv) {
		addParam(f.decl.Recv.List[0].Names[0].Name)
	}
	for _, p := range f.decl.Type.Params.List {
		if k, _ := g.goKind(p.Type); k == "drop" { // e.g. context.Context
			for _, n := range p.Names {
				g.dropped[n.Name] = true
			}
			continue
		}
		for _, n := range p.Names {
			if n.Name == "_" {
				g.fail(n, "unnamed parameter")
			}
			addParam(n.Name)
		}
	}
	ast.Inspect(f.decl.Body, func(n ast.Node) bool {
		switch x := n.(type) {
		case *ast.DeferStmt:
			if _, lit := x.Call.Fun.(*ast.FuncLit); lit && g.prof != nil && g.prof.deferStmt != nil {
				return false // judged by the profile when the statement is translated
			}
		case *ast.FuncLit:
			g.fail(x, "function literal")
		case *ast.AssignStmt:
			for _, l := range x.Lhs {
				switch t := l.(type) {
				case *ast.Ident:
					if x.Tok != token.DEFINE {
						g.assigned[t.Name] = true
					}
				case *ast.SelectorExpr:
					g.assigned[selText(t.X)] = true
				case *ast.IndexExpr:
					g.assigned[selText(t.X)] = true
				}
			}
			for _, r := range x.Rhs {
				if id, ok := r.(*ast.Ident); ok {
					g.copied[id.Name] = true
				}
			}
		case *ast.IncDecStmt:
			g.assigned[selText(x.X)] = true
		case *ast.DeclStmt:
			if gd, ok := x.Decl.(*ast.GenDecl); ok {
				for _, sp := range gd.Specs {
					if vs, ok := sp.(*ast.ValueSpec); ok {
						for _, n := range vs.Names {
							g.assigned[n.Name] = true
						}
					}
				}
			}
		}
		return true
	})
	ret := make([]string, len(f.results))
	for j, k := range f.results {
		ret[j] = csLeanTy[k]
	}
	rt := "(" + strings.Join(ret, " × ") + ")"
	order := g.order
	g.order = nil
	g.block(f.decl.Body.List, 1)
	callees := g.order
	monad := "RepoM H"
	if g.prof != nil {
		monad = g.prof.monad
	}
	f.text = fmt.Sprintf("/-- %s: %s -/\ndef %s %s : %s %s := do\n%s\n", f.pkg, strings.TrimSuffix(g.goText(&ast.FuncDecl{Recv: f.decl.Recv, Name: f.decl.Name, Type: f.decl.Type}), " "),
		f.lean, strings.Join(sig, " "), monad, rt, strings.Join(g.out, "\n"))
	err := g.err
	*g = saved
	g.err = err
	g.order = append(append(order, callees...), f)
	f.state = 2
}

func recvTypeName(fd *ast.FuncDecl) string {
	if fd.Recv == nil || len(fd.Recv.List) != 1 {
		return ""
	}
	t := fd.Recv.List[0].Type
	if s, ok := t.(*ast.StarExpr); ok {
		t = s.X
	}
	if id, ok := t.(*ast.Ident); ok {
		return id.Name
	}
	return "?"
}

var csIdent = regexp.MustCompile(`^[A-Za-z_][A-Za-z0-9_]*$`)

// load parses the files and registers every function declaration; decl sees the other top-level declarations
func (g *csGen) load(items [][2]string, leanName func(pkg, recv, name string) string, decl func(pkg string, d *ast.GenDecl)) error {
	for _, it := range items {
		pkg, file := it[0], it[1]
		path := filepath.Join(*repo, file)
		b, err := os.ReadFile(path)
		if err != nil {
			return err
		}
		g.src[path] = b
		f, err := parser.ParseFile(g.fset, path, b, 0)
		if err != nil {
			return err
		}
		for _, d := range f.Decls {
			switch x := d.(type) {
			case *ast.GenDecl:
				decl(pkg, x)
			case *ast.FuncDecl:
				if x.Body == nil {
					continue
				}
				recv := recvTypeName(x)
				g.funcs[pkg+":"+recv+"."+x.Name.Name] = &csFunc{decl: x, pkg: pkg, recv: recv, lean: leanName(pkg, recv, x.Name.Name)}
			}
		}
	}
	return nil
}

// checkStruct: the field table of a data refinement must cover the Go struct exactly
func (g *csGen) checkStruct(structs map[string]*ast.StructType, name string, table map[string]csField, order *[]string) error {
	st, ok := structs[name]
	if !ok {
		return fmt.Errorf("struct %s not found", name)
	}
	n := 0
	for _, f := range st.Fields.List {
		for _, id := range f.Names {
			e, ok := table[id.Name]
			k, kok := g.goKind(f.Type)
			if id.Name == "Version" && kok && (k == "nat" || k == "int") {
				k = e.k
			}
			if !ok || !kok || k != e.k {
				return fmt.Errorf("%s: unsupported: field %s.%s %s has no place in the row model", g.fset.Position(id.Pos()), name, id.Name, g.goText(f.Type))
			}
			if order != nil {
				*order = append(*order, id.Name)
			}
			n++
		}
	}
	if n != len(table) {
		return fmt.Errorf("struct %s lost a field of the row model", name)
	}
	return nil
}

// signatures computes the parameter and result kinds; functions outside the subset are dropped (a call of one is
// reported at the call site)
func (g *csGen) signatures() {
	for key, f := range g.funcs {
		ok := true
		if f.recv != "" && !g.dropsRecv(f.recv) {
			k, kok := g.goKind(f.decl.Recv.List[0].Type)
			ok = ok && kok
			f.params = append(f.params, k)
		}
		for _, p := range f.decl.Type.Params.List {
			k, kok := g.goKind(p.Type)
			if kok && k == "drop" {
				continue
			}
			ok = ok && kok && len(p.Names) > 0
			for _, n := range p.Names {
				pk := k
				if g.prof != nil && g.prof.paramKind != nil {
					pk = g.prof.paramKind(n.Name, k)
				}
				f.params = append(f.params, pk)
			}
		}
		if f.decl.Type.Results != nil {
			for _, r := range f.decl.Type.Results.List {
				k, kok := g.goKind(r.Type)
				ok = ok && kok && len(r.Names) == 0
				f.results = append(f.results, k)
			}
		}
		if !ok || len(f.results) == 0 || !csIdent.MatchString(f.lean) {
			delete(g.funcs, key)
		}
	}
}

func genChainSvc() (string, error) {
	g := &csGen{fset: token.NewFileSet(), src: map[string][]byte{}, funcs: map[string]*csFunc{}, codes: map[string]bool{}}
	csHdrOrder = nil
	structs := map[string]*ast.StructType{}
	err := g.load([][2]string{{"domains", "domains/headers.go"}, {"service", "service/chain_service.go"}},
		func(pkg, recv, name string) string {
			if recv != "" && recv != "chainService" && recv != "BlockHeader" {
				return recv + "_" + name
			}
			return name
		},
		func(pkg string, x *ast.GenDecl) {
			for _, sp := range x.Specs {
				switch s := sp.(type) {
				case *ast.TypeSpec:
					if st, ok := s.Type.(*ast.StructType); ok && pkg == "domains" {
						structs[s.Name.Name] = st
					}
				case *ast.ValueSpec:
					if x.Tok == token.CONST && pkg == "service" && s.Type != nil && selText(s.Type) == "AddBlockErrorCode" {
						for _, n := range s.Names {
							g.codes[n.Name] = true
						}
					}
				}
			}
		})
	if err != nil {
		return "", err
	}
	// the data refinement must cover the structs exactly
	if err := g.checkStruct(structs, "BlockHeader", csHdrFields, &csHdrOrder); err != nil {
		return "", fmt.Errorf("domains/headers.go: %v", err)
	}
	if err := g.checkStruct(structs, "BlockHeaderSource", csSrcFields, nil); err != nil {
		return "", fmt.Errorf("domains/headers.go: %v", err)
	}
	g.signatures()
	root, ok := g.funcs["service:chainService.Add"]
	if !ok {
		return "", fmt.Errorf("service/chain_service.go: unsupported: (*chainService).Add not found or its signature is outside the subset")
	}
	g.translate(root)
	if g.err != nil {
		return "", g.err
	}
	var b strings.Builder
	b.WriteString(genHeader)
	b.WriteString("-- service/chain_service.go (*chainService).Add and the functions it reaches, translated by gen_chainsvc.go.\n")
	b.WriteString("import BHS.Model.RepoM\n\nset_option linter.unusedVariables false\n\nnamespace BHS.Gen.ChainSvc\nopen BHS BHS.Chain\n")
	b.WriteString("variable {H : Type} [DecidableEq H] [Inhabited H]\n\n")
	b.WriteString(g.defs())
	b.WriteString("end BHS.Gen.ChainSvc\n")
	return b.String(), nil
}

// defs: the translated definitions in dependency order, followed by their name list
func (g *csGen) defs() string {
	var b strings.Builder
	var names []string
	for _, f := range g.order {
		b.WriteString(f.text + "\n")
		names = append(names, strconv.Quote(f.lean))
	}
	b.WriteString("/-- the translated functions, callees first -/\ndef translated : List String := [" + strings.Join(names, ", ") + "]\n\n")
	return b.String()
}
