package main

// Gen.CallSites: go/ast facts about who calls Chains.Add and whether Add is mutually exclusive.
// Used by C15 (the hypothesis of the serial-outcome theorem is tied to the source) and C11.

import (
	"fmt"
	"go/ast"
	"go/parser"
	"go/printer"
	"go/token"
	"os"
	"path/filepath"
	"sort"
	"strconv"
	"strings"
)

func init() { register("CallSites", genCallSites) }

func nodeText(fset *token.FileSet, n ast.Node) string {
	var b strings.Builder
	_ = printer.Fprint(&b, fset, n)
	return b.String()
}

func genCallSites() (string, error) {
	type site struct{ file, fn, recv string }
	var adders, notifiers []site
	addExclusive := false
	notifyAfterInsert := false
	err := filepath.Walk(*repo, func(p string, info os.FileInfo, err error) error {
		if err != nil {
			return err
		}
		if info.IsDir() {
			if info.Name() == ".git" || info.Name() == "docs" {
				return filepath.SkipDir
			}
			return nil
		}
		if !strings.HasSuffix(p, ".go") || strings.HasSuffix(p, "_test.go") || strings.Contains(p, "/internal/tests/") || strings.Contains(p, "/regressiontests/") {
			return nil
		}
		rel, _ := filepath.Rel(*repo, p)
		fset := token.NewFileSet()
		f, err := parser.ParseFile(fset, p, nil, 0)
		if err != nil {
			return err
		}
		for _, d := range f.Decls {
			fd, ok := d.(*ast.FuncDecl)
			if !ok || fd.Body == nil {
				continue
			}
			// is this chainService.Add? check the mutex discipline and the notify-after-insert order
			if rel == "service/chain_service.go" && fd.Name.Name == "Add" && fd.Recv != nil {
				if len(fd.Body.List) >= 2 {
					s0 := nodeText(fset, fd.Body.List[0])
					s1 := nodeText(fset, fd.Body.List[1])
					if strings.HasSuffix(s0, ".Lock()") && strings.HasPrefix(s1, "defer ") && strings.HasSuffix(s1, ".Unlock()") &&
						strings.TrimSuffix(s0, ".Lock()") == strings.TrimSuffix(strings.TrimPrefix(s1, "defer "), ".Unlock()") {
						addExclusive = true
					}
				}
				// Notify must come after the insert call and after its error check returned
				insertAt, notifyAt := -1, -1
				for i, st := range fd.Body.List {
					t := nodeText(fset, st)
					if strings.Contains(t, "cs.insert(") && insertAt < 0 {
						insertAt = i
					}
					if strings.Contains(t, ".Notify(") && notifyAt < 0 {
						notifyAt = i
					}
				}
				if insertAt >= 0 && notifyAt > insertAt+1 {
					// the statement right after the insert must be its error return
					t := nodeText(fset, fd.Body.List[insertAt+1])
					if strings.HasPrefix(t, "if err != nil") && strings.Contains(t, "return") {
						notifyAfterInsert = true
					}
				}
			}
			ast.Inspect(fd.Body, func(n ast.Node) bool {
				c, ok := n.(*ast.CallExpr)
				if !ok {
					return true
				}
				sel, ok := c.Fun.(*ast.SelectorExpr)
				if !ok {
					return true
				}
				recv := nodeText(fset, sel.X)
				low := strings.ToLower(recv)
				if sel.Sel.Name == "Add" && (strings.HasSuffix(low, "chains") || strings.HasSuffix(low, "chainservice")) {
					adders = append(adders, site{rel, fd.Name.Name, recv})
				}
				if sel.Sel.Name == "Notify" && strings.HasSuffix(low, "notification") {
					notifiers = append(notifiers, site{rel, fd.Name.Name, recv})
				}
				return true
			})
		}
		return nil
	})
	if err != nil {
		return "", err
	}
	srt := func(s []site) {
		sort.Slice(s, func(i, j int) bool { return s[i].file+s[i].fn < s[j].file+s[j].fn })
	}
	srt(adders)
	srt(notifiers)
	var b strings.Builder
	b.WriteString(genHeader)
	b.WriteString("namespace BHS.Gen\n\n")
	emit := func(name string, ss []site) {
		fmt.Fprintf(&b, "def %s : List (String × String) := [", name)
		for i, s := range ss {
			if i > 0 {
				b.WriteString(", ")
			}
			fmt.Fprintf(&b, "(%s, %s)", strconv.Quote(s.file), strconv.Quote(s.fn))
		}
		b.WriteString("]\n")
	}
	b.WriteString("/-- (file, enclosing function) of every call of Chains.Add outside tests -/\n")
	emit("addCallers", adders)
	b.WriteString("/-- (file, enclosing function) of every call of the chain service's Notification.Notify -/\n")
	emit("notifyCallers", notifiers)
	fmt.Fprintf(&b, "/-- chainService.Add starts with `x.Lock(); defer x.Unlock()` on one mutex -/\ndef addIsExclusive : Bool := %v\n", addExclusive)
	fmt.Fprintf(&b, "/-- in chainService.Add the Notify call comes after the insert and after the insert's error return -/\ndef notifyAfterInsert : Bool := %v\n", notifyAfterInsert)
	b.WriteString("\nend BHS.Gen\n")
	return b.String(), nil
}
