package main

// Gen.ConnMgr, statement part of the translator (subset, primitive table, skip list: header of gen_connmgr.go).

import (
	"fmt"
	"go/ast"
	"go/parser"
	"go/token"
	"go/types"
	"path/filepath"
	"strings"
)

type cmgCont func(env *cmgEnv, ind int) string

func cmgSet(field, val string, ind int) string {
	return admPad(ind) + "let g := { g with " + field + " := " + val + " };\n"
}

func (t *cmgTr) block(list []ast.Stmt, env *cmgEnv, ind int, k cmgCont) string {
	if len(list) == 0 {
		return k(env, ind)
	}
	rest := func(env2 *cmgEnv, ind2 int) string { return t.block(list[1:], env2, ind2, k) }
	if t.skippable(list[0]) {
		if as, ok := list[0].(*ast.AssignStmt); ok && as.Tok == token.DEFINE { // a local that is not modelled
			if id, ok := as.Lhs[0].(*ast.Ident); ok && id.Name != "_" {
				env = env.clone()
				env.vars[id.Name] = t.fresh(cmgVal{k: ckSkip})
			}
		}
		return rest(env, ind)
	}
	return t.stmt(list[0], env, ind, rest)
}

func (t *cmgTr) scoped(list []ast.Stmt, env *cmgEnv, ind int, k cmgCont) string {
	return t.block(list, env.clone(), ind, func(inner *cmgEnv, ind2 int) string { return k(cmgLeave(inner, env), ind2) })
}

// one statement; the first test of an address whose nil-ness is not known on this path wraps the statement in a match
func (t *cmgTr) stmt(s ast.Stmt, env *cmgEnv, ind int, k cmgCont) (out string) {
	defer func() {
		if r := recover(); r != nil {
			switch n := r.(type) {
			case cmgNeed:
				nm := cmgName(strings.ReplaceAll(n.name, ".", "_") + "_addr")
				someEnv, noneEnv := env.clone(), env.clone()
				someEnv.addr[n.obj] = cmgAddr{1, nm}
				noneEnv.addr[n.obj] = cmgAddr{2, ""}
				out = admPad(ind) + "(match " + n.lean + ".addr with\n" + admPad(ind) + "| some " + nm + " =>\n" + t.stmt(s, someEnv, ind+1, k) + "\n" +
					admPad(ind) + "| none =>\n" + t.stmt(s, noneEnv, ind+1, k) + ")"
			case cmgNilDeref:
				out = admPad(ind) + "nilDeref g"
			default:
				panic(r)
			}
		}
	}()
	return t.stmt1(s, env, ind, k)
}

func (t *cmgTr) modOf(n ast.Node, field string) string {
	m, ok := t.mods[field]
	if !ok {
		t.fail(n, "width of "+field+" unknown")
	}
	return m
}

func cmgInc(x, mod string) string {
	if mod == "" {
		return "(" + x + " + 1)"
	}
	return "((" + x + " + 1) % " + mod + ")"
}

func (t *cmgTr) stmt1(s ast.Stmt, env *cmgEnv, ind int, k cmgCont) string {
	r := t.recv
	switch x := s.(type) {
	case *ast.ReturnStmt:
		if t.cur.result == "Bool" {
			if len(x.Results) != 1 {
				t.fail(s, "number of results")
			}
			return admPad(ind) + t.want(x.Results[0], env, ckBool, "a boolean result").lean
		}
		if len(x.Results) != 0 {
			t.fail(s, "number of results")
		}
		return admPad(ind) + "g"
	case *ast.BranchStmt:
		if x.Tok == token.CONTINUE && x.Label == nil && t.inCase {
			return admPad(ind) + "g"
		}
		t.fail(s, "branch statement "+x.Tok.String())
	case *ast.BlockStmt:
		return t.scoped(x.List, env, ind, k)
	case *ast.IfStmt:
		return t.ifStmt(x, env, ind, k)
	case *ast.AssignStmt:
		return t.assign(x, env, ind, k)
	case *ast.SelectStmt:
		return t.selectStmt(x, env, ind, k)
	case *ast.IncDecStmt:
		if x.Tok != token.INC {
			t.fail(s, "--")
		}
		if admPath(x.X) == r+".globalFailedAttempts" {
			return cmgSet("gfails", cmgInc("g.gfails", t.modOf(s, "globalFailedAttempts")), ind) + k(env, ind)
		}
		if ix, ok := x.X.(*ast.IndexExpr); ok && admPath(ix.X) == r+".failedAttempts" {
			key := t.want(ix.Index, env, ckKey, "an address key").lean
			return cmgSet("fails", "upd g.fails "+key+" "+cmgInc("g.fails "+key, t.modOf(s, "failedAttempts")), ind) + k(env, ind)
		}
		if sel, ok := x.X.(*ast.SelectorExpr); ok && sel.Sel.Name == "retryCount" {
			id := t.reqOf(sel.X, env).idLean
			return cmgSet("retryCnt", "upd g.retryCnt "+id+" "+cmgInc("g.retryCnt "+id, t.modOf(s, "retryCount")), ind) + k(env, ind)
		}
		t.fail(s, "++ of this operand")
	case *ast.GoStmt:
		p := admPath(x.Call.Fun)
		switch {
		case p == r+".NewConnReq" && len(x.Call.Args) == 0:
			f := t.need(s, "NewConnReq_begin")
			return admPad(ind) + "let g := " + f.name + " cfg_ g;\n" + k(env, ind)
		case p == r+".cfg.OnDisconnection" && len(x.Call.Args) == 1:
			return cmgSet("closed", t.reqOf(x.Call.Args[0], env).idLean+" :: g.closed", ind) + k(env, ind)
		}
		t.fail(s, "go "+p)
	case *ast.ExprStmt:
		c, ok := x.X.(*ast.CallExpr)
		if !ok {
			t.fail(s, "expression statement")
		}
		return t.callStmt(c, env, ind, k)
	}
	t.fail(s, fmt.Sprintf("statement %T", s))
	return ""
}

func (t *cmgTr) callStmt(c *ast.CallExpr, env *cmgEnv, ind int, k cmgCont) string {
	r := t.recv
	p := admPath(c.Fun)
	sel, isSel := c.Fun.(*ast.SelectorExpr)
	switch {
	case isSel && sel.Sel.Name == "updateState" && len(c.Args) == 1:
		id := t.reqOf(sel.X, env).idLean
		return cmgSet("rstate", "upd g.rstate "+id+" "+t.want(c.Args[0], env, ckNat, "a ConnState").lean, ind) + k(env, ind)
	case p == "delete" && len(c.Args) == 2:
		m := t.want(c.Args[0], env, ckMap, "pending or conns")
		key := t.want(c.Args[1], env, ckNat, "a request id").lean
		if m.lean == "pending" {
			return cmgSet("pending", "rem "+key+" g.pending", ind) + k(env, ind)
		}
		return cmgSet("conns", "delConn g.conns "+key, ind) + k(env, ind)
	case p == r+".cfg.BanAddress" && len(c.Args) == 1:
		return cmgSet("banned", "g.banned ++ ["+t.want(c.Args[0], env, ckKey, "an address key").lean+"]", ind) + k(env, ind)
	case p == "time.AfterFunc" && len(c.Args) == 2:
		d := t.want(c.Args[0], env, ckInt, "a duration")
		fl, ok := c.Args[1].(*ast.FuncLit)
		if !ok || fl.Type.Params.NumFields() != 0 || len(fl.Body.List) != 1 {
			t.fail(c, "timer function other than func() { one call }")
		}
		es, ok := fl.Body.List[0].(*ast.ExprStmt)
		if !ok {
			t.fail(c, "timer function other than func() { one call }")
		}
		in, ok := es.X.(*ast.CallExpr)
		if !ok {
			t.fail(c, "timer function other than func() { one call }")
		}
		switch {
		case admPath(in.Fun) == r+".NewConnReq" && len(in.Args) == 0:
			f := t.need(c, "NewConnReq_begin")
			return cmgSet("acts", "g.acts ++ [Act.after "+d.lean+" Fn.newConnReq]", ind) +
				admPad(ind) + "let g := " + f.name + " cfg_ g;\n" + k(env, ind)
		case admPath(in.Fun) == r+".Connect" && len(in.Args) == 1:
			return cmgSet("acts", "g.acts ++ [Act.after "+d.lean+" (Fn.connect "+t.reqOf(in.Args[0], env).idLean+")]", ind) + k(env, ind)
		}
		t.fail(c, "timer calling "+admPath(in.Fun))
	case p == "atomic.StoreUint64" && len(c.Args) == 2:
		// atomic.StoreUint64(&x.id, atomic.AddUint64(&cm.connReqCount, n))
		u, ok1 := c.Args[0].(*ast.UnaryExpr)
		in, ok2 := c.Args[1].(*ast.CallExpr)
		if !ok1 || !ok2 || u.Op != token.AND || admPath(in.Fun) != "atomic.AddUint64" || len(in.Args) != 2 || admPath(in.Args[0]) != "&"+r+".connReqCount" {
			t.fail(c, "atomic store other than StoreUint64(&x.id, AddUint64(&cm.connReqCount, n))")
		}
		fs, ok := u.X.(*ast.SelectorExpr)
		id, isID := fs.X.(*ast.Ident)
		if !ok || fs.Sel.Name != "id" || !isID {
			t.fail(c, "atomic store other than StoreUint64(&x.id, AddUint64(&cm.connReqCount, n))")
		}
		v := t.reqOf(fs.X, env)
		if v.lean == "" || t.aliases(env, v) != 1 {
			t.fail(c, "id store to a request that is aliased or only known by its id")
		}
		n := t.want(in.Args[1], env, ckNat, "a number")
		prim := "adoptObj"
		if v.fresh {
			prim = "newObj"
		}
		out := cmgSet("nextId", "g.nextId + "+n.lean, ind) +
			admPad(ind) + "let " + v.lean + " := { " + v.lean + " with id := g.nextId };\n" +
			admPad(ind) + "let g := " + prim + " g " + v.lean + ".id;\n"
		env = env.clone()
		v.idLean = v.lean + ".id"
		env.vars[id.Name] = v
		return out + k(env, ind)
	}
	if isSel {
		if base, ok := sel.X.(*ast.Ident); ok && base.Name == r {
			if sel.Sel.Name == "NewConnReq" {
				t.fail(c, "direct call of NewConnReq (it is cut at GetNewAddress: only `go` / timer)")
			}
			f := t.need(c, sel.Sel.Name)
			if f.result != "G" {
				t.fail(c, "call of a function with a result as a statement")
			}
			return admPad(ind) + "let g := " + t.callText(c, f, env) + ";\n" + k(env, ind)
		}
	}
	t.fail(c, "call "+p+" (not in the primitive or skip tables)")
	return ""
}

func (t *cmgTr) aliases(env *cmgEnv, v cmgVal) int {
	n := 0
	for _, w := range env.vars {
		if w.k == ckReq && w.obj == v.obj {
			n++
		}
	}
	return n
}

// declare (:=) or assign (=) a Go variable
func (t *cmgTr) bind(n ast.Node, env *cmgEnv, name string, v cmgVal, define bool) {
	if name == "_" {
		return
	}
	if cmgReserved[name] {
		t.fail(n, "local named "+name+" (reserved by the translation)")
	}
	old, exists := env.vars[name]
	if define {
		env.vars[name] = t.fresh(v)
		return
	}
	if !exists {
		t.fail(n, "assignment to undeclared "+name)
	}
	v.id = old.id
	env.vars[name] = v
}

func (t *cmgTr) lhsName(e ast.Expr) string {
	id, ok := e.(*ast.Ident)
	if !ok {
		t.fail(e, "assignment target")
	}
	return id.Name
}

func (t *cmgTr) addrText(n ast.Node, env *cmgEnv, v cmgVal) string {
	switch a := env.addr[v.obj]; a.state {
	case 0:
		return v.lean + ".addr"
	case 1:
		return "(some " + a.lean + ")"
	case 2:
		return "none"
	}
	t.fail(n, "the Addr of this request is not modelled")
	return ""
}

func (t *cmgTr) assign(x *ast.AssignStmt, env *cmgEnv, ind int, k cmgCont) string {
	r := t.recv
	define := x.Tok == token.DEFINE
	if x.Tok != token.ASSIGN && !define {
		t.fail(x, "assignment operator "+x.Tok.String())
	}
	if len(x.Lhs) == 2 && len(x.Rhs) == 1 {
		a, b := t.lhsName(x.Lhs[0]), t.lhsName(x.Lhs[1])
		if ix, ok := x.Rhs[0].(*ast.IndexExpr); ok {
			m := t.want(ix.X, env, ckMap, "pending or conns")
			key := t.want(ix.Index, env, ckNat, "a request id").lean
			test := "decide (" + key + " ∈ g.pending)"
			if m.lean == "conns" {
				test = "(lookupConn g.conns " + key + ").isSome"
			}
			if a == "_" {
				env = env.clone()
				t.bind(x, env, b, cmgVal{lean: cmgName(b), k: ckBool}, define)
				if b == "_" {
					return k(env, ind)
				}
				return admPad(ind) + "let " + cmgName(b) + " := " + test + ";\n" + k(env, ind)
			}
			yes, no := env.clone(), env.clone()
			obj := t.newObj()
			t.bind(x, no, a, cmgVal{k: ckBad, why: a + " is nil here (absent map entry)"}, define)
			t.bind(x, yes, b, cmgConst(true), define)
			t.bind(x, no, b, cmgConst(false), define)
			if !define { // same Go variables on both paths
			} else {
				for _, n := range []string{a, b} {
					if n != "_" {
						v := no.vars[n]
						v.id = yes.vars[n].id
						no.vars[n] = v
					}
				}
			}
			if m.lean == "pending" {
				t.bind(x, yes, a, cmgVal{k: ckReq, obj: obj, idLean: key}, define)
				t.fixID(yes, no, a)
				yes.addr[obj] = cmgAddr{3, ""}
				return admPad(ind) + "(if " + test + " then\n" + k(yes, ind+1) + "\n" + admPad(ind) + "else\n" + k(no, ind+1) + ")"
			}
			nm := cmgName(a + "_addr")
			t.bind(x, yes, a, cmgVal{lean: cmgName(a), k: ckReq, obj: obj, idLean: key}, define)
			t.fixID(yes, no, a)
			yes.addr[obj] = cmgAddr{1, nm}
			return admPad(ind) + "(match lookupConn g.conns " + key + " with\n" + admPad(ind) + "| some " + nm + " =>\n" +
				admPad(ind+1) + "let " + cmgName(a) + " : Req := { id := " + key + ", addr := some " + nm + " };\n" + k(yes, ind+1) + "\n" +
				admPad(ind) + "| none =>\n" + k(no, ind+1) + ")"
		}
		c, ok := x.Rhs[0].(*ast.CallExpr)
		if !ok || !define {
			t.fail(x, "two-value assignment")
		}
		switch admPath(c.Fun) {
		case r + ".cfg.GetNewAddress":
			if len(c.Args) != 0 {
				t.fail(x, "arguments of GetNewAddress")
			}
			t.cur.useAddr = true
			yes, no := env.clone(), env.clone()
			obj := t.newObj()
			t.bind(x, yes, a, cmgVal{k: ckAddr, obj: obj, why: a}, true)
			t.bind(x, no, a, cmgVal{k: ckAddr, obj: obj, why: a}, true)
			t.fixID(yes, no, a)
			yes.addr[obj] = cmgAddr{1, cmgName(a)}
			no.addr[obj] = cmgAddr{2, ""}
			t.bind(x, yes, b, cmgVal{k: ckErr, konst: admBool(false)}, true)
			t.bind(x, no, b, cmgVal{k: ckErr, konst: admBool(true)}, true)
			t.fixID(yes, no, b)
			pat := "_"
			if a != "_" {
				pat = cmgName(a)
			}
			return cmgSet("asks", "g.asks + 1", ind) + admPad(ind) + "(match addr_ with\n" + admPad(ind) + "| some " + pat + " =>\n" + k(yes, ind+1) + "\n" +
				admPad(ind) + "| none =>\n" + k(no, ind+1) + ")"
		case r + ".cfg.Dial":
			if len(c.Args) != 1 {
				t.fail(x, "arguments of Dial")
			}
			t.want(c.Args[0], env, ckAddr, "an address")
			t.cur.useDial = true
			yes, no := env.clone(), env.clone()
			t.bind(x, yes, a, cmgVal{k: ckSkip}, true)
			t.bind(x, no, a, cmgVal{k: ckSkip}, true)
			t.fixID(yes, no, a)
			t.bind(x, yes, b, cmgVal{k: ckErr, konst: admBool(false)}, true)
			t.bind(x, no, b, cmgVal{k: ckErr, konst: admBool(true)}, true)
			t.fixID(yes, no, b)
			return cmgSet("dials", "g.dials + 1", ind) + admPad(ind) + "(if dial_ then\n" + k(yes, ind+1) + "\n" + admPad(ind) + "else\n" + k(no, ind+1) + ")"
		}
		t.fail(x, "two-value assignment from "+admPath(c.Fun))
	}
	if len(x.Lhs) != 1 || len(x.Rhs) != 1 {
		t.fail(x, "assignment shape")
	}
	switch l := x.Lhs[0].(type) {
	case *ast.IndexExpr:
		if define {
			t.fail(x, ":= on a map entry")
		}
		if admPath(l.X) == r+".failedAttempts" {
			key := t.want(l.Index, env, ckKey, "an address key").lean
			return cmgSet("fails", "upd g.fails "+key+" "+t.want(x.Rhs[0], env, ckNat, "a number").lean, ind) + k(env, ind)
		}
		m := t.want(l.X, env, ckMap, "pending or conns")
		key := t.want(l.Index, env, ckNat, "a request id")
		v := t.reqOf(x.Rhs[0], env)
		if key.lean != v.idLean {
			t.fail(x, "map store whose key ("+key.lean+") is not the id of the stored request ("+v.idLean+")")
		}
		if m.lean == "pending" {
			return cmgSet("pending", "ins "+v.idLean+" g.pending", ind) + k(env, ind)
		}
		return cmgSet("conns", "putConn g.conns "+v.idLean+" "+t.addrText(x, env, v), ind) + k(env, ind)
	case *ast.SelectorExpr:
		if define {
			t.fail(x, ":= on a field")
		}
		if admPath(l) == r+".globalFailedAttempts" {
			return cmgSet("gfails", t.want(x.Rhs[0], env, ckNat, "a number").lean, ind) + k(env, ind)
		}
		v := t.reqOf(l.X, env)
		switch l.Sel.Name {
		case "retryCount":
			return cmgSet("retryCnt", "upd g.retryCnt "+v.idLean+" "+t.want(x.Rhs[0], env, ckNat, "a number").lean, ind) + k(env, ind)
		case "Addr":
			a := t.want(x.Rhs[0], env, ckAddr, "an address")
			kn := t.known(a, env, a.why)
			if v.lean == "" || t.aliases(env, v) != 1 || kn.state == 3 {
				t.fail(x, "Addr store to a request that is aliased or only known by its id")
			}
			env = env.clone()
			env.addr[v.obj] = kn
			val := "none"
			if kn.state == 1 {
				val = "some " + kn.lean
			}
			return admPad(ind) + "let " + v.lean + " := { " + v.lean + " with addr := " + val + " };\n" + k(env, ind)
		}
		t.fail(x, "store to field "+l.Sel.Name)
	}
	n := t.lhsName(x.Lhs[0])
	// c := &ConnReq{}
	if u, ok := x.Rhs[0].(*ast.UnaryExpr); ok && u.Op == token.AND {
		cl, ok := u.X.(*ast.CompositeLit)
		if !ok || types.ExprString(cl.Type) != "ConnReq" || len(cl.Elts) != 0 || !define {
			t.fail(x, "address-of other than `x := &ConnReq{}`")
		}
		env = env.clone()
		obj := t.newObj()
		t.bind(x, env, n, cmgVal{lean: cmgName(n), k: ckReq, obj: obj, idLean: cmgName(n) + ".id", fresh: true}, true)
		env.addr[obj] = cmgAddr{2, ""}
		return admPad(ind) + "let " + cmgName(n) + " : Req := { id := 0, addr := none };\n" + k(env, ind)
	}
	v := t.expr(x.Rhs[0], env)
	env = env.clone()
	switch v.k {
	case ckBad:
		t.fail(x.Rhs[0], v.why)
	case ckReq: // alias: same object
		t.bind(x, env, n, v, define)
		return k(env, ind)
	case ckNat, ckInt, ckBool:
		if old, ok := env.vars[n]; ok && !define && old.k != v.k {
			t.fail(x, "assignment changes the sort of "+n)
		}
		t.bind(x, env, n, cmgVal{lean: cmgName(n), k: v.k}, define)
		if n == "_" {
			return k(env, ind)
		}
		return admPad(ind) + "let " + cmgName(n) + " := " + v.lean + ";\n" + k(env, ind)
	}
	t.fail(x, "assignment of this sort of value")
	return ""
}

// the same Go variable declared on two paths keeps one identity
func (t *cmgTr) fixID(yes, no *cmgEnv, name string) {
	if name == "_" {
		return
	}
	v := no.vars[name]
	v.id = yes.vars[name].id
	no.vars[name] = v
}

func (t *cmgTr) ifStmt(x *ast.IfStmt, env *cmgEnv, ind int, k cmgCont) string {
	if x.Init != nil {
		noInit := *x
		noInit.Init = nil
		inner := func(e2 *cmgEnv, ind2 int) string {
			return t.stmt(&noInit, e2, ind2, func(after *cmgEnv, ind3 int) string { return k(cmgLeave(after, env), ind3) })
		}
		if t.skippable(x.Init) {
			return inner(env.clone(), ind)
		}
		as, ok := x.Init.(*ast.AssignStmt)
		if !ok {
			t.fail(x.Init, "if-init statement")
		}
		return t.assign(as, env.clone(), ind, inner)
	}
	c := t.want(x.Cond, env, ckBool, "a boolean condition")
	thenB := func(ind2 int) string { return t.scoped(x.Body.List, env, ind2, k) }
	elseB := func(ind2 int) string {
		switch e := x.Else.(type) {
		case nil:
			return k(env, ind2)
		case *ast.BlockStmt:
			return t.scoped(e.List, env, ind2, k)
		case *ast.IfStmt:
			return t.stmt(e, env, ind2, k)
		}
		t.fail(x.Else, "else")
		return ""
	}
	if c.konst != nil {
		if *c.konst {
			return thenB(ind)
		}
		return elseB(ind)
	}
	return admPad(ind) + "(if " + c.lean + " then\n" + thenB(ind+1) + "\n" + admPad(ind) + "else\n" + elseB(ind+1) + ")"
}

// the two select shapes of the primitive table
func (t *cmgTr) selectStmt(x *ast.SelectStmt, env *cmgEnv, ind int, k cmgCont) string {
	r := t.recv
	if len(x.Body.List) != 2 {
		t.fail(x, "select with other than two cases")
	}
	var first, quit *ast.CommClause
	for _, c := range x.Body.List {
		cc := c.(*ast.CommClause)
		if es, ok := cc.Comm.(*ast.ExprStmt); ok {
			if u, ok := es.X.(*ast.UnaryExpr); ok && u.Op == token.ARROW && admPath(u.X) == r+".quit" {
				quit = cc
				continue
			}
		}
		first = cc
	}
	if first == nil || quit == nil {
		t.fail(x, "select without a `<-cm.quit` case")
	}
	if len(quit.Body) > 1 {
		t.fail(quit, "quit case other than empty / return")
	}
	if len(quit.Body) == 1 {
		if rs, ok := quit.Body[0].(*ast.ReturnStmt); !ok || len(rs.Results) != 0 {
			t.fail(quit, "quit case other than empty / return")
		}
	}
	if len(first.Body) != 0 {
		t.fail(first, "select case with a body")
	}
	switch c := first.Comm.(type) {
	case *ast.ExprStmt: // <-done
		u, ok := c.X.(*ast.UnaryExpr)
		if ok && u.Op == token.ARROW {
			if v := t.expr(u.X, env); v.k == ckSkip {
				return k(env, ind)
			}
		}
	case *ast.SendStmt:
		cl, ok := c.Value.(*ast.CompositeLit)
		if admPath(c.Chan) != r+".requests" || !ok {
			t.fail(c, "send other than cm.requests <- T{…}")
		}
		tn := types.ExprString(cl.Type)
		fields, ok := t.msgTypes[tn]
		if !ok || len(cl.Elts) != len(fields) {
			t.fail(c, "message "+tn)
		}
		f := t.need(c, "connHandler_"+tn)
		s := f.name + " cfg_ g"
		for i, fd := range fields {
			var arg ast.Expr = cl.Elts[i]
			if kv, ok := arg.(*ast.KeyValueExpr); ok {
				arg = nil
				for _, e := range cl.Elts {
					if e.(*ast.KeyValueExpr).Key.(*ast.Ident).Name == fd.name {
						arg = e.(*ast.KeyValueExpr).Value
					}
				}
				if arg == nil {
					t.fail(kv, "field "+fd.name+" missing")
				}
			}
			switch fd.typ {
			case "*ConnReq":
				v := t.reqOf(arg, env)
				if v.lean == "" {
					t.fail(arg, "this request has only its id")
				}
				s += " " + v.lean
			case "uint64":
				s += " " + t.want(arg, env, ckNat, "a number").lean
			case "bool":
				s += " " + t.want(arg, env, ckBool, "a boolean").lean
			default:
				t.pure(arg)
			}
		}
		if f.useAddr {
			t.cur.useAddr = true
			s += " addr_"
		}
		if f.useDial {
			t.cur.useDial = true
			s += " dial_"
		}
		return admPad(ind) + "let g := " + s + ";\n" + k(env, ind)
	}
	t.fail(x, "select shape")
	return ""
}

// ---------- functions ----------

func (t *cmgTr) method(name string) *ast.FuncDecl {
	for _, d := range t.file.Decls {
		if fd, ok := d.(*ast.FuncDecl); ok && fd.Name.Name == name && fd.Recv != nil && len(fd.Recv.List) == 1 &&
			types.ExprString(fd.Recv.List[0].Type) == "*ConnManager" && len(fd.Recv.List[0].Names) == 1 {
			return fd
		}
	}
	return nil
}

func (t *cmgTr) sig(f *cmgFunc, params string) string {
	s := "def " + f.name + " (cfg_ : GCfg) (g : G)" + params
	if f.useAddr {
		s += " (addr_ : Option Nat)"
	}
	if f.useDial {
		s += " (dial_ : Bool)"
	}
	return s + " : " + f.result + " :=\n"
}

func (t *cmgTr) endG(n ast.Node) cmgCont {
	return func(_ *cmgEnv, ind int) string {
		if t.cur.result != "G" {
			t.fail(n, "missing return")
		}
		return admPad(ind) + "g"
	}
}

// translate (once) the Lean def `name` and everything it calls
func (t *cmgTr) need(n ast.Node, name string) *cmgFunc {
	if f, ok := t.funcs[name]; ok {
		if !f.done {
			t.fail(n, "recursive call of "+name)
		}
		return f
	}
	sRecv, sCur, sCase, sMsg := t.recv, t.cur, t.inCase, t.msgVar
	defer func() { t.recv, t.cur, t.inCase, t.msgVar = sRecv, sCur, sCase, sMsg }()
	f := &cmgFunc{name: name, result: "G"}
	t.funcs[name] = f
	t.cur, t.inCase, t.msgVar = f, false, ""
	env := &cmgEnv{vars: map[string]cmgVal{}, addr: map[int]cmgAddr{}}
	switch {
	case strings.HasPrefix(name, "connHandler_"):
		t.genCase(f, strings.TrimPrefix(name, "connHandler_"), env)
	case name == "NewConnReq_begin" || name == "NewConnReq_resume":
		t.genNewConnReq(f, env)
	default:
		fd := t.method(name)
		if fd == nil {
			t.fail(n, "method "+name+" of *ConnManager not found")
		}
		t.recv = fd.Recv.List[0].Names[0].Name
		params := ""
		for _, p := range fd.Type.Params.List {
			ty := types.ExprString(p.Type)
			for _, pn := range p.Names {
				if cmgReserved[pn.Name] {
					t.fail(p, "parameter named "+pn.Name)
				}
				switch ty {
				case "*ConnReq":
					obj := t.newObj()
					env.vars[pn.Name] = t.fresh(cmgVal{lean: cmgName(pn.Name), k: ckReq, obj: obj, idLean: cmgName(pn.Name) + ".id"})
					params += " (" + cmgName(pn.Name) + " : Req)"
					f.params = append(f.params, "Req")
				case "string":
					env.vars[pn.Name] = t.fresh(cmgVal{lean: cmgName(pn.Name), k: ckKey})
					params += " (" + cmgName(pn.Name) + " : Nat)"
					f.params = append(f.params, "Key")
				case "uint64":
					env.vars[pn.Name] = t.fresh(cmgVal{lean: cmgName(pn.Name), k: ckNat})
					params += " (" + cmgName(pn.Name) + " : Nat)"
					f.params = append(f.params, "Nat")
				default:
					t.fail(p, "parameter type "+ty)
				}
			}
		}
		if fd.Type.Results != nil {
			if len(fd.Type.Results.List) != 1 || len(fd.Type.Results.List[0].Names) != 0 || types.ExprString(fd.Type.Results.List[0].Type) != "bool" {
				t.fail(fd.Type.Results, "result type (only none or bool)")
			}
			f.result = "Bool"
		}
		body := t.block(fd.Body.List, env, 1, t.endG(fd))
		f.text = "/-- connmanager.go (*ConnManager)." + name + " -/\n" + t.sig(f, params) + body + "\n"
	}
	f.done = true
	t.order = append(t.order, name)
	return f
}

// one clause of the type switch of connHandler
func (t *cmgTr) genCase(f *cmgFunc, tn string, env *cmgEnv) {
	cc, ok := t.cases[tn]
	if !ok {
		t.fail(t.file, "connHandler has no case "+tn)
	}
	t.recv, t.inCase, t.msgVar = t.cases["\x00recv"].List[0].(*ast.Ident).Name, true, t.cases["\x00msg"].List[0].(*ast.Ident).Name
	msg := cmgVal{k: ckMsg, fields: map[string]cmgVal{}}
	params := ""
	for _, fd := range t.msgTypes[tn] {
		p := "m_" + fd.name
		switch fd.typ {
		case "*ConnReq":
			obj := t.newObj()
			msg.fields[fd.name] = cmgVal{lean: p, k: ckReq, obj: obj, idLean: p + ".id"}
			params += " (" + p + " : Req)"
		case "uint64":
			msg.fields[fd.name] = cmgVal{lean: p, k: ckNat}
			params += " (" + p + " : Nat)"
		case "bool":
			msg.fields[fd.name] = cmgVal{lean: p, k: ckBool}
			params += " (" + p + " : Bool)"
		default:
			msg.fields[fd.name] = cmgVal{k: ckSkip}
		}
	}
	env.vars[t.msgVar] = t.fresh(msg)
	env.vars["pending"] = t.fresh(cmgVal{lean: "pending", k: ckMap})
	env.vars["conns"] = t.fresh(cmgVal{lean: "conns", k: ckMap})
	body := t.block(cc.Body, env, 1, t.endG(cc))
	f.text = "/-- connmanager.go connHandler, case " + tn + " -/\n" + t.sig(f, params) + body + "\n"
}

// NewConnReq, cut at `… := cm.cfg.GetNewAddress()`
func (t *cmgTr) genNewConnReq(f *cmgFunc, env *cmgEnv) {
	fd := t.method("NewConnReq")
	if fd == nil || fd.Type.Params.NumFields() != 0 || fd.Type.Results != nil {
		t.fail(t.file, "NewConnReq() not found")
	}
	t.recv = fd.Recv.List[0].Names[0].Name
	cut := -1
	for i, s := range fd.Body.List {
		if as, ok := s.(*ast.AssignStmt); ok && len(as.Rhs) == 1 {
			if c, ok := as.Rhs[0].(*ast.CallExpr); ok && admPath(c.Fun) == t.recv+".cfg.GetNewAddress" {
				cut = i
				break
			}
		}
	}
	if cut < 0 {
		t.fail(fd, "NewConnReq has no top-level `… := cm.cfg.GetNewAddress()`")
	}
	if f.name == "NewConnReq_begin" {
		body := t.block(fd.Body.List[:cut], env, 1, func(e *cmgEnv, ind int) string {
			return admPad(ind) + "park g " + t.parked(fd, e)[0].idLean
		})
		f.text = "/-- connmanager.go (*ConnManager).NewConnReq, up to the call of cfg.GetNewAddress -/\n" + t.sig(f, "") + body + "\n"
		return
	}
	// the environment at the cut: translate the prefix once more (its text is dropped)
	var at *cmgEnv
	dummy := &cmgFunc{name: "NewConnReq_prefix", result: "G"}
	t.cur = dummy
	t.block(fd.Body.List[:cut], env, 1, func(e *cmgEnv, ind int) string { at = e; return "" })
	t.cur = f
	if at == nil {
		t.fail(fd, "the call of cfg.GetNewAddress is never reached")
	}
	p := t.parked(fd, at)[0]
	var goName string
	for n, v := range at.vars {
		if v.k == ckReq && v.obj == p.obj {
			goName = n
		}
	}
	p.fresh = false
	at = at.clone()
	at.vars[goName] = p
	at.addr[p.obj] = cmgAddr{0, ""}
	for n, v := range at.vars {
		if v.k != ckReq && v.k != ckSkip {
			t.fail(fd, "local "+n+" is live across the call of cfg.GetNewAddress")
		}
	}
	body := t.block(fd.Body.List[cut:], at, 1, t.endG(fd))
	f.text = "/-- connmanager.go (*ConnManager).NewConnReq, from the call of cfg.GetNewAddress on (the request `" + p.lean + "` is the parked one) -/\n" +
		t.sig(f, " ("+p.lean+" : Req)") + body + "\n"
	f.params = []string{"Req"}
}

// the request a goroutine holds when it is cut: exactly one
func (t *cmgTr) parked(n ast.Node, e *cmgEnv) []cmgVal {
	seen := map[int]cmgVal{}
	for _, v := range e.vars {
		if v.k == ckReq {
			seen[v.obj] = v
		}
	}
	if len(seen) != 1 {
		t.fail(n, "a goroutine cut at cfg.GetNewAddress must hold exactly one request")
	}
	var out []cmgVal
	for _, v := range seen {
		if v.lean == "" {
			t.fail(n, "the parked request is only known by its id")
		}
		out = append(out, v)
	}
	return out
}

// ---------- declarations ----------

func (t *cmgTr) structFields(name string) []cmgField {
	for _, d := range t.file.Decls {
		gd, ok := d.(*ast.GenDecl)
		if !ok || gd.Tok != token.TYPE {
			continue
		}
		for _, sp := range gd.Specs {
			ts := sp.(*ast.TypeSpec)
			st, ok := ts.Type.(*ast.StructType)
			if ts.Name.Name != name || !ok {
				continue
			}
			var out []cmgField
			for _, f := range st.Fields.List {
				for _, n := range f.Names {
					out = append(out, cmgField{n.Name, types.ExprString(f.Type)})
				}
			}
			return out
		}
	}
	return nil
}

func cmgMod(typ string) (string, bool) {
	switch typ {
	case "uint8":
		return "256", true
	case "uint16":
		return "65536", true
	case "uint32":
		return "4294967296", true
	case "uint64": // no wrap modelled
		return "", true
	}
	return "", false
}

func (t *cmgTr) checkStruct(name string, want map[string]string) {
	got := map[string]string{}
	for _, f := range t.structFields(name) {
		got[f.name] = f.typ
	}
	for n, ty := range want {
		ok := got[n] == ty
		if strings.HasPrefix(ty, "uint?") { // any unsigned width
			_, ok = cmgMod(got[n])
		} else if strings.HasPrefix(ty, "map[string]uint?") {
			_, ok = cmgMod(strings.TrimPrefix(got[n], "map[string]"))
			ok = ok && strings.HasPrefix(got[n], "map[string]")
		}
		if !ok {
			t.fail(t.file, "field "+name+"."+n+" has type `"+got[n]+"`, the primitive table expects "+ty)
		}
	}
}

// updateState / State are primitives: their bodies must be the plain store / load of c.state
func (t *cmgTr) checkStateAccessors() {
	for _, d := range t.file.Decls {
		fd, ok := d.(*ast.FuncDecl)
		if !ok || fd.Recv == nil || types.ExprString(fd.Recv.List[0].Type) != "*ConnReq" {
			continue
		}
		var core []string
		for _, s := range fd.Body.List {
			txt := ""
			switch x := s.(type) {
			case *ast.ExprStmt:
				if strings.Contains(admPath(x.X.(*ast.CallExpr).Fun), "stateMtx.") {
					continue
				}
			case *ast.AssignStmt:
				txt = types.ExprString(x.Lhs[0]) + x.Tok.String() + types.ExprString(x.Rhs[0])
			case *ast.ReturnStmt:
				txt = "return"
				for _, r := range x.Results {
					txt += " " + types.ExprString(r)
				}
			}
			core = append(core, txt)
		}
		rn := fd.Recv.List[0].Names[0].Name
		got := strings.Join(core, ";")
		switch fd.Name.Name {
		case "updateState":
			if got != rn+".state="+fd.Type.Params.List[0].Names[0].Name {
				t.fail(fd, "updateState is not the plain store of the state field any more")
			}
		case "State":
			if got != "state:="+rn+".state;return state" && got != "return "+rn+".state" {
				t.fail(fd, "State is not the plain load of the state field any more")
			}
		}
	}
}

func genConnMgr() (res string, err error) {
	defer func() {
		if r := recover(); r != nil {
			if e, ok := r.(cmgErr); ok {
				res, err = "", fmt.Errorf("%s", e.msg)
				return
			}
			panic(r)
		}
	}()
	fset := token.NewFileSet()
	path := filepath.Join(*repo, "transports", "p2p", "connmgr", "connmanager.go")
	file, err := parser.ParseFile(fset, path, nil, 0)
	if err != nil {
		return "", err
	}
	t := &cmgTr{fset: fset, file: file, funcs: map[string]*cmgFunc{}, consts: map[string]string{}, msgTypes: map[string][]cmgField{},
		cases: map[string]*ast.CaseClause{}, mods: map[string]string{}}
	var b strings.Builder
	b.WriteString(genHeader)
	b.WriteString("-- translated by harness/cmd/extract/gen_connmgr.go (subset, primitive table, skip list: see its header)\n")
	b.WriteString("import BHS.Model.ConnMgrPrim\n\nset_option linter.unusedVariables false\n\nnamespace BHS.Gen.ConnMgr\nopen BHS.Model.ConnMgr\n\n")

	// the structs the primitive table talks about
	t.checkStruct("ConnReq", map[string]string{"id": "uint64", "Addr": "net.Addr", "Permanent": "bool", "state": "ConnState", "retryCount": "uint?"})
	t.checkStruct("ConnManager", map[string]string{"connReqCount": "uint64", "stop": "int32", "requests": "chan interface{}", "quit": "chan struct{}",
		"globalFailedAttempts": "uint?", "failedAttempts": "map[string]uint?"})
	t.checkStruct("Config", map[string]string{"TargetOutbound": "uint32", "RetryDuration": "time.Duration"})
	t.checkStateAccessors()
	for _, f := range t.structFields("ConnReq") {
		if f.name == "retryCount" {
			t.mods["retryCount"], _ = cmgMod(f.typ)
		}
	}
	for _, f := range t.structFields("ConnManager") {
		switch f.name {
		case "globalFailedAttempts":
			t.mods[f.name], _ = cmgMod(f.typ)
		case "failedAttempts":
			t.mods[f.name], _ = cmgMod(strings.TrimPrefix(f.typ, "map[string]"))
		}
	}
	// constants: the ConnState iota block, maxRetryDuration
	var stateNames []string
	for _, d := range file.Decls {
		gd, ok := d.(*ast.GenDecl)
		if !ok || (gd.Tok != token.CONST && gd.Tok != token.VAR) {
			continue
		}
		inBlock := false
		for i, sp := range gd.Specs {
			vs := sp.(*ast.ValueSpec)
			if gd.Tok == token.CONST && vs.Type != nil && types.ExprString(vs.Type) == "ConnState" {
				if i != 0 || len(vs.Values) != 1 || types.ExprString(vs.Values[0]) != "iota" {
					t.fail(vs, "ConnState constants other than one `= iota` block")
				}
				inBlock = true
			}
			if inBlock {
				if len(vs.Names) != 1 || (i > 0 && (len(vs.Values) != 0 || vs.Type != nil)) {
					t.fail(vs, "ConnState constants other than one `= iota` block")
				}
				t.consts[vs.Names[0].Name] = fmt.Sprint(i)
				stateNames = append(stateNames, vs.Names[0].Name)
			}
			for j, n := range vs.Names {
				if n.Name == "maxRetryDuration" && j < len(vs.Values) {
					v, ok := cmgDuration(vs.Values[j])
					if !ok {
						t.fail(vs, "maxRetryDuration is not a constant duration expression")
					}
					t.consts["maxRetryDuration"] = fmt.Sprint(v)
				}
			}
		}
	}
	if len(stateNames) == 0 || t.consts["maxRetryDuration"] == "" {
		t.fail(file, "ConnState constants / maxRetryDuration not found")
	}
	for _, n := range stateNames {
		b.WriteString("/-- connmanager.go ConnState constant -/\ndef " + n + " : Nat := " + t.consts[n] + "\n")
	}
	b.WriteString("/-- connmanager.go maxRetryDuration, ns -/\ndef maxRetryDuration : Int := " + t.consts["maxRetryDuration"] + "\n\n")

	// connHandler: its two maps and the type switch
	ch := t.method("connHandler")
	if ch == nil {
		t.fail(file, "connHandler not found")
	}
	recv := ch.Recv.List[0].Names[0].Name
	maps := map[string]bool{}
	var loop *ast.ForStmt
	for _, s := range ch.Body.List {
		switch x := s.(type) {
		case *ast.DeclStmt:
			for _, sp := range x.Decl.(*ast.GenDecl).Specs {
				vs := sp.(*ast.ValueSpec)
				for i, n := range vs.Names {
					if i < len(vs.Values) && strings.HasPrefix(types.ExprString(vs.Values[i]), "make(map[uint64]*ConnReq") {
						maps[n.Name] = true
					}
				}
			}
		case *ast.LabeledStmt:
			loop, _ = x.Stmt.(*ast.ForStmt)
		}
	}
	if !maps["pending"] || !maps["conns"] || len(maps) != 2 {
		t.fail(ch, "connHandler does not declare exactly the maps pending and conns (map[uint64]*ConnReq)")
	}
	if loop == nil || loop.Cond != nil || loop.Init != nil || loop.Post != nil || len(loop.Body.List) != 1 {
		t.fail(ch, "connHandler is not `label: for { select {…} }`")
	}
	sel, ok := loop.Body.List[0].(*ast.SelectStmt)
	if !ok || len(sel.Body.List) != 2 {
		t.fail(ch, "connHandler is not `label: for { select { requests; quit } }`")
	}
	var sw *ast.TypeSwitchStmt
	for _, c := range sel.Body.List {
		cc := c.(*ast.CommClause)
		switch cm := cc.Comm.(type) {
		case *ast.AssignStmt: // req := <-cm.requests
			if types.ExprString(cm.Rhs[0]) != "<-"+recv+".requests" || len(cc.Body) != 1 {
				t.fail(cc, "connHandler: first select case")
			}
			sw, _ = cc.Body[0].(*ast.TypeSwitchStmt)
		case *ast.ExprStmt:
			if types.ExprString(cm.X) != "<-"+recv+".quit" || len(cc.Body) != 1 {
				t.fail(cc, "connHandler: quit case")
			}
			if br, ok := cc.Body[0].(*ast.BranchStmt); !ok || br.Tok != token.BREAK {
				t.fail(cc, "connHandler: quit case")
			}
		default:
			t.fail(cc, "connHandler: select case")
		}
	}
	if sw == nil {
		t.fail(ch, "connHandler: no type switch on the request")
	}
	as, ok := sw.Assign.(*ast.AssignStmt)
	if !ok || sw.Init != nil {
		t.fail(sw, "type switch other than `switch msg := req.(type)`")
	}
	t.cases["\x00recv"] = &ast.CaseClause{List: []ast.Expr{ast.NewIdent(recv)}}
	t.cases["\x00msg"] = &ast.CaseClause{List: []ast.Expr{as.Lhs[0]}}
	var caseNames []string
	for _, c := range sw.Body.List {
		cc := c.(*ast.CaseClause)
		if len(cc.List) != 1 {
			t.fail(cc, "type switch clause with other than one type")
		}
		tn := types.ExprString(cc.List[0])
		fs := t.structFields(tn)
		if fs == nil {
			t.fail(cc, "message type "+tn+" is not a struct of this file")
		}
		t.msgTypes[tn] = fs
		t.cases[tn] = cc
		caseNames = append(caseNames, tn)
	}
	for _, tn := range caseNames {
		t.need(file, "connHandler_"+tn)
	}
	for _, n := range []string{"NewConnReq_begin", "NewConnReq_resume", "Connect", "Disconnect", "Remove"} {
		t.need(file, n)
	}
	for _, n := range t.order {
		b.WriteString(t.funcs[n].text + "\n")
	}
	b.WriteString("end BHS.Gen.ConnMgr\n")
	return b.String(), nil
}
