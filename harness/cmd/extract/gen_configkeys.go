package main

// Gen.ConfigKeys: every leaf key of config.AppConfig (reflection over the type,
// following pointers and nested structs, named by the `mapstructure` tags), its Go
// kind, its value in config.GetDefaultAppConfig(), and whether viper knows a default
// for it after viper.Reset() + config.SetDefaults (C20).

import (
	"fmt"
	"os"
	"reflect"
	"sort"
	"strings"
	"time"

	"github.com/bitcoin-sv/block-headers-service/config"
	"github.com/rs/zerolog"
	"github.com/spf13/viper"
)

func init() { register("ConfigKeys", genConfigKeys) }

// cfgDefaultsVersion is the version string handed to config.SetDefaults (the value of
// `version` in cmd/main.go when no -ldflags override is given); it is the default of
// p2p.user_agent_version.
const cfgDefaultsVersion = "development"

type cfgLeaf struct {
	key, kind, goType, dflt string
}

var cfgDurationType = reflect.TypeOf(time.Duration(0))

func cfgKind(t reflect.Type) string {
	if t == cfgDurationType {
		return ".duration"
	}
	switch t.Kind() {
	case reflect.String:
		if t.PkgPath() != "" {
			return ".enumStr"
		}
		return ".string"
	case reflect.Bool:
		return ".bool"
	case reflect.Int, reflect.Int8, reflect.Int16, reflect.Int32, reflect.Int64:
		return fmt.Sprintf(".int %d", t.Bits())
	case reflect.Uint, reflect.Uint8, reflect.Uint16, reflect.Uint32, reflect.Uint64:
		return fmt.Sprintf(".uint %d", t.Bits())
	}
	return ".other"
}

// cfgCanon renders a typed value canonically: strings as they are, booleans
// true/false, integers (and durations, in nanoseconds) in decimal.
func cfgCanon(v reflect.Value) string {
	for v.IsValid() && (v.Kind() == reflect.Ptr || v.Kind() == reflect.Interface) {
		if v.IsNil() {
			return "<nil>"
		}
		v = v.Elem()
	}
	if !v.IsValid() {
		return "<nil>"
	}
	switch v.Kind() {
	case reflect.String:
		return v.String()
	case reflect.Bool:
		return fmt.Sprint(v.Bool())
	case reflect.Int, reflect.Int8, reflect.Int16, reflect.Int32, reflect.Int64:
		return fmt.Sprint(v.Int())
	case reflect.Uint, reflect.Uint8, reflect.Uint16, reflect.Uint32, reflect.Uint64:
		return fmt.Sprint(v.Uint())
	}
	return fmt.Sprintf("%v", v.Interface())
}

func cfgWalk(v reflect.Value, prefix string, out *[]cfgLeaf) error {
	for v.Kind() == reflect.Ptr {
		if v.IsNil() {
			// a section without default value: walk the zero value so its keys are still listed
			v = reflect.New(v.Type().Elem())
		}
		v = v.Elem()
	}
	t := v.Type()
	for i := 0; i < t.NumField(); i++ {
		f := t.Field(i)
		if !f.IsExported() {
			continue
		}
		tag := f.Tag.Get("mapstructure")
		name, opts, _ := strings.Cut(tag, ",")
		if name == "-" {
			continue
		}
		if name == "" {
			name = f.Name
		}
		fv := v.Field(i)
		ft := f.Type
		for ft.Kind() == reflect.Ptr {
			ft = ft.Elem()
		}
		if ft.Kind() == reflect.Struct {
			p := prefix + strings.ToLower(name) + "."
			if strings.Contains(opts, "squash") {
				p = prefix
			}
			if err := cfgWalk(fv, p, out); err != nil {
				return err
			}
			continue
		}
		*out = append(*out, cfgLeaf{key: prefix + strings.ToLower(name), kind: cfgKind(ft), goType: ft.String(), dflt: cfgCanon(fv)})
	}
	return nil
}

func cfgLeanStr(s string) string {
	var b strings.Builder
	b.WriteByte('"')
	for _, r := range s {
		switch {
		case r == '"':
			b.WriteString("\\\"")
		case r == '\\':
			b.WriteString("\\\\")
		case r == '\n':
			b.WriteString("\\n")
		case r == '\t':
			b.WriteString("\\t")
		case r < 0x20 || r == 0x7f:
			fmt.Fprintf(&b, "\\x%02x", r)
		default:
			b.WriteRune(r)
		}
	}
	b.WriteByte('"')
	return b.String()
}

func genConfigKeys() (string, error) {
	viper.Reset()
	nop := zerolog.Nop()
	if err := config.SetDefaults(cfgDefaultsVersion, &nop); err != nil {
		return "", err
	}
	var leaves []cfgLeaf
	if err := cfgWalk(reflect.ValueOf(config.GetDefaultAppConfig()), "", &leaves); err != nil {
		return "", err
	}
	if len(leaves) == 0 {
		return "", fmt.Errorf("no leaf keys found in config.AppConfig")
	}
	sort.Slice(leaves, func(i, j int) bool { return leaves[i].key < leaves[j].key })
	isLeaf := map[string]bool{}
	var b strings.Builder
	b.WriteString(genHeader)
	b.WriteString("import BHS.Model.Config\n\nnamespace BHS.Gen\nopen BHS.Config\n\n")
	b.WriteString("/-- leaf keys of config.AppConfig (reflection), default from GetDefaultAppConfig(), viper registration after SetDefaults -/\n")
	b.WriteString("def keys : List KeyInfo := [\n")
	for i, l := range leaves {
		isLeaf[l.key] = true
		reg := viper.IsSet(l.key)
		vd := ""
		if reg {
			vd = cfgCanon(reflect.ValueOf(viper.Get(l.key)))
		}
		sep := ","
		if i == len(leaves)-1 {
			sep = ""
		}
		fmt.Fprintf(&b, "  { key := %s, kind := %s, goType := %s, dflt := %s, registered := %v, viperDflt := %s }%s\n",
			cfgLeanStr(l.key), l.kind, cfgLeanStr(l.goType), cfgLeanStr(l.dflt), reg, cfgLeanStr(vd), sep)
	}
	b.WriteString("]\n\n")
	var extra []string
	for _, k := range viper.AllKeys() {
		if !isLeaf[k] {
			extra = append(extra, k)
		}
	}
	sort.Strings(extra)
	b.WriteString("/-- keys viper knows after SetDefaults that are not leaf keys of AppConfig -/\n")
	b.WriteString("def extraViperKeys : List String := [")
	for i, k := range extra {
		if i > 0 {
			b.WriteString(", ")
		}
		b.WriteString(cfgLeanStr(k))
	}
	b.WriteString("]\n\n")
	fmt.Fprintf(&b, "def envPrefix : String := %s\n", cfgLeanStr(config.ConfigEnvPrefix))
	fmt.Fprintf(&b, "def configFileKey : String := %s\n", cfgLeanStr(config.ConfigFilePathKey))
	fmt.Fprintf(&b, "def defaultConfigFile : String := %s\n", cfgLeanStr(config.DefaultConfigFilePath))
	fmt.Fprintf(&b, "def dbSqlite : String := %s\n", cfgLeanStr(string(config.DBSQLite)))
	fmt.Fprintf(&b, "def dbPostgres : String := %s\n", cfgLeanStr(string(config.DBPostgreSQL)))
	fmt.Fprintf(&b, "def defaultsVersion : String := %s\n", cfgLeanStr(cfgDefaultsVersion))
	// probe viper's AllowEmptyEnv (it has no getter): set the variable of a string key with a
	// non-empty default to "" and look at what viper.Get answers
	probed := false
	for _, l := range leaves {
		if l.kind != ".string" || l.dflt == "" {
			continue
		}
		name := strings.ToUpper(config.ConfigEnvPrefix + "_" + strings.ReplaceAll(l.key, ".", "_"))
		old, had := os.LookupEnv(name)
		os.Setenv(name, "")
		got := cfgCanon(reflect.ValueOf(viper.Get(l.key)))
		if had {
			os.Setenv(name, old)
		} else {
			os.Unsetenv(name)
		}
		b.WriteString("/-- viper treats an environment variable set to the empty string as set (probed on the live instance) -/\n")
		fmt.Fprintf(&b, "def allowEmptyEnv : Bool := %v\n", got == "")
		probed = true
		break
	}
	if !probed {
		return "", fmt.Errorf("no string key with a non-empty default to probe AllowEmptyEnv with")
	}
	b.WriteString("\nend BHS.Gen\n")
	viper.Reset()
	return b.String(), nil
}
