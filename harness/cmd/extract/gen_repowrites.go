package main

// Gen.RepoWrites: the WRITE path below the chain service,
//   database/repository/header_repository.go   (*HeaderRepository).AddHeaderToDatabase, UpdateState
//   database/sql/headers.go                     (*HeadersDb).Create, UpdateState  (BeginTxx / sqlx.In / Exec / Commit / Rollback)
// TRANSLATED statement by statement with the translator core of gen_chainsvc.go (same subset, see its header) into Lean
// `do` blocks of the transactional store monad `TxM H` (lean/BHS/Model/TxM.lean), in which every database call may fail
// according to a fault schedule. The call graph is discovered from the two repository methods (callees first).
// Refinement theorems: lean/BHS/Props/RepoWritesGen.lean (`UpdateState_atomic`, `AddHeaderToDatabase_atomic`, and the
// simulation of the RepoM write primitives that Gen.ChainSvc is written over).
//
// What this profile adds to the core subset
//   statements   `defer func() { _ = tx.Rollback() }()` and `defer tx.Rollback()` ↦ `deferred (do let _ ← txRollback tx; pure ()) do`
//                with the REST of the block as its body (the cleanup runs when the rest returns); `_ = e`;
//                `for i, x := range xs`, `for cond {…}` (loop budget of the monad), `var x T`, op-assignments as in
//                gen_headersvc.go; xs[lo:hi] ↦ sliceOf (faults out of range); untyped integer constants of the two files.
//   types        string ↦ H (a `string` parameter named `state` ↦ St); []string, []chainhash.Hash ↦ List H;
//                domains.BlockHeader, dto.DbBlockHeader ↦ Row H; domains.HeaderState ↦ St; *sqlx.Tx ↦ Option Tx;
//                sql.Result is dropped (`_`); context.Context dropped; error ↦ Option Err.
// Primitive table (trusted mapping, see TxM.lean)
//   r.db.M ↦ HeadersDb_M (production wiring of the repository);  <recv>.db.BeginTxx(ctx, nil) ↦ txBegin;
//   tx.NamedExecContext(ctx, sqlInsertHeader, row) ↦ txNamedExec_sqlInsertHeader tx row (this SQL constant only);
//   sqlx.In(sqlUpdateState, state, hashes) ↦ sqlxIn_sqlUpdateState state hashes (this SQL constant only);
//   tx.ExecContext(ctx, [<recv>.db.Rebind](query), args...) ↦ txExec tx query args (a query built by sqlx.In, spread arguments);
//   tx.Commit() ↦ txCommit tx; tx.Rollback() ↦ txRollback tx; errors.Wrap(e, "m") / errors.Wrapf(e, "f", ids…) ↦ errorsWrap e "m"
//   (nil when e is nil); dto.ToDbBlockHeader ↦ toDbBlockHeader; h.String(), state.String() ↦ identity; context.Background() dropped.
// Skip list  <recv>.log.<Level>()…(…).

import (
	"fmt"
	"go/ast"
	"go/token"
	"strconv"
	"strings"
)

func init() { register("RepoWrites", genRepoWrites) }

var rwConsts = map[string]string{}

var rwRoots = []string{"AddHeaderToDatabase", "UpdateState"}

var rwGoTy = map[string]ckind{"string": "hash", "bool": "bool", "error": "err", "int": "int",
	"domains.BlockHeader": "hdr", "dto.DbBlockHeader": "hdr", "domains.HeaderState": "state",
	"[]string": "hashes", "[]chainhash.Hash": "hashes", "chainhash.Hash": "hash", "*sqlx.Tx": "txp", "context.Context": "drop"}

func rwProfile() *csProfile {
	for k, v := range map[ckind]string{"txp": "Option Tx", "inq": "InQuery", "inargs": "List (SqlArg H)", "unit": "Unit", "str": "String"} {
		csLeanTy[k] = v
	}
	p := &csProfile{monad: "TxM H", dropRecv: map[string]bool{"HeaderRepository": true, "HeadersDb": true},
		zero: map[ckind]string{"int": "0", "hashes": "[]"}}
	p.goKind = func(g *csGen, e ast.Expr) (ckind, bool) {
		k, ok := rwGoTy[hsTypeText(e)]
		return k, ok
	}
	p.paramKind = func(name string, k ckind) ckind {
		if name == "state" && k == "hash" {
			return "state"
		}
		return k
	}
	p.exprStmt = func(g *csGen, s ast.Stmt, c *ast.CallExpr, ind int) bool {
		var e ast.Expr = c
		for g.recvName != "" {
			switch x := e.(type) {
			case *ast.CallExpr:
				e = x.Fun
				continue
			case *ast.SelectorExpr:
				if selText(x) == g.recvName+".log" {
					g.emit(ind, "-- skipped: "+g.goText(s))
					return true
				}
				e = x.X
				continue
			}
			break
		}
		return false
	}
	// `_ = e`: evaluate and drop
	p.assign = func(g *csGen, x *ast.AssignStmt, ind int) bool {
		if x.Tok != token.ASSIGN || len(x.Lhs) != 1 || len(x.Rhs) != 1 || selText(x.Lhs[0]) != "_" {
			return false
		}
		v := g.expr(x.Rhs[0], "")
		if !v.m || len(v.k) != 1 {
			g.fail(x, "`_ = e` (supported: e a call of a primitive with one result)")
			return true
		}
		g.emit(ind, "let _ ← "+v.s)
		return true
	}
	p.deferStmt = func(g *csGen, x *ast.DeferStmt, ind int) bool {
		// defer tx.Rollback()   |   defer func() { _ = tx.Rollback() }()
		call := x.Call
		if fl, ok := call.Fun.(*ast.FuncLit); ok {
			call = nil
			if len(x.Call.Args) == 0 && len(fl.Type.Params.List) == 0 && fl.Type.Results == nil && len(fl.Body.List) == 1 {
				if as, ok := fl.Body.List[0].(*ast.AssignStmt); ok && as.Tok == token.ASSIGN && len(as.Lhs) == 1 && len(as.Rhs) == 1 && selText(as.Lhs[0]) == "_" {
					call, _ = as.Rhs[0].(*ast.CallExpr)
				}
			}
		}
		if call == nil {
			return false
		}
		v, ok := rwCall(g, call, "")
		if !ok || !v.m || len(v.k) != 1 || !strings.HasPrefix(v.s, "txRollback ") {
			g.fail(x, "defer (supported: a deferred tx.Rollback() whose error is dropped)")
			return true
		}
		g.emit(ind, "deferred (do let _ ← "+v.s+"; pure ()) do")
		return true
	}
	// untyped integer constants of the translated files (e.g. a batch size)
	p.ident = func(g *csGen, name string) (csVal, bool) {
		if v, ok := rwConsts[name]; ok {
			return one(v, "nat"), true
		}
		return csVal{}, false
	}
	p.call = rwCall
	return p
}

func rwCall(g *csGen, c *ast.CallExpr, want ckind) (csVal, bool) {
	bad := func(msg string, a ...any) (csVal, bool) {
		g.fail(c, msg, a...)
		return one("default", want), true
	}
	var args []ast.Expr // without the dropped context arguments
	for _, a := range c.Args {
		if !g.droppedArg(a) {
			args = append(args, a)
		}
	}
	arg := func(i int, k ckind) string {
		s, ak := g.val(args[i], k)
		if ak != k {
			g.fail(args[i], "argument of kind %q, want %q", ak, k)
		}
		return s
	}
	str := func(i int) string {
		if lit, ok := args[i].(*ast.BasicLit); ok && lit.Kind == token.STRING {
			if v, err := strconv.Unquote(lit.Value); err == nil {
				return strconv.Quote(v)
			}
		}
		g.fail(args[i], "message that is not a string literal")
		return `""`
	}
	fn, ok := c.Fun.(*ast.SelectorExpr)
	if !ok {
		return csVal{}, false
	}
	t, name := selText(fn), fn.Sel.Name
	switch {
	case (t == "errors.Wrap" || t == "errors.Wrapf") && len(args) >= 2:
		for _, a := range args[2:] { // the values formatted into the message: effect-free, not modelled
			if _, ok := a.(*ast.Ident); !ok {
				return bad("argument of %s that is not an identifier", t)
			}
		}
		return one("(errorsWrap "+arg(0, "err")+" "+str(1)+")", "err"), true
	case t == "dto.ToDbBlockHeader" && len(args) == 1:
		return one("(toDbBlockHeader "+arg(0, "hdr")+")", "hdr"), true
	case t == "sqlx.In" && len(args) == 3 && selText(args[0]) == "sqlUpdateState":
		if _, shadow := g.lookup("sqlUpdateState"); shadow {
			return bad("sqlx.In of a local")
		}
		return csVal{s: "(sqlxIn_sqlUpdateState " + arg(1, "state") + " " + arg(2, "hashes") + ")", k: []ckind{"inq", "inargs", "err"}}, true
	case t == "sqlx.In":
		return bad("sqlx.In (supported: sqlx.In(sqlUpdateState, state, hashes))")
	}
	if g.recvName == "" {
		return csVal{}, false
	}
	switch {
	case g.stPkg == "repository" && t == g.recvName+".db."+name:
		if f, ok := g.funcs["sql:HeadersDb."+name]; ok {
			return g.callFunc(c, f, ""), true
		}
		return bad("call of %s (not in the translated subset)", t)
	case g.stPkg == "sql" && t == g.recvName+".db.BeginTxx":
		if len(args) != 1 || !isNil(args[0]) {
			return bad("BeginTxx with transaction options")
		}
		return csVal{s: "txBegin", k: []ckind{"txp", "err"}, m: true}, true
	case g.stPkg == "sql" && strings.HasPrefix(t, g.recvName+".db."):
		return bad("database call %s outside a transaction (supported: BeginTxx and the calls on the transaction)", t)
	}
	// methods of the transaction, of a state, of a hash
	id, isId := fn.X.(*ast.Ident)
	if !isId {
		return csVal{}, false
	}
	n, local := g.lookup(id.Name)
	if !local {
		return csVal{}, false
	}
	switch k := g.kinds[n]; {
	case k == "state" && name == "String" && len(args) == 0:
		return one(n, "state"), true
	case k == "txp" && name == "Commit" && len(args) == 0:
		return csVal{s: "txCommit " + n, k: []ckind{"err"}, m: true}, true
	case k == "txp" && name == "Rollback" && len(args) == 0:
		return csVal{s: "txRollback " + n, k: []ckind{"err"}, m: true}, true
	case k == "txp" && name == "NamedExecContext" && len(args) == 2 && selText(args[0]) == "sqlInsertHeader":
		if _, shadow := g.lookup("sqlInsertHeader"); shadow {
			return bad("NamedExecContext of a local")
		}
		return csVal{s: "txNamedExec_sqlInsertHeader " + n + " " + arg(1, "hdr"), k: []ckind{"unit", "err"}, m: true}, true
	case k == "txp" && name == "ExecContext" && len(args) == 2 && c.Ellipsis.IsValid():
		q := args[0]
		if rc, ok := q.(*ast.CallExpr); ok && selText(rc.Fun) == g.recvName+".db.Rebind" && len(rc.Args) == 1 {
			q = rc.Args[0] // Rebind only rewrites the placeholders
		}
		qs, qk := g.val(q, "inq")
		if qk != "inq" {
			return bad("ExecContext of a statement that was not built by sqlx.In")
		}
		return csVal{s: "txExec " + n + " " + qs + " " + arg(1, "inargs"), k: []ckind{"unit", "err"}, m: true}, true
	case k == "txp":
		return bad("call %s on the transaction (supported: NamedExecContext(ctx, sqlInsertHeader, row), ExecContext(ctx, query, args...), Commit, Rollback)", name)
	}
	return csVal{}, false
}

func genRepoWrites() (string, error) {
	rwConsts = map[string]string{}
	g := &csGen{fset: token.NewFileSet(), src: map[string][]byte{}, funcs: map[string]*csFunc{}, codes: map[string]bool{}, prof: rwProfile()}
	err := g.load([][2]string{{"sql", "database/sql/headers.go"}, {"repository", "database/repository/header_repository.go"}},
		func(pkg, recv, name string) string {
			if recv != "" {
				return recv + "_" + name
			}
			return name
		},
		func(pkg string, x *ast.GenDecl) {
			if x.Tok != token.CONST {
				return
			}
			for _, sp := range x.Specs {
				vs := sp.(*ast.ValueSpec)
				for i, n := range vs.Names {
					if i < len(vs.Values) && vs.Type == nil {
						if lit, ok := vs.Values[i].(*ast.BasicLit); ok && lit.Kind == token.INT {
							if _, err := strconv.ParseUint(lit.Value, 10, 31); err == nil {
								rwConsts[n.Name] = lit.Value
							}
						}
					}
				}
			}
		})
	if err != nil {
		return "", err
	}
	g.signatures()
	for _, r := range rwRoots {
		root, ok := g.funcs["repository:HeaderRepository."+r]
		if !ok {
			return "", fmt.Errorf("database/repository/header_repository.go: unsupported: (*HeaderRepository).%s not found or its signature is outside the subset", r)
		}
		g.translate(root)
		if g.err != nil {
			return "", g.err
		}
	}
	var b strings.Builder
	b.WriteString(genHeader)
	b.WriteString("-- the write path below the chain service (database/repository/header_repository.go, database/sql/headers.go)\n")
	b.WriteString("-- translated by gen_repowrites.go on the translator core of gen_chainsvc.go.\n")
	b.WriteString("import BHS.Model.TxM\n\nset_option linter.unusedVariables false\n\nnamespace BHS.Gen.RepoWrites\nopen BHS BHS.Chain BHS.TxM\n")
	b.WriteString("variable {H : Type} [DecidableEq H] [Inhabited H]\n\n")
	b.WriteString(g.defs())
	b.WriteString("end BHS.Gen.RepoWrites\n")
	return b.String(), nil
}
