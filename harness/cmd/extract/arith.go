package main

// Translator for a straight-line subset of Go (fixed-width unsigned integer
// arithmetic plus math/big) into Lean 4 `Id.run do` blocks.  It is used for
// domains.CompactToBig, domains.calcWork and domains.FastLog2Floor.
//
// Supported: `:=`/`=`/op-assign on identifiers, `var x T`, if/else, return,
// constant-bound `for i := 0; i < N; i++` (unrolled), slice literals of
// integer constants indexed by the loop variable, the binary operators
// & | >> << + - * == != <= < >= >, conversions between integer types, and
// big.NewInt / (*big.Int).Lsh/Neg/Add/Div/Sign / new(big.Int).
// Anything else is a translation error: the obligation is then broken.
//
// Fixed-width semantics: every + - * << on a sized unsigned type is wrapped
// (`BHS.wrap bits e` / `BHS.subw bits a b`); & | >> cannot overflow.

import (
	"fmt"
	"go/ast"
	"go/parser"
	"go/token"
	"strconv"
	"strings"
)

type ty struct {
	kind string // "uint", "big", "bool", "int"
	bits int
}

type known struct {
	lean     string
	arg, res ty
}

var knownFuncs = map[string]known{}

type trans struct {
	fset  *token.FileSet
	env   map[string]ty
	decl  map[string]bool // declared as `let mut`
	slice map[string][]string
	subst map[string]string
	out   []string
	err   error
}

func (t *trans) fail(n ast.Node, msg string, a ...any) {
	if t.err == nil {
		t.err = fmt.Errorf("%s: unsupported: %s", t.fset.Position(n.Pos()), fmt.Sprintf(msg, a...))
	}
}

func goType(e ast.Expr) (ty, bool) {
	switch x := e.(type) {
	case *ast.Ident:
		switch x.Name {
		case "uint32":
			return ty{"uint", 32}, true
		case "uint8":
			return ty{"uint", 8}, true
		case "uint":
			return ty{"uint", 64}, true
		case "uint64":
			return ty{"uint", 64}, true
		case "int64":
			return ty{"int", 64}, true
		case "bool":
			return ty{"bool", 0}, true
		}
	case *ast.StarExpr:
		if s, ok := x.X.(*ast.SelectorExpr); ok {
			if id, ok := s.X.(*ast.Ident); ok && id.Name == "big" && s.Sel.Name == "Int" {
				return ty{"big", 0}, true
			}
		}
	}
	return ty{}, false
}

func leanTy(t ty) string {
	switch t.kind {
	case "uint":
		return "Nat"
	case "big", "int":
		return "Int"
	case "bool":
		return "Bool"
	}
	return "?"
}

// expr returns Lean text and type. want is a hint for untyped constants.
func (t *trans) expr(e ast.Expr, want ty) (string, ty) {
	switch x := e.(type) {
	case *ast.ParenExpr:
		s, ty := t.expr(x.X, want)
		return "(" + s + ")", ty
	case *ast.BasicLit:
		if x.Kind != token.INT {
			t.fail(e, "literal %s", x.Value)
			return "0", want
		}
		v, err := strconv.ParseUint(x.Value, 0, 64)
		if err != nil {
			t.fail(e, "literal %s", x.Value)
		}
		return strconv.FormatUint(v, 10), want
	case *ast.Ident:
		if s, ok := t.subst[x.Name]; ok {
			return s, ty{"uint", 64}
		}
		if ty, ok := t.env[x.Name]; ok {
			return x.Name, ty
		}
		t.fail(e, "identifier %s", x.Name)
		return x.Name, want
	case *ast.IndexExpr:
		id, ok := x.X.(*ast.Ident)
		if !ok {
			t.fail(e, "index base")
			return "0", want
		}
		vals, ok := t.slice[id.Name]
		if !ok {
			t.fail(e, "index of non-literal slice %s", id.Name)
			return "0", want
		}
		is, _ := t.expr(x.Index, ty{"uint", 64})
		i, err := strconv.Atoi(is)
		if err != nil || i < 0 || i >= len(vals) {
			t.fail(e, "non-constant or out-of-range index %s", is)
			return "0", want
		}
		return vals[i], t.env[id.Name]
	case *ast.CallExpr:
		return t.call(x, want)
	case *ast.BinaryExpr:
		return t.binary(x, want)
	}
	t.fail(e, "expression %T", e)
	return "0", want
}

func isConst(e ast.Expr) bool {
	switch x := e.(type) {
	case *ast.BasicLit:
		return true
	case *ast.ParenExpr:
		return isConst(x.X)
	}
	return false
}

func (t *trans) binary(x *ast.BinaryExpr, want ty) (string, ty) {
	var l, r string
	var lt, rt ty
	// type the constant side from the other side
	if isConst(x.X) && !isConst(x.Y) {
		r, rt = t.expr(x.Y, want)
		l, lt = t.expr(x.X, rt)
	} else {
		l, lt = t.expr(x.X, want)
		r, rt = t.expr(x.Y, lt)
	}
	switch x.Op {
	case token.SHL, token.SHR:
		// shift count may have another unsigned type
		if lt.kind != "uint" || rt.kind != "uint" {
			t.fail(x, "shift on %v,%v", lt, rt)
		}
		if x.Op == token.SHR {
			return fmt.Sprintf("(%s >>> %s)", l, r), lt
		}
		return fmt.Sprintf("(BHS.wrap %d (%s <<< %s))", lt.bits, l, r), lt
	}
	if lt != rt {
		t.fail(x, "operand types differ: %v vs %v", lt, rt)
	}
	switch x.Op {
	case token.AND:
		return fmt.Sprintf("(%s &&& %s)", l, r), lt
	case token.OR:
		return fmt.Sprintf("(%s ||| %s)", l, r), lt
	case token.ADD:
		if lt.kind != "uint" {
			t.fail(x, "+ on %v", lt)
		}
		return fmt.Sprintf("(BHS.wrap %d (%s + %s))", lt.bits, l, r), lt
	case token.MUL:
		if lt.kind != "uint" {
			t.fail(x, "* on %v", lt)
		}
		return fmt.Sprintf("(BHS.wrap %d (%s * %s))", lt.bits, l, r), lt
	case token.SUB:
		if lt.kind != "uint" {
			t.fail(x, "- on %v", lt)
		}
		return fmt.Sprintf("(BHS.subw %d %s %s)", lt.bits, l, r), lt
	case token.EQL:
		return fmt.Sprintf("(%s == %s)", l, r), ty{"bool", 0}
	case token.NEQ:
		return fmt.Sprintf("(%s != %s)", l, r), ty{"bool", 0}
	case token.LEQ:
		return fmt.Sprintf("(decide (%s ≤ %s))", l, r), ty{"bool", 0}
	case token.LSS:
		return fmt.Sprintf("(decide (%s < %s))", l, r), ty{"bool", 0}
	case token.GEQ:
		return fmt.Sprintf("(decide (%s ≥ %s))", l, r), ty{"bool", 0}
	case token.GTR:
		return fmt.Sprintf("(decide (%s > %s))", l, r), ty{"bool", 0}
	}
	t.fail(x, "operator %s", x.Op)
	return "0", want
}

func selName(e ast.Expr) (recv ast.Expr, name string, ok bool) {
	s, ok := e.(*ast.SelectorExpr)
	if !ok {
		return nil, "", false
	}
	return s.X, s.Sel.Name, true
}

func (t *trans) call(c *ast.CallExpr, want ty) (string, ty) {
	// calls of other translated functions
	if id, ok := c.Fun.(*ast.Ident); ok && len(c.Args) == 1 {
		if k, ok := knownFuncs[id.Name]; ok {
			s, at := t.expr(c.Args[0], k.arg)
			if at != k.arg {
				t.fail(c, "argument of %s has %v", id.Name, at)
			}
			return fmt.Sprintf("(%s %s)", k.lean, s), k.res
		}
	}
	// conversions
	if id, ok := c.Fun.(*ast.Ident); ok && len(c.Args) == 1 {
		if id.Name == "new" {
			if s, ok := c.Args[0].(*ast.SelectorExpr); ok {
				if p, ok := s.X.(*ast.Ident); ok && p.Name == "big" && s.Sel.Name == "Int" {
					return "(0 : Int)", ty{"big", 0}
				}
			}
			t.fail(c, "new of non big.Int")
			return "0", want
		}
		if to, ok := goType(id); ok {
			s, from := t.expr(c.Args[0], to)
			switch {
			case from.kind == "uint" && to.kind == "uint" && to.bits >= from.bits:
				return s, to
			case from.kind == "uint" && to.kind == "uint":
				return fmt.Sprintf("(BHS.wrap %d %s)", to.bits, s), to
			case from.kind == "uint" && to.kind == "int" && to.bits > from.bits:
				return fmt.Sprintf("(Int.ofNat %s)", s), to
			}
			t.fail(c, "conversion %v -> %v", from, to)
			return s, to
		}
	}
	recv, name, ok := selName(c.Fun)
	if !ok {
		t.fail(c, "call")
		return "0", want
	}
	if p, ok := recv.(*ast.Ident); ok && p.Name == "big" && name == "NewInt" && len(c.Args) == 1 {
		s, from := t.expr(c.Args[0], ty{"int", 64})
		if from.kind != "int" {
			t.fail(c, "big.NewInt of %v", from)
		}
		return s, ty{"big", 0}
	}
	// methods on *big.Int: result is independent of the receiver's old value
	rs, rty := t.expr(recv, ty{"big", 0})
	_ = rs
	if rty.kind != "big" {
		t.fail(c, "method %s on %v", name, rty)
		return "0", want
	}
	arg := func(i int, w ty) string {
		s, at := t.expr(c.Args[i], w)
		if at.kind != w.kind {
			t.fail(c, "argument %d of %s has %v", i, name, at)
		}
		return s
	}
	switch {
	case name == "Lsh" && len(c.Args) == 2:
		return fmt.Sprintf("(%s * 2 ^ %s)", arg(0, ty{"big", 0}), arg(1, ty{"uint", 64})), ty{"big", 0}
	case name == "Neg" && len(c.Args) == 1:
		return fmt.Sprintf("(- %s)", arg(0, ty{"big", 0})), ty{"big", 0}
	case name == "Add" && len(c.Args) == 2:
		return fmt.Sprintf("(%s + %s)", arg(0, ty{"big", 0}), arg(1, ty{"big", 0})), ty{"big", 0}
	case name == "Div" && len(c.Args) == 2:
		// big.Int.Div is Euclidean division
		return fmt.Sprintf("(Int.ediv %s %s)", arg(0, ty{"big", 0}), arg(1, ty{"big", 0})), ty{"big", 0}
	case name == "Sign" && len(c.Args) == 0:
		return fmt.Sprintf("(Int.sign %s)", rs), ty{"sign", 0}
	}
	t.fail(c, "method %s", name)
	return "0", want
}

// cond translates a boolean condition; handles x.Sign() <= 0 style.
func (t *trans) cond(e ast.Expr) string {
	if b, ok := e.(*ast.BinaryExpr); ok {
		if c, ok := b.X.(*ast.CallExpr); ok {
			if _, name, ok := selName(c.Fun); ok && name == "Sign" {
				s, _ := t.expr(c, ty{})
				lit, ok := b.Y.(*ast.BasicLit)
				if !ok {
					t.fail(e, "Sign compared with non literal")
					return "true"
				}
				op := map[token.Token]string{token.LEQ: "≤", token.LSS: "<", token.GEQ: "≥", token.GTR: ">", token.EQL: "=", token.NEQ: "≠"}[b.Op]
				if op == "" {
					t.fail(e, "Sign comparison %s", b.Op)
				}
				return fmt.Sprintf("(decide (%s %s %s))", s, op, lit.Value)
			}
		}
	}
	s, ty := t.expr(e, ty{"bool", 0})
	if ty.kind != "bool" {
		t.fail(e, "condition of type %v", ty)
	}
	return s
}

// prop strips a `decide` wrapper so that `if` tests a Prop directly.
func prop(s string) string {
	if strings.HasPrefix(s, "(decide ") && strings.HasSuffix(s, ")") {
		return strings.TrimSuffix(strings.TrimPrefix(s, "(decide "), ")")
	}
	return s
}

func (t *trans) emit(ind int, s string) {
	t.out = append(t.out, strings.Repeat("  ", ind)+s)
}

func (t *trans) assign(ind int, name string, rhs string, rty ty, define bool, n ast.Node) {
	if _, ok := t.env[name]; ok && !define {
		if t.env[name].kind != rty.kind {
			t.fail(n, "assignment changes type of %s", name)
		}
		t.emit(ind, fmt.Sprintf("%s := %s", name, rhs))
		return
	}
	t.env[name] = rty
	t.emit(ind, fmt.Sprintf("let mut %s : %s := %s", name, leanTy(rty), rhs))
}

func (t *trans) stmts(ind int, list []ast.Stmt) {
	for _, s := range list {
		t.stmt(ind, s)
	}
}

func (t *trans) stmt(ind int, s ast.Stmt) {
	switch x := s.(type) {
	case *ast.DeclStmt:
		gd, ok := x.Decl.(*ast.GenDecl)
		if !ok || gd.Tok != token.VAR {
			t.fail(s, "declaration")
			return
		}
		for _, sp := range gd.Specs {
			vs := sp.(*ast.ValueSpec)
			for i, nm := range vs.Names {
				if len(vs.Values) > i {
					var w ty
					if vs.Type != nil {
						w, _ = goType(vs.Type)
					}
					r, rty := t.expr(vs.Values[i], w)
					t.assign(ind, nm.Name, r, rty, true, s)
					continue
				}
				ty, ok := goType(vs.Type)
				if !ok {
					t.fail(s, "var type")
					return
				}
				zero := "0"
				if ty.kind == "bool" {
					zero = "false"
				}
				t.assign(ind, nm.Name, zero, ty, true, s)
			}
		}
	case *ast.AssignStmt:
		if len(x.Lhs) != 1 || len(x.Rhs) != 1 {
			t.fail(s, "multi assignment")
			return
		}
		id, ok := x.Lhs[0].(*ast.Ident)
		if !ok {
			t.fail(s, "assignment target")
			return
		}
		// slice literal of constants
		if cl, ok := x.Rhs[0].(*ast.CompositeLit); ok && x.Tok == token.DEFINE {
			at, ok := cl.Type.(*ast.ArrayType)
			if !ok || at.Len != nil {
				t.fail(s, "composite literal")
				return
			}
			et, ok := goType(at.Elt)
			if !ok {
				t.fail(s, "slice element type")
				return
			}
			var vals []string
			for _, e := range cl.Elts {
				v, _ := t.expr(e, et)
				vals = append(vals, v)
			}
			t.slice[id.Name] = vals
			t.env[id.Name] = et
			return
		}
		switch x.Tok {
		case token.DEFINE:
			r, rty := t.expr(x.Rhs[0], ty{"uint", 64})
			if rty.kind == "sign" {
				t.fail(s, "Sign result stored")
			}
			t.assign(ind, id.Name, r, rty, true, s)
		case token.ASSIGN:
			r, rty := t.expr(x.Rhs[0], t.env[id.Name])
			t.assign(ind, id.Name, r, rty, false, s)
		case token.SHR_ASSIGN, token.SHL_ASSIGN, token.ADD_ASSIGN, token.SUB_ASSIGN, token.AND_ASSIGN, token.OR_ASSIGN, token.MUL_ASSIGN:
			op := map[token.Token]token.Token{token.SHR_ASSIGN: token.SHR, token.SHL_ASSIGN: token.SHL, token.ADD_ASSIGN: token.ADD,
				token.SUB_ASSIGN: token.SUB, token.AND_ASSIGN: token.AND, token.OR_ASSIGN: token.OR, token.MUL_ASSIGN: token.MUL}[x.Tok]
			r, rty := t.binary(&ast.BinaryExpr{X: id, Op: op, Y: x.Rhs[0], OpPos: x.TokPos}, t.env[id.Name])
			t.assign(ind, id.Name, r, rty, false, s)
		default:
			t.fail(s, "assignment operator %s", x.Tok)
		}
	case *ast.ExprStmt:
		// bn.Lsh(bn, k): in-place method call whose receiver is the destination
		c, ok := x.X.(*ast.CallExpr)
		if !ok {
			t.fail(s, "expression statement")
			return
		}
		recv, _, ok := selName(c.Fun)
		id, ok2 := recv.(*ast.Ident)
		if !ok || !ok2 {
			t.fail(s, "expression statement")
			return
		}
		r, rty := t.call(c, ty{"big", 0})
		t.assign(ind, id.Name, r, rty, false, s)
	case *ast.IfStmt:
		if x.Init != nil {
			t.fail(s, "if with init")
			return
		}
		t.emit(ind, "if "+prop(t.cond(x.Cond))+" then")
		t.stmts(ind+1, x.Body.List)
		if len(x.Body.List) == 0 {
			t.emit(ind+1, "pure ()")
		}
		switch e := x.Else.(type) {
		case nil:
		case *ast.BlockStmt:
			t.emit(ind, "else")
			t.stmts(ind+1, e.List)
		default:
			t.fail(s, "else-if")
		}
	case *ast.ReturnStmt:
		if len(x.Results) != 1 {
			t.fail(s, "return arity")
			return
		}
		r, _ := t.expr(x.Results[0], ty{})
		t.emit(ind, "return "+r)
	case *ast.ForStmt:
		// for i := 0; i < N; i++ { body }  -> unrolled
		init, ok := x.Init.(*ast.AssignStmt)
		if !ok || init.Tok != token.DEFINE || len(init.Lhs) != 1 {
			t.fail(s, "for init")
			return
		}
		iv := init.Lhs[0].(*ast.Ident).Name
		lo, err1 := strconv.Atoi(exprText(init.Rhs[0]))
		cond, ok := x.Cond.(*ast.BinaryExpr)
		if !ok || cond.Op != token.LSS || exprText(cond.X) != iv {
			t.fail(s, "for condition")
			return
		}
		hi, err2 := strconv.Atoi(exprText(cond.Y))
		post, ok := x.Post.(*ast.IncDecStmt)
		if !ok || post.Tok != token.INC || exprText(post.X) != iv || err1 != nil || err2 != nil || hi-lo > 64 {
			t.fail(s, "for shape")
			return
		}
		for i := lo; i < hi; i++ {
			t.subst[iv] = strconv.Itoa(i)
			t.stmts(ind, x.Body.List)
		}
		delete(t.subst, iv)
	default:
		t.fail(s, "statement %T", s)
	}
}

func exprText(e ast.Expr) string {
	switch x := e.(type) {
	case *ast.BasicLit:
		return x.Value
	case *ast.Ident:
		return x.Name
	}
	return "?"
}

// translateFunc renders one Go function as a Lean definition.
func translateFunc(path, fn, leanName string) (string, error) {
	fset := token.NewFileSet()
	f, err := parser.ParseFile(fset, path, nil, 0)
	if err != nil {
		return "", err
	}
	for _, d := range f.Decls {
		fd, ok := d.(*ast.FuncDecl)
		if !ok || fd.Name.Name != fn || fd.Recv != nil {
			continue
		}
		t := &trans{fset: fset, env: map[string]ty{}, decl: map[string]bool{}, slice: map[string][]string{}, subst: map[string]string{}}
		var params []string
		for _, p := range fd.Type.Params.List {
			pt, ok := goType(p.Type)
			if !ok {
				return "", fmt.Errorf("%s: unsupported parameter type", fn)
			}
			for _, n := range p.Names {
				t.env[n.Name] = pt
				params = append(params, fmt.Sprintf("(%s__in : %s)", n.Name, leanTy(pt)))
			}
		}
		if fd.Type.Results == nil || len(fd.Type.Results.List) != 1 {
			return "", fmt.Errorf("%s: result arity", fn)
		}
		rt, ok := goType(fd.Type.Results.List[0].Type)
		if !ok {
			return "", fmt.Errorf("%s: unsupported result type", fn)
		}
		// parameters are assignable in Go: rebind as mutable
		for _, p := range fd.Type.Params.List {
			for _, n := range p.Names {
				t.emit(1, fmt.Sprintf("let mut %s : %s := %s__in", n.Name, leanTy(t.env[n.Name]), n.Name))
			}
		}
		t.stmts(1, fd.Body.List)
		if t.err != nil {
			return "", t.err
		}
		hdr := fmt.Sprintf("def %s %s : %s := Id.run do", leanName, strings.Join(params, " "), leanTy(rt))
		return hdr + "\n" + strings.Join(t.out, "\n") + "\n", nil
	}
	return "", fmt.Errorf("function %s not found in %s", fn, path)
}
