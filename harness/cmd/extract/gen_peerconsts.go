package main

import (
	"fmt"
	"go/ast"
	"go/parser"
	"go/token"
	"path/filepath"
	"strconv"
	"strings"

	"github.com/bitcoin-sv/block-headers-service/config"
)

func init() { register("PeerConsts", genPeerConsts) }

// connmgrLiteral finds `name = <int literal>` or `name = T(<int literal>)` among the
// package-level const/var declarations of transports/p2p/connmgr/connmanager.go
// (the identifiers are unexported, so they are read from the syntax tree).
func connmgrLiteral(name string) (uint64, error) {
	file := filepath.Join(*repo, "transports/p2p/connmgr/connmanager.go")
	fset := token.NewFileSet()
	f, err := parser.ParseFile(fset, file, nil, 0)
	if err != nil {
		return 0, err
	}
	for _, d := range f.Decls {
		gd, ok := d.(*ast.GenDecl)
		if !ok || (gd.Tok != token.CONST && gd.Tok != token.VAR) {
			continue
		}
		for _, sp := range gd.Specs {
			vs := sp.(*ast.ValueSpec)
			for i, n := range vs.Names {
				if n.Name != name || i >= len(vs.Values) {
					continue
				}
				e := vs.Values[i]
				if call, ok := e.(*ast.CallExpr); ok && len(call.Args) == 1 {
					e = call.Args[0]
				}
				lit, ok := e.(*ast.BasicLit)
				if !ok || lit.Kind != token.INT {
					return 0, fmt.Errorf("connmgr.%s is not an integer literal any more (%T)", name, e)
				}
				return strconv.ParseUint(lit.Value, 0, 64)
			}
		}
	}
	return 0, fmt.Errorf("connmgr.%s not found", name)
}

func genPeerConsts() (string, error) {
	var b strings.Builder
	b.WriteString(genHeader)
	b.WriteString("namespace BHS.Gen\n\n")
	nat := func(name string, v any, src string) { fmt.Fprintf(&b, "-- %s\ndef %s : Nat := %v\n", src, name, v) }
	nat("maxPeers", config.MaxPeers, "config/p2p_config_consts.go MaxPeers")
	nat("maxPeersPerIP", config.MaxPeersPerIP, "config/p2p_config_consts.go MaxPeersPerIP")
	mfa, err := connmgrLiteral("maxFailedAttempts")
	if err != nil {
		return "", err
	}
	nat("maxFailedAttempts", mfa, "transports/p2p/connmgr/connmanager.go maxFailedAttempts (go/ast)")
	dto, err := connmgrLiteral("defaultTargetOutbound")
	if err != nil {
		return "", err
	}
	nat("defaultTargetOutbound", dto, "transports/p2p/connmgr/connmanager.go defaultTargetOutbound (go/ast)")
	nat("banDurationDefaultMs", config.GetDefaultAppConfig().P2P.BanDuration.Milliseconds(), "config/defaults.go getP2PDefaults().BanDuration, in ms")
	b.WriteString("\nend BHS.Gen\n")
	return b.String(), nil
}
