package main

// Gen.TokenStore: the token store below the authentication middleware, TRANSLATED from the Go source
// (go/parser + go/ast, own light type bookkeeping, no go/types):
//
//	domains/tokens.go                              CreateToken
//	repository/dto/tokens.go                       (*DbToken).ToToken, ToDbToken
//	database/sql/tokens.go                         (*HeadersDb).CreateToken, GetTokenByValue, DeleteToken
//	database/repository/token_repository.go        NewTokensRepository, (*TokenRepository).AddTokenToDatabase, GetTokenByValue, DeleteToken
//	service/token_service.go                       NewTokenService, (*TokenService).GenerateToken, DeleteToken
//	repository/repository.go                       interface Tokens (method signatures only)
//
// Target: Lean terms over lean/BHS/Model/TokenStorePrim.lean.  Every function becomes `… → M R` (state = the database
// with its fault schedule, plus the outcome panic).  Results stay tuples with independent components:
// (*T, error) ↦ Option T × Option GErr.  Theorems: lean/BHS/Props/TokenStore.lean.
//
// TYPES     string ↦ String, bool ↦ Bool, error ↦ Option GErr, *dto.DbToken / *domains.Token / *sqlx.Tx ↦ Option _ (nil = none),
//           dto.DbToken ↦ DbToken; service objects (*HeadersDb, *TokenRepository, *TokenService, *repository.Repositories,
//           *sqlx.DB) are non-nil records; interface repository.Tokens ↦ record of functions `TokensRepo`.
//           Parameters / arguments of type context.Context are dropped (also `context.Background()`).
//
// STATEMENTS (a list is translated with its continuation; no loops, switch, goto, labels)
//   var x T                                   ↦ let x := (default : T)
//   a, b := e / a, b = e / _ = e / e          ↦ M.bind ⟦e⟧ (fun r => let a := r.1; let b := r.2; …)   (calls), let a := ⟦e⟧ (pure)
//                                               `:=` of a name that already exists gets a fresh Lean name (Go scoping); `=` rebinds
//   if [init;] cond { A } [else …]            ↦ if cond then ⟦A; rest⟧ else ⟦B; rest⟧   (init is scoped to the if)
//   return e…                                 ↦ M.pure (…) / the call itself when the function returns a call's results
//   defer func() { … }()                      ↦ M.withDefer ⟦…⟧ ⟦rest⟧   (variables of the closure must not be assigned later)
// EXPRESSIONS
//   literals, true/false, nil ↦ none, variables, string constants (whitespace-normalised when multi-line: SQL texts),
//   x.F on records, p.F / *p on pointers (↦ M.deref, a panic on nil; not allowed under && ||), &x ↦ some x, &T{…} (CreatedAt skipped),
//   map[string]interface{}{"k": v}, !a, a&&b, a||b, == != (x == nil ↦ x.isNone), < <= > >=.
// PRIMITIVES
//   h.db.BeginTxx(ctx, opts)              SqlxDB.beginTxx h.db                     : Option Tx × Option GErr
//   h.db.GetContext(ctx, &d, q, args…)    SqlxDB.getContext h.db d q [args…]       : DbToken × Option GErr   (d is rebound to .1)
//   h.db.Rebind(q)                        q                                        (placeholder syntax only)
//   tx.NamedExecContext(ctx, q, arg)      Tx.namedExec tx q binds                  : Unit × Option GErr  (arg a DbToken or a map literal)
//   tx.Commit() / tx.Rollback()           Tx.commit tx / Tx.rollback tx            : Option GErr
//   uniuri.NewLen(n)                      uniuriNewLen n                           : String
//   bhserrors.ErrX / bhserrors.ErrX.Wrap(e)   some (GErr.bhs Gen.errX) / some (GErr.wrapBhs Gen.errX e)
//   errors.Wrap(e, m) / errors.Is(e, t) / <pkg>.ErrNoRows   GErr.pkgWrap e m / GErr.is e t / some GErr.noRows
//   x.Tokens.M(args) on the interface     x.Tokens.M args ; calls of translated functions and methods by name
// SKIPPED (allow-list): context arguments, the transaction options argument of BeginTxx, the field CreatedAt.
// Anything else: `file:line: unsupported: …`, failed extraction.

import (
	"fmt"
	"go/ast"
	"go/parser"
	"go/token"
	"path/filepath"
	"strconv"
	"strings"
)

func init() { register("TokenStore", genTokenStore) }

type tsVar struct{ lean, typ string }
type tsEnv map[string]tsVar

func (e tsEnv) with(name string, v tsVar) tsEnv {
	m := tsEnv{}
	for k, x := range e {
		m[k] = x
	}
	m[name] = v
	return m
}

type tsFunc struct {
	lean    string
	params  []string // canonical types, context dropped
	results []string
}

type tsTr struct {
	fset    *token.FileSet
	err     error
	consts  map[string]string
	funcs   map[string]tsFunc            // "<recv type>.<name>" ("" for functions)
	iface   map[string]map[string]tsFunc // interface ↦ method ↦ signature
	results []string                     // of the function being translated (nil inside a deferred closure)
	fresh   int
	pre     []string // pending M.bind / M.deref prefixes of the statement being translated
	noPre   int      // >0: inside a short-circuit operand, effects are refused
}

var tsObjects = map[string]bool{"HeadersDb": true, "TokenRepository": true, "TokenService": true, "Repositories": true, "SqlxDB": true}
var tsTypeNames = map[string]string{
	"string": "string", "bool": "bool", "error": "error", "int": "int",
	"Token": "Tok", "domains.Token": "Tok", "DbToken": "DbToken", "dto.DbToken": "DbToken",
	"sqlx.Tx": "Tx", "sqlx.DB": "SqlxDB", "context.Context": "ctx",
	"HeadersDb": "HeadersDb", "sql.HeadersDb": "HeadersDb", "TokenRepository": "TokenRepository", "TokenService": "TokenService",
	"repository.Repositories": "Repositories", "Repositories": "Repositories",
}

// struct ↦ Go field ↦ {Lean field, canonical type}
var tsFields = map[string]map[string][2]string{
	"DbToken":         {"Token": {"token", "string"}},
	"Tok":             {"Token": {"token", "string"}, "IsAdmin": {"isAdmin", "bool"}},
	"TokenService":    {"repo": {"repo", "Repositories"}, "adminToken": {"adminToken", "string"}},
	"Repositories":    {"Tokens": {"Tokens", "iface:Tokens"}},
	"TokenRepository": {"db": {"db", "HeadersDb"}},
	"HeadersDb":       {"db": {"db", "SqlxDB"}},
}
var tsSkippedFields = map[string]bool{"CreatedAt": true}

func (t *tsTr) fail(n ast.Node, msg string) string {
	if t.err == nil {
		t.err = fmt.Errorf("%s: unsupported: %s", t.fset.Position(n.Pos()), msg)
	}
	return "unsupportedConstruct"
}

func (t *tsTr) gensym(p string) string { t.fresh++; return fmt.Sprintf("%s__%d", p, t.fresh) }

// canonical type of a Go type expression
func (t *tsTr) typeOf(e ast.Expr) string {
	switch x := e.(type) {
	case *ast.StarExpr:
		in := t.typeOf(x.X)
		if tsObjects[in] {
			return in
		}
		return "*" + in
	case *ast.Ident, *ast.SelectorExpr:
		if c, ok := tsTypeNames[strings.Join(amwPath(e), ".")]; ok {
			return c
		}
	}
	t.fail(e, "type")
	return "?"
}

func tsLeanType(c string) string {
	switch {
	case c == "string":
		return "String"
	case c == "bool":
		return "Bool"
	case c == "int":
		return "Nat"
	case c == "error":
		return "Option GErr"
	case c == "sqlResult":
		return "Unit"
	case strings.HasPrefix(c, "*"):
		return "Option " + c[1:]
	case c == "iface:Tokens":
		return "TokensRepo"
	}
	return c
}

func tsTuple(types []string) string {
	if len(types) == 0 {
		return "Unit"
	}
	var ls []string
	for _, c := range types {
		ls = append(ls, tsLeanType(c))
	}
	return strings.Join(ls, " × ")
}

func tsProj(i, n int) string {
	if n == 1 {
		return ""
	}
	s := strings.Repeat(".2", i)
	if i < n-1 {
		s += ".1"
	}
	return s
}

func tsNormConst(s string) string {
	if strings.ContainsAny(s, "\n\t") {
		return strings.Join(strings.Fields(s), " ")
	}
	return s
}

func tsIsCtx(e ast.Expr, env tsEnv) bool {
	if id, ok := e.(*ast.Ident); ok {
		return env[id.Name].typ == "ctx"
	}
	if c, ok := e.(*ast.CallExpr); ok {
		return strings.Join(amwPath(c.Fun), ".") == "context.Background" || strings.Join(amwPath(c.Fun), ".") == "context.TODO"
	}
	return false
}

// ---------------------------------------------------------------- expressions

func (t *tsTr) push(prefix string, n ast.Node) {
	if t.noPre > 0 {
		t.fail(n, "a call or pointer dereference under && / ||")
	}
	t.pre = append(t.pre, prefix)
}

// flush wraps a term into the pending prefixes (outermost first)
func (t *tsTr) flush(term string) string {
	for i := len(t.pre) - 1; i >= 0; i-- {
		term = t.pre[i] + "\n" + term + "))"
	}
	t.pre = nil
	return term
}

// then: a continuation translated with its own (empty) list of pending prefixes
func (t *tsTr) then(cont func() string) string {
	pre := t.pre
	t.pre = nil
	s := cont()
	t.pre = pre
	return s
}

// deref: value behind a pointer-typed term
func (t *tsTr) deref(term, typ string, n ast.Node) (string, string) {
	d := t.gensym("d")
	t.push("(M.deref "+term+" (fun "+d+" =>", n)
	return d, typ[1:]
}

func (t *tsTr) expr(e ast.Expr, env tsEnv) (string, string) {
	switch x := e.(type) {
	case *ast.ParenExpr:
		return t.expr(x.X, env)
	case *ast.BasicLit:
		switch x.Kind {
		case token.INT:
			if _, err := strconv.ParseUint(x.Value, 10, 32); err == nil {
				return x.Value, "int"
			}
		case token.STRING:
			if v, err := strconv.Unquote(x.Value); err == nil {
				if s, ok := amwStr(tsNormConst(v)); ok {
					return s, "string"
				}
			}
		}
		return t.fail(e, "literal "+x.Value), "?"
	case *ast.Ident:
		switch x.Name {
		case "nil":
			return "none", "nil"
		case "true", "false":
			return x.Name, "bool"
		}
		if v, ok := env[x.Name]; ok && v.typ != "ctx" {
			return v.lean, v.typ
		}
		if v, ok := t.consts[x.Name]; ok {
			if s, ok := amwStr(tsNormConst(v)); ok {
				return s, "string"
			}
		}
		return t.fail(e, "identifier "+x.Name), "?"
	case *ast.SelectorExpr:
		p := amwPath(x)
		if len(p) == 2 {
			if _, isVar := env[p[0]]; !isVar {
				switch {
				case p[1] == "ErrNoRows":
					return "(some GErr.noRows)", "error"
				case p[0] == "bhserrors" && strings.HasPrefix(p[1], "Err"):
					return "(some (GErr.bhs BHS.Gen." + amwLower(p[1]) + "))", "error"
				}
				return t.fail(e, "selector "+strings.Join(p, ".")), "?"
			}
		}
		base, typ := t.expr(x.X, env)
		if strings.HasPrefix(typ, "*") {
			base, typ = t.deref(base, typ, x)
		}
		if f, ok := tsFields[typ][x.Sel.Name]; ok {
			return base + "." + f[0], f[1]
		}
		return t.fail(e, "field "+x.Sel.Name+" of "+typ), "?"
	case *ast.StarExpr:
		v, typ := t.expr(x.X, env)
		if !strings.HasPrefix(typ, "*") {
			return t.fail(e, "dereference of "+typ), "?"
		}
		return t.deref(v, typ, x)
	case *ast.UnaryExpr:
		switch x.Op {
		case token.NOT:
			a, _ := t.expr(x.X, env)
			return "(!" + a + ")", "bool"
		case token.AND:
			if cl, ok := x.X.(*ast.CompositeLit); ok {
				v, typ := t.composite(cl, env)
				if tsObjects[typ] {
					return v, typ
				}
				return "(some " + v + ")", "*" + typ
			}
			v, typ := t.expr(x.X, env)
			if _, isVar := x.X.(*ast.Ident); isVar && !strings.HasPrefix(typ, "*") && typ != "?" {
				return "(some " + v + ")", "*" + typ
			}
		}
		return t.fail(e, "unary "+x.Op.String()), "?"
	case *ast.BinaryExpr:
		switch x.Op {
		case token.LAND, token.LOR:
			a, _ := t.expr(x.X, env)
			t.noPre++
			b, _ := t.expr(x.Y, env)
			t.noPre--
			op := "&&"
			if x.Op == token.LOR {
				op = "||"
			}
			return "(" + a + " " + op + " " + b + ")", "bool"
		}
		if op, ok := amwCmp[x.Op]; ok {
			if amwIsNil(x.Y) || amwIsNil(x.X) {
				v := x.X
				if amwIsNil(x.X) {
					v = x.Y
				}
				a, typ := t.expr(v, env)
				if typ != "error" && !strings.HasPrefix(typ, "*") {
					return t.fail(e, "nil comparison of "+typ), "?"
				}
				switch x.Op {
				case token.EQL:
					return "(" + a + ").isNone", "bool"
				case token.NEQ:
					return "(" + a + ").isSome", "bool"
				}
				return t.fail(e, "ordering against nil"), "?"
			}
			a, _ := t.expr(x.X, env)
			b, _ := t.expr(x.Y, env)
			return "(" + a + " " + op + " " + b + ")", "bool"
		}
		return t.fail(e, "operator "+x.Op.String()), "?"
	case *ast.CompositeLit:
		if _, ok := x.Type.(*ast.MapType); ok {
			var kvs []string
			for _, el := range x.Elts {
				kv, ok := el.(*ast.KeyValueExpr)
				if !ok {
					return t.fail(el, "map element"), "?"
				}
				k, kt := t.expr(kv.Key, env)
				v, vt := t.expr(kv.Value, env)
				if kt != "string" || vt != "string" {
					return t.fail(kv, "map literal entry that is not string ↦ string"), "?"
				}
				kvs = append(kvs, "("+k+", "+v+")")
			}
			return "[" + strings.Join(kvs, ", ") + "]", "binds"
		}
		return t.composite(x, env)
	case *ast.CallExpr:
		m, res, out, pure := t.call(x, env)
		if len(res) != 1 || out != "" {
			return t.fail(e, "a call with other than one result used as a value"), "?"
		}
		if pure {
			return m, res[0]
		}
		v := t.gensym("v")
		t.push("(M.bind "+m+" (fun "+v+" =>", x)
		return v, res[0]
	}
	return t.fail(e, fmt.Sprintf("expression %T", e)), "?"
}

// T{K: v, …}: a record literal of one of the known structs
func (t *tsTr) composite(cl *ast.CompositeLit, env tsEnv) (string, string) {
	typ := t.typeOf(cl.Type)
	fields, ok := tsFields[typ]
	if !ok {
		return t.fail(cl, "composite literal of "+typ), "?"
	}
	var fs []string
	for _, el := range cl.Elts {
		kv, ok := el.(*ast.KeyValueExpr)
		if !ok {
			return t.fail(el, "positional composite literal"), "?"
		}
		k := strings.Join(amwPath(kv.Key), ".")
		if tsSkippedFields[k] {
			continue
		}
		f, ok := fields[k]
		if !ok {
			return t.fail(kv, "field "+k+" of "+typ), "?"
		}
		v, vt := t.expr(kv.Value, env)
		if vt != f[1] {
			return t.fail(kv.Value, "value of type "+vt+" for field "+k), "?"
		}
		fs = append(fs, f[0]+" := "+v)
	}
	return "({ " + strings.Join(fs, ", ") + " } : " + typ + ")", typ
}

// args: argument terms with context arguments dropped
func (t *tsTr) args(list []ast.Expr, env tsEnv) ([]string, []string) {
	var terms, types []string
	for _, a := range list {
		if tsIsCtx(a, env) {
			continue
		}
		v, ty := t.expr(a, env)
		terms, types = append(terms, v), append(types, ty)
	}
	return terms, types
}

func (t *tsTr) apply(c *ast.CallExpr, f tsFunc, recv string, env tsEnv) (string, []string, string, bool) {
	terms, types := t.args(c.Args, env)
	if len(types) != len(f.params) {
		return t.fail(c, "argument count"), f.results, "", false
	}
	for i := range types {
		if types[i] != f.params[i] && !(types[i] == "nil" && (f.params[i] == "error" || strings.HasPrefix(f.params[i], "*"))) {
			return t.fail(c.Args[i], "argument of type "+types[i]+" for a parameter of type "+f.params[i]), f.results, "", false
		}
	}
	parts := []string{f.lean}
	if recv != "" {
		parts = append(parts, recv)
	}
	return "(" + strings.Join(append(parts, terms...), " ") + ")", f.results, "", false
}

// call: the term of a call (an `M` computation unless pure), its result types, and — for GetContext — the Go
// variable that receives component 1 of the result
func (t *tsTr) call(c *ast.CallExpr, env tsEnv) (string, []string, string, bool) {
	bad := func(msg string) (string, []string, string, bool) { return t.fail(c, msg), []string{"?"}, "", true }
	sel, isSel := c.Fun.(*ast.SelectorExpr)
	if id, ok := c.Fun.(*ast.Ident); ok {
		if _, shadow := env[id.Name]; !shadow {
			if f, ok := t.funcs["."+id.Name]; ok {
				return t.apply(c, f, "", env)
			}
		}
		return bad("call of " + id.Name)
	}
	if !isSel {
		return bad("call target")
	}
	p := amwPath(c.Fun)
	name := strings.Join(p, ".")
	// package functions
	if len(p) == 2 {
		if _, isVar := env[p[0]]; !isVar {
			switch name {
			case "errors.Wrap":
				a, ty := t.args(c.Args, env)
				if len(a) == 2 && ty[0] == "error" && ty[1] == "string" {
					return "(GErr.pkgWrap " + a[0] + " " + a[1] + ")", []string{"error"}, "", true
				}
			case "errors.Is":
				a, ty := t.args(c.Args, env)
				if len(a) == 2 && ty[0] == "error" && ty[1] == "error" {
					return "(GErr.is " + a[0] + " " + a[1] + ")", []string{"bool"}, "", true
				}
			case "uniuri.NewLen":
				a, ty := t.args(c.Args, env)
				if len(a) == 1 && ty[0] == "int" {
					return "(uniuriNewLen " + a[0] + ")", []string{"string"}, "", false
				}
			default:
				if f, ok := t.funcs["."+p[1]]; ok && (p[0] == "domains" || p[0] == "dto") {
					return t.apply(c, f, "", env)
				}
			}
			return bad("call of " + name)
		}
	}
	// bhserrors.ErrX.Wrap(e)
	if len(p) == 3 && p[0] == "bhserrors" && strings.HasPrefix(p[1], "Err") && p[2] == "Wrap" {
		a, ty := t.args(c.Args, env)
		if len(a) == 1 && (ty[0] == "error" || ty[0] == "nil") {
			return "(some (GErr.wrapBhs BHS.Gen." + amwLower(p[1]) + " " + a[0] + "))", []string{"error"}, "", true
		}
		return bad("call of " + name)
	}
	// methods: the receiver expression is evaluated without dereferencing it
	recv, rtyp := t.expr(sel.X, env)
	m := sel.Sel.Name
	switch rtyp {
	case "SqlxDB":
		switch m {
		case "Rebind":
			if a, ty := t.args(c.Args, env); len(a) == 1 && ty[0] == "string" {
				return a[0], []string{"string"}, "", true
			}
		case "BeginTxx":
			if len(c.Args) == 2 && tsIsCtx(c.Args[0], env) { // c.Args[1]: *sql.TxOptions, skipped
				return "(SqlxDB.beginTxx " + recv + ")", []string{"*Tx", "error"}, "", false
			}
		case "GetContext":
			if len(c.Args) >= 3 && tsIsCtx(c.Args[0], env) {
				u, ok := c.Args[1].(*ast.UnaryExpr)
				var dest *ast.Ident
				if ok && u.Op == token.AND {
					dest, _ = u.X.(*ast.Ident)
				}
				if dest == nil || env[dest.Name].typ != "DbToken" {
					return bad("GetContext destination (only &<DbToken variable>)")
				}
				a, ty := t.args(c.Args[2:], env)
				for _, x := range ty {
					if x != "string" {
						return bad("GetContext argument of type " + x)
					}
				}
				return "(SqlxDB.getContext " + recv + " " + env[dest.Name].lean + " " + a[0] + " [" + strings.Join(a[1:], ", ") + "])", []string{"error"}, dest.Name, false
			}
		}
	case "*Tx":
		switch m {
		case "NamedExecContext":
			if len(c.Args) == 3 && tsIsCtx(c.Args[0], env) {
				a, ty := t.args(c.Args[1:], env)
				b := a[1]
				switch ty[1] {
				case "DbToken":
					b = "(Binds.ofDbToken " + a[1] + ")"
				case "binds":
				default:
					return bad("NamedExecContext argument of type " + ty[1])
				}
				if ty[0] == "string" {
					return "(Tx.namedExec " + recv + " " + a[0] + " " + b + ")", []string{"sqlResult", "error"}, "", false
				}
			}
		case "Commit", "Rollback":
			if len(c.Args) == 0 {
				return "(Tx." + strings.ToLower(m) + " " + recv + ")", []string{"error"}, "", false
			}
		}
	case "iface:Tokens":
		if f, ok := t.iface["Tokens"][m]; ok {
			f.lean = recv + "." + m
			return t.apply(c, f, "", env)
		}
	default:
		if f, ok := t.funcs[rtyp+"."+m]; ok {
			return t.apply(c, f, recv, env)
		}
	}
	return bad("call of method " + m + " on " + rtyp)
}

// ---------------------------------------------------------------- statements

func tsAssigned(n ast.Node, names map[string]bool) bool {
	found := false
	ast.Inspect(n, func(m ast.Node) bool {
		if as, ok := m.(*ast.AssignStmt); ok {
			for _, l := range as.Lhs {
				if id, ok := l.(*ast.Ident); ok && names[id.Name] {
					found = true
				}
			}
		}
		if u, ok := m.(*ast.UnaryExpr); ok && u.Op == token.AND {
			if id, ok := u.X.(*ast.Ident); ok && names[id.Name] {
				found = true
			}
		}
		return !found
	})
	return found
}

func (t *tsTr) bindName(name string, typ string, define bool, env tsEnv, n ast.Node) (string, tsEnv) {
	if name == "_" {
		return "_", env
	}
	if !define {
		v, ok := env[name]
		if !ok {
			return t.fail(n, "assignment to unknown variable "+name), env
		}
		if v.typ != typ && typ != "nil" {
			return t.fail(n, "assignment of "+typ+" to "+name+" of type "+v.typ), env
		}
		return v.lean, env
	}
	lean := amwName(name)
	if _, exists := env[name]; exists {
		lean = t.gensym(name)
	}
	return lean, env.with(name, tsVar{lean, typ})
}

// simple: an assignment / definition / expression statement, followed by `next` in the extended environment
func (t *tsTr) simple(s ast.Stmt, env tsEnv, next func(tsEnv) string) string {
	var lhs []ast.Expr
	var rhs ast.Expr
	define := false
	switch x := s.(type) {
	case *ast.ExprStmt:
		rhs = x.X
	case *ast.AssignStmt:
		if len(x.Rhs) != 1 || (x.Tok != token.DEFINE && x.Tok != token.ASSIGN) {
			return t.fail(s, "assignment form")
		}
		lhs, rhs, define = x.Lhs, x.Rhs[0], x.Tok == token.DEFINE
	default:
		return t.fail(s, fmt.Sprintf("statement %T", s))
	}
	var names []string
	for _, l := range lhs {
		id, ok := l.(*ast.Ident)
		if !ok {
			return t.fail(l, "assignment target")
		}
		names = append(names, id.Name)
	}
	c, isCall := rhs.(*ast.CallExpr)
	if !isCall {
		if len(names) != 1 {
			return t.fail(s, "assignment arity")
		}
		v, typ := t.expr(rhs, env)
		lean, env2 := t.bindName(names[0], typ, define, env, s)
		return t.flush("let " + lean + " := " + v + ";\n" + t.then(func() string { return next(env2) }))
	}
	m, res, out, pure := t.call(c, env)
	if lhs != nil && len(names) != len(res) {
		return t.fail(s, "assignment arity")
	}
	if pure {
		if len(res) != 1 {
			return t.fail(s, "pure call arity")
		}
		if lhs == nil {
			return t.flush(t.then(func() string { return next(env) }))
		}
		lean, env2 := t.bindName(names[0], res[0], define, env, s)
		return t.flush("let " + lean + " := " + m + ";\n" + t.then(func() string { return next(env2) }))
	}
	comps := len(res)
	off := 0
	if out != "" {
		comps, off = comps+1, 1
	}
	r := t.gensym("r")
	body := ""
	env2 := env
	if out != "" {
		body += "let " + env[out].lean + " := " + r + tsProj(0, comps) + ";\n"
	}
	for i, n := range names {
		var lean string
		lean, env2 = t.bindName(n, res[i], define, env2, s)
		if lean != "_" {
			body += "let " + lean + " := " + r + tsProj(i+off, comps) + ";\n"
		}
	}
	rest := t.then(func() string { return next(env2) })
	return t.flush("(M.bind " + m + " (fun " + r + " =>\n" + body + rest + "))")
}

func (t *tsTr) stmts(list []ast.Stmt, env tsEnv, k func() string) string {
	if len(list) == 0 {
		return k()
	}
	s, rest := list[0], list[1:]
	next := func(e tsEnv) string { return t.stmts(rest, e, k) }
	switch x := s.(type) {
	case *ast.ReturnStmt:
		if len(rest) != 0 {
			return t.fail(rest[0], "statement after return")
		}
		return t.ret(x, env)
	case *ast.DeclStmt:
		gd, ok := x.Decl.(*ast.GenDecl)
		if !ok || gd.Tok != token.VAR || len(gd.Specs) != 1 {
			return t.fail(s, "declaration")
		}
		vs := gd.Specs[0].(*ast.ValueSpec)
		if len(vs.Names) != 1 || len(vs.Values) != 0 || vs.Type == nil {
			return t.fail(s, "var declaration (only `var x T`)")
		}
		typ := t.typeOf(vs.Type)
		lean, env2 := t.bindName(vs.Names[0].Name, typ, true, env, s)
		return "let " + lean + " := (default : " + tsLeanType(typ) + ");\n" + next(env2)
	case *ast.AssignStmt, *ast.ExprStmt:
		return t.simple(s, env, next)
	case *ast.DeferStmt:
		fl, ok := x.Call.Fun.(*ast.FuncLit)
		if !ok || len(x.Call.Args) != 0 || len(fl.Type.Params.List) != 0 || fl.Type.Results != nil {
			return t.fail(s, "defer of anything but a parameterless closure")
		}
		used := map[string]bool{}
		ast.Inspect(fl.Body, func(m ast.Node) bool {
			if id, ok := m.(*ast.Ident); ok {
				if _, isVar := env[id.Name]; isVar {
					used[id.Name] = true
				}
			}
			return true
		})
		for _, r := range rest {
			if tsAssigned(r, used) {
				return t.fail(r, "assignment to a variable captured by a deferred closure")
			}
		}
		saved := t.results
		t.results = nil
		d := t.stmts(fl.Body.List, env, func() string { return "(M.pure ())" })
		t.results = saved
		return "(M.withDefer\n(" + d + ")\n(" + next(env) + "))"
	case *ast.IfStmt:
		body := func(ei tsEnv) string {
			cond, ct := t.expr(x.Cond, ei)
			if ct != "bool" {
				return t.fail(x.Cond, "condition of type "+ct)
			}
			pre := t.pre
			t.pre = nil
			after := func() string { return next(env) }
			thenT := t.stmts(x.Body.List, ei, after)
			var elseT string
			switch e := x.Else.(type) {
			case nil:
				elseT = after()
			case *ast.BlockStmt:
				elseT = t.stmts(e.List, ei, after)
			case *ast.IfStmt:
				elseT = t.stmts([]ast.Stmt{e}, ei, after)
			}
			t.pre = pre
			return t.flush("(if " + cond + " then\n" + thenT + "\nelse\n" + elseT + ")")
		}
		if x.Init != nil {
			return t.simple(x.Init, env, body)
		}
		return body(env)
	}
	return t.fail(s, fmt.Sprintf("statement %T", s))
}

func (t *tsTr) ret(r *ast.ReturnStmt, env tsEnv) string {
	if t.results == nil {
		if len(r.Results) != 0 {
			return t.fail(r, "return with a value in a closure")
		}
		return "(M.pure ())"
	}
	if len(r.Results) == 1 {
		if c, ok := r.Results[0].(*ast.CallExpr); ok {
			m, res, out, pure := t.call(c, env)
			if !pure && out == "" && strings.Join(res, ",") == strings.Join(t.results, ",") {
				return t.flush(m)
			}
			if !pure {
				return t.fail(r, "returned call with results "+strings.Join(res, ","))
			}
			if len(t.results) == 1 && res[0] == t.results[0] {
				return t.flush("(M.pure " + m + ")")
			}
			return t.fail(r, "returned value of type "+res[0])
		}
	}
	if len(r.Results) != len(t.results) {
		return t.fail(r, "return arity")
	}
	var vs []string
	for i, e := range r.Results {
		v, typ := t.expr(e, env)
		want := t.results[i]
		if typ != want && !(typ == "nil" && (want == "error" || strings.HasPrefix(want, "*"))) {
			return t.fail(e, "returned value of type "+typ+" where "+want+" is declared")
		}
		vs = append(vs, v)
	}
	return t.flush("(M.pure (" + strings.Join(vs, ", ") + "))")
}

// ---------------------------------------------------------------- functions

func (t *tsTr) signature(ft *ast.FuncType) (names, params, results []string) {
	for _, f := range ft.Params.List {
		typ := t.typeOf(f.Type)
		for _, n := range f.Names {
			names, params = append(names, n.Name), append(params, typ)
		}
		if len(f.Names) == 0 {
			names, params = append(names, "_"), append(params, typ)
		}
	}
	if ft.Results != nil {
		for _, f := range ft.Results.List {
			if len(f.Names) != 0 {
				t.fail(f, "named results")
			}
			results = append(results, t.typeOf(f.Type))
		}
	}
	return
}

func (t *tsTr) function(fd *ast.FuncDecl, lean string) string {
	t.fresh, t.pre = 0, nil
	env := tsEnv{}
	var binders []string
	recvType := ""
	if fd.Recv != nil {
		f := fd.Recv.List[0]
		recvType = t.typeOf(f.Type)
		if len(f.Names) != 1 {
			return t.fail(fd, "receiver")
		}
		env = env.with(f.Names[0].Name, tsVar{amwName(f.Names[0].Name), recvType})
		binders = append(binders, "("+amwName(f.Names[0].Name)+" : "+tsLeanType(recvType)+")")
	}
	names, params, results := t.signature(fd.Type)
	var kept []string
	for i, n := range names {
		env = env.with(n, tsVar{amwName(n), params[i]})
		if params[i] == "ctx" {
			continue
		}
		kept = append(kept, params[i])
		binders = append(binders, "("+amwName(n)+" : "+tsLeanType(params[i])+")")
	}
	if len(results) == 0 {
		return t.fail(fd, "function without results")
	}
	t.results = results
	t.funcs[recvType+"."+fd.Name.Name] = tsFunc{lean: lean, params: kept, results: results} // registered first: no recursion expected, but harmless
	body := t.stmts(fd.Body.List, env, func() string { return t.fail(fd, "control reaches the end of the function") })
	return "def " + lean + " " + strings.Join(binders, " ") + " : M (" + tsTuple(results) + ") :=\n" + body + "\n"
}

func genTokenStore() (string, error) {
	t := &tsTr{fset: token.NewFileSet(), funcs: map[string]tsFunc{}, iface: map[string]map[string]tsFunc{}}
	parse := func(rel string) (*ast.File, error) {
		return parser.ParseFile(t.fset, filepath.Join(*repo, filepath.FromSlash(rel)), nil, 0)
	}
	// interface repository.Tokens
	rf, err := parse("repository/repository.go")
	if err != nil {
		return "", err
	}
	ast.Inspect(rf, func(n ast.Node) bool {
		ts, ok := n.(*ast.TypeSpec)
		if !ok || ts.Name.Name != "Tokens" {
			return true
		}
		it, ok := ts.Type.(*ast.InterfaceType)
		if !ok {
			return true
		}
		ms := map[string]tsFunc{}
		for _, m := range it.Methods.List {
			ft, ok := m.Type.(*ast.FuncType)
			if !ok || len(m.Names) != 1 {
				t.fail(m, "embedded interface")
				continue
			}
			_, params, results := t.signature(ft)
			ms[m.Names[0].Name] = tsFunc{params: params, results: results}
		}
		t.iface["Tokens"] = ms
		return false
	})
	if t.iface["Tokens"] == nil {
		return "", fmt.Errorf("repository/repository.go: interface Tokens not found")
	}
	if t.err != nil {
		return "", t.err
	}
	items := []struct{ file, recv, fn, lean string }{
		{"domains/tokens.go", "", "CreateToken", "createToken"},
		{"repository/dto/tokens.go", "*DbToken", "ToToken", "dbTokenToToken"},
		{"repository/dto/tokens.go", "", "ToDbToken", "toDbToken"},
		{"database/sql/tokens.go", "HeadersDb", "CreateToken", "sqlCreateToken"},
		{"database/sql/tokens.go", "HeadersDb", "GetTokenByValue", "sqlGetTokenByValue"},
		{"database/sql/tokens.go", "HeadersDb", "DeleteToken", "sqlDeleteToken"},
		{"database/repository/token_repository.go", "", "NewTokensRepository", "newTokensRepository"},
		{"database/repository/token_repository.go", "TokenRepository", "AddTokenToDatabase", "repoAddTokenToDatabase"},
		{"database/repository/token_repository.go", "TokenRepository", "GetTokenByValue", "repoGetTokenByValue"},
		{"database/repository/token_repository.go", "TokenRepository", "DeleteToken", "repoDeleteToken"},
		{"service/token_service.go", "", "NewTokenService", "newTokenService"},
		{"service/token_service.go", "TokenService", "GenerateToken", "svcGenerateToken"},
		{"service/token_service.go", "TokenService", "DeleteToken", "svcDeleteToken"},
	}
	var b strings.Builder
	b.WriteString(genHeader)
	b.WriteString("-- translator: harness/cmd/extract/gen_tokenstore.go (subset and primitive table in its header)\n")
	b.WriteString("import BHS.Model.TokenStorePrim\n\nset_option linter.unusedVariables false\n\nnamespace BHS.Gen.TokenStore\nopen BHS.Model.TokenStorePrim\nopen BHS.Model.AuthMwPrim (Tok)\n\n")
	b.WriteString("-- repository/repository.go interface Tokens:")
	for _, m := range []string{"AddTokenToDatabase", "GetTokenByValue", "DeleteToken"} {
		f, ok := t.iface["Tokens"][m]
		if !ok {
			return "", fmt.Errorf("repository/repository.go: interface Tokens has no method %s", m)
		}
		b.WriteString(" " + m + "(" + strings.Join(f.params, ", ") + ") (" + strings.Join(f.results, ", ") + ");")
	}
	b.WriteString("\n-- the record TokensRepo must have exactly these fields (checked by the example below)\n")
	b.WriteString("example (r : TokensRepo) : ")
	var chk []string
	for _, m := range []string{"AddTokenToDatabase", "GetTokenByValue", "DeleteToken"} {
		f := t.iface["Tokens"][m]
		var ps []string
		for _, p := range f.params {
			ps = append(ps, tsLeanType(p))
		}
		chk = append(chk, "("+strings.Join(ps, " → ")+" → M ("+tsTuple(f.results)+"))")
	}
	b.WriteString(strings.Join(chk, " × ") + " :=\n  (r.AddTokenToDatabase, r.GetTokenByValue, r.DeleteToken)\n\n")
	files := map[string]*ast.File{}
	for _, it := range items {
		f := files[it.file]
		if f == nil {
			if f, err = parse(it.file); err != nil {
				return "", err
			}
			files[it.file] = f
		}
		t.consts = map[string]string{}
		var fd *ast.FuncDecl
		for _, d := range f.Decls {
			switch x := d.(type) {
			case *ast.GenDecl:
				if x.Tok != token.CONST {
					continue
				}
				for _, sp := range x.Specs {
					vs := sp.(*ast.ValueSpec)
					for i, n := range vs.Names {
						if i < len(vs.Values) {
							if bl, ok := vs.Values[i].(*ast.BasicLit); ok && bl.Kind == token.STRING {
								if v, err := strconv.Unquote(bl.Value); err == nil {
									t.consts[n.Name] = v
								}
							}
						}
					}
				}
			case *ast.FuncDecl:
				if x.Name.Name != it.fn || x.Body == nil {
					continue
				}
				rt := ""
				if x.Recv != nil && len(x.Recv.List) == 1 {
					saved := t.err
					rt = t.typeOf(x.Recv.List[0].Type)
					t.err = saved
				}
				if rt == it.recv {
					fd = x
				}
			}
		}
		if fd == nil {
			return "", fmt.Errorf("%s: function %s not found", it.file, it.fn)
		}
		s := t.function(fd, it.lean)
		if t.err != nil {
			return "", t.err
		}
		name := it.fn
		if it.recv != "" {
			name = "(" + it.recv + ")." + it.fn
		}
		b.WriteString("-- " + it.file + " " + name + "\n" + s + "\n")
	}
	b.WriteString("end BHS.Gen.TokenStore\n")
	return b.String(), nil
}
