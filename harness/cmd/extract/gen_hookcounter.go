package main

// Gen.HookCounter: the consecutive-error bookkeeping of notification.(*Webhook).updateWebhookAfterNotification,
// TRANSLATED from the Go source: assignments to w.ErrorsCount / w.Active inside the if/else on the status code become a
// Lean do-block over (errorsCount, active); assignments to the last-emit fields (strings / time) are skipped.
// Any other statement shape is a translation error (the obligation C12_counter_translated is then broken).

import (
	"fmt"
	"go/ast"
	"go/parser"
	"go/token"
	"path/filepath"
	"strings"
)

func init() { register("HookCounter", genHookCounter) }

type hctrans struct {
	fset *token.FileSet
	recv string
	out  []string
	err  error
}

func (t *hctrans) fail(n ast.Node, msg string) {
	if t.err == nil {
		t.err = fmt.Errorf("%s: unsupported: %s", t.fset.Position(n.Pos()), msg)
	}
}

var hcIgnored = map[string]bool{"LastEmitTimestamp": true, "LastEmitStatus": true}
var hcFields = map[string]string{"ErrorsCount": "errorsCount", "Active": "active", "MaxTries": "maxTries"}

func (t *hctrans) intExpr(e ast.Expr) string {
	switch x := e.(type) {
	case *ast.ParenExpr:
		return "(" + t.intExpr(x.X) + ")"
	case *ast.BasicLit:
		if x.Kind == token.INT {
			return x.Value
		}
	case *ast.Ident:
		if x.Name == "sCode" {
			return "sCode"
		}
	case *ast.SelectorExpr:
		s := selText(x)
		if s == "http.StatusOK" {
			return "200"
		}
		if strings.HasPrefix(s, t.recv+".") {
			if p, ok := hcFields[strings.TrimPrefix(s, t.recv+".")]; ok {
				return p
			}
		}
	case *ast.BinaryExpr:
		if x.Op == token.ADD {
			return "(" + t.intExpr(x.X) + " + " + t.intExpr(x.Y) + ")"
		}
	}
	t.fail(e, "integer expression")
	return "0"
}

func (t *hctrans) cond(e ast.Expr) string {
	b, ok := e.(*ast.BinaryExpr)
	if !ok {
		t.fail(e, "condition")
		return "True"
	}
	op := map[token.Token]string{token.NEQ: "≠", token.EQL: "=", token.GEQ: "≥", token.GTR: ">", token.LEQ: "≤", token.LSS: "<"}[b.Op]
	if op == "" {
		t.fail(e, "comparison "+b.Op.String())
	}
	return t.intExpr(b.X) + " " + op + " " + t.intExpr(b.Y)
}

// onlyIgnored: every statement of the block assigns an ignored field
func (t *hctrans) onlyIgnored(b *ast.BlockStmt) bool {
	for _, s := range b.List {
		as, ok := s.(*ast.AssignStmt)
		if !ok || len(as.Lhs) != 1 {
			return false
		}
		sel, ok := as.Lhs[0].(*ast.SelectorExpr)
		if !ok || selText(sel.X) != t.recv || !hcIgnored[sel.Sel.Name] {
			return false
		}
	}
	return true
}

func (t *hctrans) block(ind int, list []ast.Stmt) {
	pad := strings.Repeat("  ", ind)
	emitted := false
	for _, s := range list {
		switch x := s.(type) {
		case *ast.AssignStmt:
			if len(x.Lhs) != 1 || x.Tok != token.ASSIGN {
				t.fail(s, "assignment form")
				continue
			}
			sel, ok := x.Lhs[0].(*ast.SelectorExpr)
			if !ok || selText(sel.X) != t.recv {
				t.fail(s, "assignment target")
				continue
			}
			switch {
			case hcIgnored[sel.Sel.Name]:
			case sel.Sel.Name == "ErrorsCount":
				t.out = append(t.out, pad+"errorsCount := "+t.intExpr(x.Rhs[0]))
				emitted = true
			case sel.Sel.Name == "Active":
				id, ok := x.Rhs[0].(*ast.Ident)
				if !ok || (id.Name != "true" && id.Name != "false") {
					t.fail(s, "Active assigned a non-literal")
					continue
				}
				t.out = append(t.out, pad+"active := "+id.Name)
				emitted = true
			default:
				t.fail(s, "assignment to field "+sel.Sel.Name)
			}
		case *ast.IfStmt:
			if x.Init != nil {
				t.fail(s, "if with init")
				continue
			}
			eb, _ := x.Else.(*ast.BlockStmt)
			if t.onlyIgnored(x.Body) && (x.Else == nil || (eb != nil && t.onlyIgnored(eb))) {
				continue // only touches the last-emit fields
			}
			t.out = append(t.out, pad+"if "+t.cond(x.Cond)+" then")
			t.block(ind+1, x.Body.List)
			if x.Else != nil {
				if eb == nil {
					t.fail(s, "else-if")
					continue
				}
				t.out = append(t.out, pad+"else")
				t.block(ind+1, eb.List)
			}
			emitted = true
		default:
			t.fail(s, fmt.Sprintf("statement %T", s))
		}
	}
	if !emitted {
		t.out = append(t.out, pad+"pure ()")
	}
}

func genHookCounter() (string, error) {
	fset := token.NewFileSet()
	f, err := parser.ParseFile(fset, filepath.Join(*repo, "notification", "webhooks.go"), nil, 0)
	if err != nil {
		return "", err
	}
	for _, d := range f.Decls {
		fd, ok := d.(*ast.FuncDecl)
		if !ok || fd.Name.Name != "updateWebhookAfterNotification" || fd.Recv == nil {
			continue
		}
		t := &hctrans{fset: fset, recv: fd.Recv.List[0].Names[0].Name}
		if len(fd.Type.Params.List) < 1 || fd.Type.Params.List[0].Names[0].Name != "sCode" {
			return "", fmt.Errorf("updateWebhookAfterNotification: first parameter is not sCode")
		}
		t.block(1, fd.Body.List)
		if t.err != nil {
			return "", t.err
		}
		var b strings.Builder
		b.WriteString(genHeader)
		b.WriteString("namespace BHS.Gen\n\n")
		b.WriteString("/-- notification/webhooks.go updateWebhookAfterNotification: what it does to (ErrorsCount, Active) given MaxTries and the\n    status code (0 when the call failed); Go `int` rendered as Int (no overflow within any reachable count) -/\n")
		b.WriteString("def hookCounter (errorsCount__in : Int) (active__in : Bool) (maxTries : Int) (sCode : Int) : Int × Bool := Id.run do\n")
		b.WriteString("  let mut errorsCount : Int := errorsCount__in\n  let mut active : Bool := active__in\n")
		b.WriteString(strings.Join(t.out, "\n") + "\n  return (errorsCount, active)\n\nend BHS.Gen\n")
		return b.String(), nil
	}
	return "", fmt.Errorf("updateWebhookAfterNotification not found")
}
