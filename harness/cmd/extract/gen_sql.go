package main

// Gen.Sql: every SQL statement under /repo/database (Go string literals and migration files)
// that WRITES (INSERT / UPDATE / DELETE / ALTER / DROP / CREATE), tokenised to
// (origin, verb, table, assigned columns, conflict clause). Used by C03 (only the state label
// of a stored header is ever updated; inserts never overwrite), C10, C12, C17.

import (
	"fmt"
	"go/ast"
	"go/parser"
	"go/token"
	"os"
	"path/filepath"
	"regexp"
	"sort"
	"strconv"
	"strings"
)

func init() { register("Sql", genSql) }

type sqlWrite struct {
	origin, verb, table string
	cols               []string
	conflict           string
}

var (
	reWS     = regexp.MustCompile(`\s+`)
	reInsert = regexp.MustCompile(`(?i)^insert\s+into\s+([a-z_]+)\s*\(([^)]*)\)`)
	reUpdate = regexp.MustCompile(`(?i)^update\s+([a-z_]+)\s+set\s+(.*?)(\s+where\s|$)`)
	reDelete = regexp.MustCompile(`(?i)^delete\s+from\s+([a-z_]+)`)
	reAlter  = regexp.MustCompile(`(?i)^alter\s+table\s+([a-z_]+)\s+(.*)$`)
	reDrop   = regexp.MustCompile(`(?i)^drop\s+(table|index)\s+(if\s+exists\s+)?([a-z_%]+)`)
	reCreate = regexp.MustCompile(`(?i)^create\s+(unique\s+)?(table|index)\s+(if\s+not\s+exists\s+)?([a-z_]+)`)
)

func classifySQL(origin, stmt string) (sqlWrite, bool) {
	s := strings.TrimSpace(reWS.ReplaceAllString(stmt, " "))
	s = strings.TrimSuffix(s, ";")
	low := strings.ToLower(s)
	w := sqlWrite{origin: origin}
	switch {
	case reInsert.MatchString(s):
		m := reInsert.FindStringSubmatch(s)
		w.verb, w.table = "insert", strings.ToLower(m[1])
		for _, c := range strings.Split(m[2], ",") {
			w.cols = append(w.cols, strings.ToLower(strings.TrimSpace(c)))
		}
		switch {
		case strings.Contains(low, "on conflict do nothing"):
			w.conflict = "do-nothing"
		case strings.Contains(low, "on conflict"):
			w.conflict = "other"
		default:
			w.conflict = "none"
		}
	case reUpdate.MatchString(s):
		m := reUpdate.FindStringSubmatch(s)
		w.verb, w.table = "update", strings.ToLower(m[1])
		for _, a := range strings.Split(m[2], ",") {
			w.cols = append(w.cols, strings.ToLower(strings.TrimSpace(strings.SplitN(a, "=", 2)[0])))
		}
	case reDelete.MatchString(s):
		w.verb, w.table = "delete", strings.ToLower(reDelete.FindStringSubmatch(s)[1])
	case reAlter.MatchString(s):
		m := reAlter.FindStringSubmatch(s)
		w.verb, w.table = "alter", strings.ToLower(m[1])
		w.cols = []string{strings.ToLower(m[2])}
	case reDrop.MatchString(s):
		m := reDrop.FindStringSubmatch(s)
		w.verb, w.table = "drop-"+strings.ToLower(m[1]), strings.ToLower(m[3])
	case reCreate.MatchString(s):
		m := reCreate.FindStringSubmatch(s)
		w.verb, w.table = "create-"+strings.ToLower(m[2]), strings.ToLower(m[4])
	default:
		return w, false
	}
	return w, true
}

func sqlStr(s string) string { return strconv.Quote(s) }

func genSql() (string, error) {
	var ws []sqlWrite
	root := filepath.Join(*repo, "database")
	err := filepath.Walk(root, func(p string, info os.FileInfo, err error) error {
		if err != nil {
			return err
		}
		rel, _ := filepath.Rel(*repo, p)
		switch {
		case info.IsDir():
			return nil
		case strings.HasSuffix(p, ".sql"):
			b, err := os.ReadFile(p)
			if err != nil {
				return err
			}
			for _, st := range strings.Split(string(b), ";") {
				if w, ok := classifySQL(rel, st); ok {
					ws = append(ws, w)
				}
			}
		case strings.HasSuffix(p, ".go") && !strings.HasSuffix(p, "_test.go"):
			fset := token.NewFileSet()
			f, err := parser.ParseFile(fset, p, nil, 0)
			if err != nil {
				return err
			}
			ast.Inspect(f, func(n ast.Node) bool {
				bl, ok := n.(*ast.BasicLit)
				if !ok || bl.Kind != token.STRING {
					return true
				}
				v, err := strconv.Unquote(bl.Value)
				if err != nil {
					return true
				}
				for _, st := range strings.Split(v, ";") {
					if w, ok := classifySQL(fmt.Sprintf("%s:%d", rel, fset.Position(bl.Pos()).Line), st); ok {
						// statements built with fmt (DROP INDEX IF EXISTS %s) keep their placeholder
						ws = append(ws, w)
					}
				}
				return true
			})
		}
		return nil
	})
	if err != nil {
		return "", err
	}
	sort.SliceStable(ws, func(i, j int) bool { return ws[i].origin < ws[j].origin })
	var b strings.Builder
	b.WriteString(genHeader)
	b.WriteString("namespace BHS.Gen\n\n")
	b.WriteString("structure SqlWrite where\n  origin : String\n  verb : String\n  table : String\n  cols : List String\n  conflict : String\nderiving DecidableEq, Repr\n\n")
	b.WriteString("def sqlWrites : List SqlWrite := [\n")
	for i, w := range ws {
		cols := make([]string, len(w.cols))
		for k, c := range w.cols {
			cols[k] = sqlStr(c)
		}
		// line numbers are dropped from the origin so that unrelated edits do not churn the table
		org := w.origin
		if k := strings.LastIndex(org, ":"); k > 0 && strings.HasSuffix(org[:k], ".go") {
			org = org[:k]
		}
		sep := ","
		if i == len(ws)-1 {
			sep = ""
		}
		fmt.Fprintf(&b, "  { origin := %s, verb := %s, table := %s, cols := [%s], conflict := %s }%s\n", sqlStr(org), sqlStr(w.verb), sqlStr(w.table), strings.Join(cols, ", "), sqlStr(w.conflict), sep)
	}
	b.WriteString("]\n\nend BHS.Gen\n")
	return b.String(), nil
}
