package main

// Gen.Notifier: the event fan-out of property C11,
//   notification/notification.go   NewNotifier, (*Notifier).AddChannel, (*Notifier).Notify
//   notification/websocket.go      NewWebsocketChannel, (*wsChan).publishToHeadersChannel, (*wsChan).Notify
//   domains/header_events.go       HeaderAdded
// TRANSLATED statement by statement into Lean `do` blocks over lean/BHS/Model/NotifierPrim.lean
// (refinement theorems: lean/BHS/Props/NotifierGen.lean).
//
// SUBSET (everything else: `file:line:col: unsupported: …`, exit 1, the module is replaced by an empty one)
//   statements   `x := e`, `a, b := f(…)`, `recv.field = e` (the method then returns the new receiver value),
//                `if [init;] c {…} [else {…}]`, `return [e]`, `for _, x := range xs {…}` without jumps or assignments to outer
//                variables, `go ch.Notify(ev)` on a Channel variable ↦ `spawn (Task.chNotify ch ev)`;
//                BLOCKING operations in the caller's thread are translated, not skipped: a channel send `c <- v`, a receive
//                `<-c` as a statement, calls `x.Lock() x.RLock() x.Wait() x.Acquire(…)`, `time.Sleep(…)` ↦ `mayBlock (Blk.op "…")`,
//                a direct call `ch.Notify(ev)` on a Channel variable ↦ `mayBlock (Blk.chNotify ch ev)`.
//                `go` of anything else (a closure, another method), `select`, `defer`, `for` without range: unsupported.
//                Control flow in continuation style (no early return in the Lean text); a `:=` that shadows gets a fresh name.
//   expressions  identifiers, nil, string / integer literals, `x != nil` `x == nil`, field reads of the READ table, `&T{…}` /
//                `T{…}` of the four struct types of the WRITE tables (every Lean field must be given), make([]Channel, 0),
//                append(xs, x), package string constants of the file, and the primitive table.
//   structs      the Go declarations of Notifier, wsChan, HeaderEvent, HeaderEventDetails, WebsocketConfig must have EXACTLY
//                the fields (and types) of ntStructs — in particular wsChan has no field that could keep a payload.
// PRIMITIVE TABLE  json.Marshal(ev) ↦ jsonMarshal env ev (fresh payload);  <recv>.publisher.Publish(ch, data, opt) ↦ publish env ch data opt;
//   centrifuge.WithHistory(n, d) ↦ withHistory n d;  time.Duration(x)*time.Minute ↦ durMinutes x;
//   h.<Hash|MerkleRoot|PreviousBlock>.String() ↦ the hash; calls of the translated methods of the same receiver.
// SKIP LIST    <recv>.log.<Level>().Msg/Msgf(…); a local made from the logger (`x := log.With()…Logger()`); the fields
//              `publisher` and `log` in the wsChan literal (their values must be an identifier or &identifier).

import (
	"fmt"
	"go/ast"
	"go/parser"
	"go/token"
	"go/types"
	"os"
	"path/filepath"
	"regexp"
	"strconv"
	"strings"
)

func init() { register("Notifier", genNotifier) }

type ntErr struct{ msg string }

// struct declarations: file, type, exact field list (name ↦ Go type text)
var ntStructs = []struct {
	file, name string
	fields     map[string]string
}{
	{"notification/notification.go", "Notifier", map[string]string{"channels": "[]Channel"}},
	{"notification/websocket.go", "wsChan", map[string]string{"publisher": "WebsocketPublisher", "log": "*zerolog.Logger", "historySize": "int", "historySeconds": "int"}},
	{"config/config.go", "WebsocketConfig", map[string]string{"HistoryMax": "int", "HistoryTTL": "int"}},
	{"domains/header_events.go", "HeaderEvent", map[string]string{"Operation": "HeaderEventType", "Header": "*HeaderEventDetails"}},
	{"domains/header_events.go", "HeaderEventDetails", map[string]string{"Height": "int32", "Hash": "string", "Version": "int32", "MerkleRoot": "string",
		"Timestamp": "time.Time", "Nonce": "uint32", "State": "HeaderState", "CumulatedWork": "*big.Int", "PreviousBlock": "string"}},
}

// READ table: Go field ↦ Lean field, per kind of the variable it is read from
var ntRead = map[string]map[string]string{
	"notifier": {"channels": "channels"},
	"wschan":   {"historySize": "historySize", "historySeconds": "historySeconds"},
	"wscfg":    {"HistoryMax": "historyMax", "HistoryTTL": "historyTTL"},
	"row": {"Height": "height", "Hash": "hash", "Version": "version", "MerkleRoot": "merkle", "Timestamp": "time", "Nonce": "nonce",
		"State": "st", "CumulatedWork": "cum", "PreviousBlock": "prev"},
}
var ntHashFields = map[string]bool{"Hash": true, "MerkleRoot": true, "PreviousBlock": true}

// WRITE tables: composite literal type ↦ Go field ↦ Lean field ("-" = skipped, "?" prefix = wrapped in `some`)
var ntWrite = map[string]struct {
	lean   string
	order  []string
	fields map[string]string
}{
	"Notifier":    {"Notifier C", []string{"channels"}, map[string]string{"channels": "channels"}},
	"wsChan":      {"WsChan", []string{"historySize", "historySeconds"}, map[string]string{"publisher": "-", "log": "-", "historySize": "historySize", "historySeconds": "historySeconds"}},
	"HeaderEvent": {"HeaderEvent H", []string{"Operation", "Header"}, map[string]string{"Operation": "operation", "Header": "?header"}},
	"HeaderEventDetails": {"HeaderEventDetails H", []string{"Height", "Hash", "Version", "MerkleRoot", "Timestamp", "Nonce", "State", "CumulatedWork", "PreviousBlock"},
		map[string]string{"Height": "height", "Hash": "hash", "Version": "version", "MerkleRoot": "merkleRoot", "Timestamp": "timestamp", "Nonce": "nonce",
			"State": "state", "CumulatedWork": "cumulatedWork", "PreviousBlock": "previousBlock"}},
}

// the functions: signature table (the bodies are translated)
type ntFn struct {
	file, recvTy, name, lean string
	recvKind                 string            // kind of the receiver variable
	params                   map[string]string // Go parameter name ↦ kind ("-" = dropped)
	paramTy                  map[string]string // Go parameter name ↦ Go type text (checked)
	order                    []string
	monad, result            string // Lean monad, Lean result type (without a threaded receiver)
	env                      bool
}

var ntKindTy = map[string]string{"notifier": "Notifier C", "chan": "C", "event": "E", "wschan": "WsChan", "wscfg": "WsCfg", "bytes": "Option (Payload E)", "row": "Row H"}

var ntFns = []*ntFn{
	{file: "notification/notification.go", name: "NewNotifier", lean: "NewNotifier", monad: "NotM C E", result: "Notifier C"},
	{file: "notification/notification.go", recvTy: "Notifier", recvKind: "notifier", name: "AddChannel", lean: "Notifier_AddChannel",
		params: map[string]string{"ch": "chan"}, paramTy: map[string]string{"ch": "Channel"}, order: []string{"ch"}, monad: "NotM C E", result: ""},
	{file: "notification/notification.go", recvTy: "Notifier", recvKind: "notifier", name: "Notify", lean: "Notifier_Notify",
		params: map[string]string{"event": "event"}, paramTy: map[string]string{"event": "any"}, order: []string{"event"}, monad: "NotM C E", result: ""},
	{file: "notification/websocket.go", name: "NewWebsocketChannel", lean: "NewWebsocketChannel",
		params:  map[string]string{"log": "-", "publisher": "-", "cfg": "wscfg"},
		paramTy: map[string]string{"log": "*zerolog.Logger", "publisher": "WebsocketPublisher", "cfg": "*config.WebsocketConfig"},
		order:   []string{"log", "publisher", "cfg"}, monad: "WsM E", result: "WsChan", env: true},
	{file: "notification/websocket.go", recvTy: "wsChan", recvKind: "wschan", name: "publishToHeadersChannel", lean: "wsChan_publishToHeadersChannel",
		params: map[string]string{"bytes": "bytes"}, paramTy: map[string]string{"bytes": "[]byte"}, order: []string{"bytes"}, monad: "WsM E", result: "Option WsErr", env: true},
	{file: "notification/websocket.go", recvTy: "wsChan", recvKind: "wschan", name: "Notify", lean: "wsChan_Notify",
		params: map[string]string{"event": "event"}, paramTy: map[string]string{"event": "Event"}, order: []string{"event"}, monad: "WsM E", result: "", env: true},
	{file: "domains/header_events.go", name: "HeaderAdded", lean: "HeaderAdded",
		params: map[string]string{"h": "row"}, paramTy: map[string]string{"h": "*BlockHeader"}, order: []string{"h"}, monad: "Id", result: "HeaderEvent H"},
}

var ntLogRe = regexp.MustCompile(`^\w+\.log\.(Trace|Debug|Info|Warn|Error)\(\)\.(Msgf|Msg)$`)
var ntBlockingSel = map[string]bool{"Lock": true, "RLock": true, "Wait": true, "Acquire": true}

type ntVar struct{ lean, kind string }

type ntGen struct {
	fset     *token.FileSet
	files    map[string]*ast.File
	consts   map[string]string
	fn       *ntFn
	recv     string
	scopes   []map[string]*ntVar
	tmp      int
	mutated  bool
	inLoop   bool
	byRecvFn map[string]*ntFn
}

func (g *ntGen) fail(n ast.Node, msg string, a ...any) {
	panic(ntErr{fmt.Sprintf("%s: unsupported: %s", g.fset.Position(n.Pos()), fmt.Sprintf(msg, a...))})
}

func ntPad(n int) string { return strings.Repeat("  ", n) }

func ntPath(e ast.Expr) string {
	switch x := e.(type) {
	case *ast.Ident:
		return x.Name
	case *ast.SelectorExpr:
		return ntPath(x.X) + "." + x.Sel.Name
	case *ast.CallExpr:
		if len(x.Args) == 0 {
			return ntPath(x.Fun) + "()"
		}
	}
	return "?"
}

// the identifier a chain of selections and calls starts from
func ntRoot(e ast.Expr) string {
	for {
		switch x := e.(type) {
		case *ast.CallExpr:
			e = x.Fun
		case *ast.SelectorExpr:
			e = x.X
		case *ast.Ident:
			return x.Name
		default:
			return ""
		}
	}
}

func (g *ntGen) load(rel string) *ast.File {
	if f, ok := g.files[rel]; ok {
		return f
	}
	p := filepath.Join(*repo, rel)
	src, err := os.ReadFile(p)
	if err != nil {
		panic(ntErr{err.Error()})
	}
	f, err := parser.ParseFile(g.fset, p, src, 0)
	if err != nil {
		panic(ntErr{err.Error()})
	}
	g.files[rel] = f
	for _, d := range f.Decls {
		if gd, ok := d.(*ast.GenDecl); ok && gd.Tok == token.CONST {
			for _, sp := range gd.Specs {
				vs := sp.(*ast.ValueSpec)
				for i, n := range vs.Names {
					if i < len(vs.Values) {
						if bl, ok := vs.Values[i].(*ast.BasicLit); ok && bl.Kind == token.STRING {
							if v, err := strconv.Unquote(bl.Value); err == nil {
								g.consts[rel+":"+n.Name] = v
							}
						}
					}
				}
			}
		}
	}
	return f
}

func (g *ntGen) checkStructs() {
	for _, want := range ntStructs {
		f := g.load(want.file)
		var st *ast.StructType
		var at ast.Node = f
		for _, d := range f.Decls {
			if gd, ok := d.(*ast.GenDecl); ok && gd.Tok == token.TYPE {
				for _, sp := range gd.Specs {
					ts := sp.(*ast.TypeSpec)
					if ts.Name.Name == want.name {
						st, _ = ts.Type.(*ast.StructType)
						at = ts
					}
				}
			}
		}
		if st == nil {
			g.fail(at, "struct type %s not found", want.name)
		}
		got := map[string]string{}
		for _, fl := range st.Fields.List {
			if len(fl.Names) == 0 {
				g.fail(fl, "embedded field in %s", want.name)
			}
			for _, n := range fl.Names {
				got[n.Name] = types.ExprString(fl.Type)
			}
		}
		for n, ty := range want.fields {
			if got[n] != ty {
				g.fail(at, "field %s.%s has type %q, the table expects %q", want.name, n, got[n], ty)
			}
		}
		for n, ty := range got {
			if _, ok := want.fields[n]; !ok {
				g.fail(at, "field %s.%s (%s) is not in the struct table", want.name, n, ty)
			}
		}
	}
}

// ---------- scopes ----------

func (g *ntGen) lookup(name string) *ntVar {
	for i := len(g.scopes) - 1; i >= 0; i-- {
		if v, ok := g.scopes[i][name]; ok {
			return v
		}
	}
	return nil
}

func (g *ntGen) inUse(lean string) bool {
	for _, sc := range g.scopes {
		for _, v := range sc {
			if v.lean == lean {
				return true
			}
		}
	}
	return false
}

func (g *ntGen) declare(name, kind string) string {
	lean := admName(name)
	if name == "env" || g.inUse(lean) {
		for {
			g.tmp++
			lean = fmt.Sprintf("%s_%d", name, g.tmp)
			if !g.inUse(lean) {
				break
			}
		}
	}
	g.scopes[len(g.scopes)-1][name] = &ntVar{lean, kind}
	return lean
}

func (g *ntGen) bind(e ast.Expr, kind string) string {
	id, ok := e.(*ast.Ident)
	if !ok {
		g.fail(e, "assignment target")
	}
	if id.Name == "_" {
		return "_"
	}
	if v, ok := g.scopes[len(g.scopes)-1][id.Name]; ok {
		v.kind = kind
		return v.lean
	}
	return g.declare(id.Name, kind)
}

// ---------- expressions ----------

type ntVal struct {
	s, kind string
	multi   []string // kinds of a result list; s is then an action
	action  bool
}

func (g *ntGen) expr(e ast.Expr) ntVal {
	switch x := e.(type) {
	case *ast.ParenExpr:
		return g.expr(x.X)
	case *ast.BasicLit:
		switch x.Kind {
		case token.INT:
			return ntVal{s: "(" + x.Value + " : Int)", kind: "int"}
		case token.STRING:
			if v, err := strconv.Unquote(x.Value); err == nil {
				return ntVal{s: leanStr(v), kind: "str"}
			}
		}
	case *ast.Ident:
		if x.Name == "nil" {
			return ntVal{s: "none", kind: "nil"}
		}
		if v := g.lookup(x.Name); v != nil {
			if v.kind == "-" {
				g.fail(e, "use of the dropped value %s", x.Name)
			}
			return ntVal{s: v.lean, kind: v.kind}
		}
		if c, ok := g.consts[g.fn.file+":"+x.Name]; ok {
			return ntVal{s: leanStr(c), kind: "str"}
		}
		g.fail(e, "identifier %s", x.Name)
	case *ast.SelectorExpr:
		base := g.expr(x.X)
		if f, ok := ntRead[base.kind][x.Sel.Name]; ok {
			k := "val"
			if base.kind == "notifier" {
				k = "chans"
			}
			if base.kind == "row" && ntHashFields[x.Sel.Name] {
				k = "hash"
			}
			return ntVal{s: base.s + "." + f, kind: k}
		}
		g.fail(e, "field %s of a value of kind %q (not in the READ table)", x.Sel.Name, base.kind)
	case *ast.UnaryExpr:
		if x.Op == token.AND {
			if cl, ok := x.X.(*ast.CompositeLit); ok {
				return g.composite(cl)
			}
		}
		g.fail(e, "unary %s", x.Op)
	case *ast.CompositeLit:
		return g.composite(x)
	case *ast.BinaryExpr:
		switch x.Op {
		case token.EQL, token.NEQ:
			l, r := g.expr(x.X), g.expr(x.Y)
			if l.kind == "nil" {
				l, r = r, l
			}
			if r.kind != "nil" || (l.kind != "err" && l.kind != "bytes") {
				g.fail(e, "comparison other than with nil")
			}
			if x.Op == token.EQL {
				return ntVal{s: l.s + ".isNone", kind: "bool"}
			}
			return ntVal{s: l.s + ".isSome", kind: "bool"}
		case token.MUL: // time.Duration(x) * time.Minute
			if c, ok := x.X.(*ast.CallExpr); ok && ntPath(c.Fun) == "time.Duration" && len(c.Args) == 1 && ntPath(x.Y) == "time.Minute" {
				v := g.expr(c.Args[0])
				if v.kind != "val" && v.kind != "int" {
					g.fail(e, "duration of a value of kind %q", v.kind)
				}
				return ntVal{s: "(durMinutes " + v.s + ")", kind: "dur"}
			}
		}
		g.fail(e, "operator %s", x.Op)
	case *ast.CallExpr:
		return g.call(x)
	}
	g.fail(e, "expression")
	return ntVal{}
}

func (g *ntGen) composite(x *ast.CompositeLit) ntVal {
	tn := strings.TrimPrefix(types.ExprString(x.Type), "domains.")
	tab, ok := ntWrite[tn]
	if !ok {
		g.fail(x, "composite literal of type %s", tn)
	}
	given := map[string]string{}
	for _, el := range x.Elts {
		kv, ok := el.(*ast.KeyValueExpr)
		if !ok {
			g.fail(el, "positional composite literal")
		}
		fn := ntPath(kv.Key)
		lf, ok := tab.fields[fn]
		if !ok {
			g.fail(kv, "field %s of %s (not in the WRITE table)", fn, tn)
		}
		if lf == "-" { // SKIP LIST: publisher, log
			v := kv.Value
			if u, ok := v.(*ast.UnaryExpr); ok && u.Op == token.AND {
				v = u.X
			}
			if _, ok := v.(*ast.Ident); !ok {
				g.fail(kv, "value of the skipped field %s", fn)
			}
			continue
		}
		if _, dup := given[fn]; dup {
			g.fail(kv, "field %s given twice", fn)
		}
		v := g.expr(kv.Value)
		if v.action || v.multi != nil {
			g.fail(kv, "call with an effect inside a literal")
		}
		if strings.HasPrefix(lf, "?") {
			given[fn] = lf[1:] + " := (some " + v.s + ")"
		} else {
			given[fn] = lf + " := " + v.s
		}
	}
	var parts []string
	for _, fn := range tab.order {
		p, ok := given[fn]
		if !ok {
			g.fail(x, "field %s of %s is omitted", fn, tn)
		}
		parts = append(parts, p)
	}
	kind := map[string]string{"Notifier": "notifier", "wsChan": "wschan", "HeaderEvent": "hevent", "HeaderEventDetails": "hdetails"}[tn]
	return ntVal{s: "({ " + strings.Join(parts, ", ") + " } : " + tab.lean + ")", kind: kind}
}

func (g *ntGen) call(x *ast.CallExpr) ntVal {
	p := ntPath(x.Fun)
	n := len(x.Args)
	switch {
	case p == "make" && n == 2 && types.ExprString(x.Args[0]) == "[]Channel" && types.ExprString(x.Args[1]) == "0":
		return ntVal{s: "([] : List C)", kind: "chans"}
	case p == "append" && n == 2:
		xs, v := g.expr(x.Args[0]), g.expr(x.Args[1])
		if xs.kind != "chans" || v.kind != "chan" {
			g.fail(x, "append of kinds %q, %q", xs.kind, v.kind)
		}
		return ntVal{s: "(" + xs.s + " ++ [" + v.s + "])", kind: "chans"}
	case p == "json.Marshal" && n == 1:
		v := g.expr(x.Args[0])
		if v.kind != "event" {
			g.fail(x, "json.Marshal of a value of kind %q", v.kind)
		}
		return ntVal{s: "jsonMarshal env " + v.s, multi: []string{"bytes", "err"}, action: true}
	case p == "centrifuge.WithHistory" && n == 2:
		a, b := g.expr(x.Args[0]), g.expr(x.Args[1])
		if (a.kind != "val" && a.kind != "int") || b.kind != "dur" {
			g.fail(x, "WithHistory arguments of kinds %q, %q", a.kind, b.kind)
		}
		return ntVal{s: "(withHistory " + a.s + " " + b.s + ")", kind: "hist"}
	}
	sel, ok := x.Fun.(*ast.SelectorExpr)
	if !ok {
		g.fail(x, "call %s (not in the primitive table)", p)
	}
	if sel.Sel.Name == "String" && n == 0 {
		v := g.expr(sel.X)
		if v.kind == "hash" {
			return ntVal{s: v.s, kind: "hashstr"}
		}
	}
	if g.recv != "" && g.fn.recvTy == "wsChan" && p == g.recv+".publisher.Publish" && n == 3 {
		ch, d, o := g.expr(x.Args[0]), g.expr(x.Args[1]), g.expr(x.Args[2])
		if ch.kind != "str" || d.kind != "bytes" || o.kind != "hist" {
			g.fail(x, "Publish arguments of kinds %q, %q, %q", ch.kind, d.kind, o.kind)
		}
		return ntVal{s: "publish env " + ch.s + " " + d.s + " " + o.s, multi: []string{"unit", "err"}, action: true}
	}
	if g.recv != "" && ntPath(sel.X) == g.recv { // a translated method of the same receiver
		if callee, ok := g.byRecvFn[g.fn.recvTy+"."+sel.Sel.Name]; ok && callee != g.fn && callee.result != "" {
			args := []string{}
			if callee.env {
				args = append(args, "env")
			}
			args = append(args, g.lookup(g.recv).lean)
			if n != len(callee.order) {
				g.fail(x, "argument count of %s", callee.lean)
			}
			for i, a := range x.Args {
				v := g.expr(a)
				if v.kind != callee.params[callee.order[i]] || v.action {
					g.fail(a, "argument of kind %q for %s", v.kind, callee.lean)
				}
				args = append(args, v.s)
			}
			return ntVal{s: callee.lean + " " + strings.Join(args, " "), multi: []string{"err"}, action: true}
		}
	}
	g.fail(x, "call %s (not in the primitive table)", p)
	return ntVal{}
}

// ---------- statements ----------

type ntCont func(ind int) string

func (g *ntGen) block(list []ast.Stmt, ind int, k ntCont) string {
	if len(list) == 0 {
		return k(ind)
	}
	return g.stmt(list[0], ind, func(i int) string { return g.block(list[1:], i, k) })
}

func (g *ntGen) scoped(list []ast.Stmt, ind int, k ntCont) string {
	depth := len(g.scopes)
	g.scopes = append(g.scopes, map[string]*ntVar{})
	s := g.block(list, ind, func(i int) string {
		saved := g.scopes
		g.scopes = append([]map[string]*ntVar{}, saved[:depth]...)
		r := k(i)
		g.scopes = saved
		return r
	})
	g.scopes = g.scopes[:depth]
	return s
}

func (g *ntGen) chanNotify(c *ast.CallExpr) (string, string, bool) {
	sel, ok := c.Fun.(*ast.SelectorExpr)
	if !ok || sel.Sel.Name != "Notify" || len(c.Args) != 1 {
		return "", "", false
	}
	id, ok := sel.X.(*ast.Ident)
	if !ok {
		return "", "", false
	}
	v := g.lookup(id.Name)
	if v == nil || v.kind != "chan" {
		return "", "", false
	}
	ev := g.expr(c.Args[0])
	if ev.kind != "event" {
		g.fail(c, "ch.Notify of a value of kind %q", ev.kind)
	}
	return v.lean, ev.s, true
}

func (g *ntGen) stmt(s ast.Stmt, ind int, k ntCont) string {
	switch x := s.(type) {
	case *ast.ReturnStmt:
		if g.inLoop {
			g.fail(s, "return inside a range loop")
		}
		if len(x.Results) == 0 {
			if g.fn.result != "" {
				g.fail(s, "return without a value")
			}
			return ntPad(ind) + g.finish()
		}
		if len(x.Results) != 1 || g.fn.result == "" {
			g.fail(s, "number of results")
		}
		v := g.expr(x.Results[0])
		if v.action || v.multi != nil {
			g.fail(s, "return of a call with an effect")
		}
		return ntPad(ind) + "pure " + v.s
	case *ast.AssignStmt:
		if len(x.Rhs) != 1 {
			g.fail(s, "assignment shape")
		}
		if sel, ok := x.Lhs[0].(*ast.SelectorExpr); ok && len(x.Lhs) == 1 && x.Tok == token.ASSIGN { // recv.field = e
			if g.recv == "" || ntPath(sel.X) != g.recv {
				g.fail(s, "field assignment other than on the receiver")
			}
			rv := g.lookup(g.recv)
			f, ok := ntRead[rv.kind][sel.Sel.Name]
			if !ok {
				g.fail(s, "field %s is not in the READ table", sel.Sel.Name)
			}
			v := g.expr(x.Rhs[0])
			if v.action || v.multi != nil {
				g.fail(s, "call with an effect in a field assignment")
			}
			g.mutated = true
			return ntPad(ind) + "let " + rv.lean + " := { " + rv.lean + " with " + f + " := " + v.s + " }\n" + k(ind)
		}
		if x.Tok != token.DEFINE {
			g.fail(s, "assignment with %s", x.Tok)
		}
		// SKIP LIST: a local made from the logger
		if len(x.Lhs) == 1 {
			if c, ok := x.Rhs[0].(*ast.CallExpr); ok && ntRoot(c) != "" && strings.HasSuffix(types.ExprString(c.Fun), ".Logger") {
				if v := g.lookup(ntRoot(c)); v != nil && v.kind == "-" && ntRoot(c) == "log" {
					if id, ok := x.Lhs[0].(*ast.Ident); ok {
						g.scopes[len(g.scopes)-1][id.Name] = &ntVar{"", "-"}
						return k(ind)
					}
				}
			}
		}
		v := g.expr(x.Rhs[0])
		if v.multi != nil {
			if len(v.multi) != len(x.Lhs) {
				g.fail(s, "assignment shape")
			}
			var names []string
			for i, l := range x.Lhs {
				names = append(names, g.bind(l, v.multi[i]))
			}
			lhs := names[0]
			if len(names) > 1 {
				lhs = "(" + strings.Join(names, ", ") + ")"
			}
			return ntPad(ind) + "let " + lhs + " ← " + v.s + "\n" + k(ind)
		}
		if len(x.Lhs) != 1 || v.kind == "nil" {
			g.fail(s, "assignment shape")
		}
		return ntPad(ind) + "let " + g.bind(x.Lhs[0], v.kind) + " := " + v.s + "\n" + k(ind)
	case *ast.IfStmt:
		if x.Init != nil {
			as, ok := x.Init.(*ast.AssignStmt)
			if !ok {
				g.fail(x.Init, "if-init statement")
			}
			noInit := *x
			noInit.Init = nil
			depth := len(g.scopes)
			g.scopes = append(g.scopes, map[string]*ntVar{})
			r := g.stmt(as, ind, func(i int) string {
				return g.stmt(&noInit, i, func(j int) string {
					saved := g.scopes
					g.scopes = append([]map[string]*ntVar{}, saved[:depth]...)
					t := k(j)
					g.scopes = saved
					return t
				})
			})
			g.scopes = g.scopes[:depth]
			return r
		}
		c := g.expr(x.Cond)
		if c.kind != "bool" {
			g.fail(x.Cond, "condition of kind %q", c.kind)
		}
		thenS := g.scoped(x.Body.List, ind+1, k)
		var elseS string
		switch e := x.Else.(type) {
		case nil:
			elseS = k(ind + 1)
		case *ast.BlockStmt:
			elseS = g.scoped(e.List, ind+1, k)
		default:
			g.fail(x.Else, "else-if")
		}
		return ntPad(ind) + "if " + c.s + " then\n" + thenS + "\n" + ntPad(ind) + "else\n" + elseS
	case *ast.RangeStmt:
		if g.inLoop || x.Tok != token.DEFINE || x.Key == nil || ntPath(x.Key) != "_" || x.Value == nil {
			g.fail(s, "range other than `for _, x := range xs` (not nested)")
		}
		xs := g.expr(x.X)
		if xs.kind != "chans" {
			g.fail(x.X, "range over a value of kind %q", xs.kind)
		}
		ast.Inspect(x.Body, func(n ast.Node) bool {
			switch y := n.(type) {
			case *ast.ReturnStmt, *ast.BranchStmt, *ast.DeferStmt, *ast.LabeledStmt, *ast.ForStmt, *ast.RangeStmt, *ast.FuncLit:
				g.fail(n, "%T inside a range loop", n)
			case *ast.AssignStmt:
				if y.Tok != token.DEFINE {
					g.fail(n, "assignment to an outer variable inside a range loop")
				}
			}
			return true
		})
		depth := len(g.scopes)
		g.scopes = append(g.scopes, map[string]*ntVar{})
		v := g.bind(x.Value, "chan")
		g.inLoop = true
		body := g.block(x.Body.List, ind+1, func(i int) string { return ntPad(i) + "pure ()" })
		g.inLoop = false
		g.scopes = g.scopes[:depth]
		return ntPad(ind) + "forRange " + xs.s + " (fun " + v + " => do\n" + body + ")\n" + k(ind)
	case *ast.GoStmt:
		if ch, ev, ok := g.chanNotify(x.Call); ok {
			return ntPad(ind) + "spawn (Task.chNotify " + ch + " " + ev + ")\n" + k(ind)
		}
		g.fail(s, "go statement other than `go ch.Notify(event)` on a Channel variable")
	case *ast.SendStmt: // BLOCKING
		return ntPad(ind) + "mayBlock (Blk.op " + leanStr("send "+types.ExprString(x.Chan)) + ")\n" + k(ind)
	case *ast.ExprStmt:
		if u, ok := x.X.(*ast.UnaryExpr); ok && u.Op == token.ARROW { // BLOCKING
			return ntPad(ind) + "mayBlock (Blk.op " + leanStr("receive "+types.ExprString(u.X)) + ")\n" + k(ind)
		}
		c, ok := x.X.(*ast.CallExpr)
		if !ok {
			g.fail(s, "expression statement")
		}
		p := ntPath(c.Fun)
		if ntLogRe.MatchString(p) && g.recv != "" && strings.HasPrefix(p, g.recv+".") { // SKIP LIST: logging
			for _, a := range c.Args {
				ast.Inspect(a, func(n ast.Node) bool {
					if _, bad := n.(*ast.CallExpr); bad {
						g.fail(a, "argument of a skipped call that is not side-effect free")
					}
					return true
				})
			}
			return k(ind)
		}
		if ch, ev, ok := g.chanNotify(c); ok { // BLOCKING: the caller runs the channel itself
			return ntPad(ind) + "mayBlock (Blk.chNotify " + ch + " " + ev + ")\n" + k(ind)
		}
		if sel, ok := c.Fun.(*ast.SelectorExpr); ok && (ntBlockingSel[sel.Sel.Name] || p == "time.Sleep") { // BLOCKING
			return ntPad(ind) + "mayBlock (Blk.op " + leanStr(types.ExprString(c.Fun)) + ")\n" + k(ind)
		}
		g.fail(s, "call %s as a statement", p)
	}
	g.fail(s, "statement %T", s)
	return ""
}

// what a function without a Go result returns: the receiver when it was assigned through, else ()
func (g *ntGen) finish() string {
	if g.mutated {
		return "pure " + g.lookup(g.recv).lean
	}
	return "pure ()"
}

func (g *ntGen) function(fn *ntFn) string {
	f := g.load(fn.file)
	var decl *ast.FuncDecl
	for _, d := range f.Decls {
		fd, ok := d.(*ast.FuncDecl)
		if !ok || fd.Name.Name != fn.name || fd.Body == nil {
			continue
		}
		if fn.recvTy == "" && fd.Recv == nil {
			decl = fd
		}
		if fn.recvTy != "" && fd.Recv != nil && len(fd.Recv.List) == 1 && types.ExprString(fd.Recv.List[0].Type) == "*"+fn.recvTy {
			decl = fd
		}
	}
	if decl == nil {
		panic(ntErr{fmt.Sprintf("%s: unsupported: function %s.%s not found", filepath.Join(*repo, fn.file), fn.recvTy, fn.name)})
	}
	g.fn, g.recv, g.tmp, g.mutated, g.inLoop = fn, "", 0, false, false
	g.scopes = []map[string]*ntVar{{}}
	sig := "def " + fn.lean
	if fn.env {
		sig += " (env : WsEnv E)"
	}
	if fn.recvTy != "" {
		if len(decl.Recv.List[0].Names) != 1 {
			g.fail(decl, "unnamed receiver")
		}
		g.recv = decl.Recv.List[0].Names[0].Name
		sig += " (" + g.declare(g.recv, fn.recvKind) + " : " + ntKindTy[fn.recvKind] + ")"
	}
	seen := 0
	for _, p := range decl.Type.Params.List {
		for _, n := range p.Names {
			kind, ok := fn.params[n.Name]
			if !ok || fn.paramTy[n.Name] != types.ExprString(p.Type) {
				g.fail(p, "parameter %s %s is not in the signature table", n.Name, types.ExprString(p.Type))
			}
			seen++
			if kind == "-" {
				g.scopes[0][n.Name] = &ntVar{"", "-"}
				continue
			}
			sig += " (" + g.declare(n.Name, kind) + " : " + ntKindTy[kind] + ")"
		}
	}
	if seen != len(fn.params) {
		g.fail(decl, "parameter list differs from the signature table")
	}
	nres := 0
	if decl.Type.Results != nil {
		nres = len(decl.Type.Results.List)
	}
	if (fn.result != "") != (nres == 1) {
		g.fail(decl, "result list differs from the signature table")
	}
	g.scopes = append(g.scopes, map[string]*ntVar{})
	// a first pass finds out whether the receiver is assigned through (the result type depends on it)
	ast.Inspect(decl.Body, func(n ast.Node) bool {
		if as, ok := n.(*ast.AssignStmt); ok && as.Tok == token.ASSIGN {
			if sel, ok := as.Lhs[0].(*ast.SelectorExpr); ok && g.recv != "" && ntPath(sel.X) == g.recv {
				g.mutated = true
			}
		}
		return true
	})
	body := g.block(decl.Body.List, 1, func(i int) string {
		if fn.result != "" {
			g.fail(decl, "missing return at the end of %s", fn.name)
		}
		return ntPad(i) + g.finish()
	})
	res := fn.result
	if res == "" {
		res = "Unit"
		if g.mutated {
			res = ntKindTy[fn.recvKind]
		}
	}
	return "/-- " + fn.file + ": " + fn.recvTy + " " + fn.name + " -/\n" + sig + " : " + fn.monad + " (" + res + ") := do\n" + body + "\n"
}

func genNotifier() (res string, err error) {
	defer func() {
		if r := recover(); r != nil {
			if e, ok := r.(ntErr); ok {
				res, err = "", fmt.Errorf("%s", e.msg)
				return
			}
			panic(r)
		}
	}()
	g := &ntGen{fset: token.NewFileSet(), files: map[string]*ast.File{}, consts: map[string]string{}, byRecvFn: map[string]*ntFn{}}
	g.checkStructs()
	for _, fn := range ntFns {
		g.byRecvFn[fn.recvTy+"."+fn.name] = fn
	}
	var b strings.Builder
	b.WriteString(genHeader)
	b.WriteString("-- the event fan-out of C11 (Notifier, websocket channel, HeaderAdded) translated by harness/cmd/extract/gen_notifier.go\n")
	b.WriteString("import BHS.Model.NotifierPrim\n\nset_option linter.unusedVariables false\n\nnamespace BHS.Gen.Notifier\nopen BHS.Chain BHS.NotifierPrim\nvariable {C E H : Type}\n\n")
	for _, fn := range ntFns {
		b.WriteString(g.function(fn) + "\n")
	}
	b.WriteString("end BHS.Gen.Notifier\n")
	return b.String(), nil
}
