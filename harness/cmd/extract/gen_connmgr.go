package main

// Gen.ConnMgr: the connection manager — transports/p2p/connmgr/connmanager.go: the cases of the connHandler event loop
// (registerPending, handleConnected, handleDisconnected, handleFailed), handleFailedConn, registerFailedConnectionTo,
// registerFailedConnection, the failed-attempts helpers, NewConnReq, Connect, Disconnect, Remove — TRANSLATED statement by
// statement from the Go source into Lean functions over the state `G` (= the hand model's `St` plus request state, retry
// counters, timers; lean/BHS/Model/ConnMgrPrim.lean). Refinement theorems: lean/BHS/Props/ConnMgrGen.lean.
// (Statement part of the translator: gen_connmgr_stmt.go.)
//
// SUBSET (everything else: `file:line: unsupported: …`, non-zero exit, the module is replaced by an empty one):
//   functions    methods of *ConnManager without result (-> G) or with result bool whose last statement is `return e`
//                (-> Bool); parameters *ConnReq (-> Req), string (-> Nat, an address key), uint64 (-> Nat). Each Go method
//                is one Lean def, emitted after the defs it calls (recursion is unsupported). Each `case T:` of the type
//                switch in connHandler's `for { select { case req := <-cm.requests: switch msg := req.(type) {…} case
//                <-cm.quit: break out } }` is the def connHandler_T over the modelled fields of struct T (m_<field>);
//                `continue` = the case is done. NewConnReq is cut at its top-level statement `…:= cm.cfg.GetNewAddress()`
//                into NewConnReq_begin (ends by parking the request id in `live`) and NewConnReq_resume (a function of the
//                parked request and of the environment's answers addr_ : Option Nat, dial_ : Bool).
//   statements   if / else-if / else with optional init, bare `return`, `continue`, `x := e` / `x = e` (Nat, Int, Bool
//                locals), alias `r := msg.c`, `c := &ConnReq{}`, field stores `r.Addr = a`, `r.retryCount = e`, counter and
//                map stores, `++` on counters, `delete(m, k)`, one- and two-value lookups in pending / conns, the two
//                `select` shapes of the table, `go f(…)` and `time.AfterFunc(d, func() {…})` of the table, `defer` of the
//                skip list. No loops, no switch, no goto, no labels. Control flow in continuation style: the statements
//                after an `if` are translated once per fall-through branch.
//   expressions  integer literals, == != < <= > >= on Nat / durations, `*` on durations, ! && || (short-circuit, folded
//                when one side is statically known), nil tests of errors / addresses / callbacks, `s != ""`.
//   addresses    `r.Addr` is `Option Nat`; the first statement that tests it (`== nil`, `.String()`) is wrapped in
//                `match r.addr with | some r_addr => … | none => …` and translated once per branch with the answer
//                known; `r.Addr.String()` on the nil branch ends the path with `nilDeref g` (Go panics).
//
// PRIMITIVE TABLE (Go -> Lean; names of BHS.Model.ConnMgr / ConnMgrPrim)
//   pending   map[uint64]*ConnReq (local of connHandler) -> g.pending : List Nat (key set). pending[k] = r -> ins;
//             delete -> rem; `_, ok := pending[k]` -> decide (k ∈ g.pending); `r, ok := pending[k]` -> if on the same
//             test, r has only its id (its Addr is not modelled: a use is unsupported). In every store the key must be the
//             id of the stored request (`r.id`, or the key r was looked up with), else unsupported.
//   conns     map[uint64]*ConnReq -> g.conns : List (id × address). conns[k] = r -> putConn g.conns r.id r.addr;
//             delete -> delConn; `r, ok := conns[k]` -> match lookupConn g.conns k with some r_addr (ok) / none (!ok);
//             len(conns) -> g.conns.length (uint32(…)/uint64(…) conversions are the identity: no wrap modelled).
//   cm.failedAttempts map[string]<uintN> -> g.fails (total, missing = 0); m[k]++ wraps at 2^N (N read off the struct);
//   cm.globalFailedAttempts, cm.connReqCount (uint64: no wrap modelled) -> g.gfails, g.nextId; cm.stop -> g.stop.
//   atomic.LoadInt32(&cm.stop) -> g.stop; atomic.LoadUint64(&r.id) / r.id -> r.id;
//   atomic.StoreUint64(&r.id, atomic.AddUint64(&cm.connReqCount, n)) -> nextId += n; r.id := nextId; then newObj (r was
//             made by &ConnReq{} in this function) or adoptObj (r is a caller's object).
//   r.updateState(K) -> g.rstate[r.id] := K; r.State() -> g.rstate r.id; ConnState constants read off the iota block;
//   r.Permanent -> g.perm r.id; r.retryCount -> g.retryCnt r.id (++ wraps at the field's width).
//   cm.cfg.TargetOutbound -> cfg_.target; cm.cfg.RetryDuration -> cfg_.retryDuration; maxFailedAttempts -> cfg_.maxFailed
//             (the C18 theorems instantiate it with the regenerated constant); maxRetryDuration -> evaluated constant (ns);
//             cm.cfg.GetNewAddress/BanAddress/OnDisconnection ==/!= nil -> cfg_.getNewAddress / banAddr / onDisconnection.
//   time.Duration(n) -> Int.ofNat n; a * b on durations -> durMul (int64 wrap).
//   r.Addr.String() != "" -> true (addresses of the model have a non-empty String()).
//   `addr, err := cm.cfg.GetNewAddress()` -> asks += 1; match addr_ with some addr (err == nil) / none (err != nil);
//   `conn, err := cm.cfg.Dial(r.Addr)`    -> dials += 1; if dial_ (err == nil) else (err != nil); conn is not modelled.
//   cm.cfg.BanAddress(k) -> banned ++ [k];  go cm.cfg.OnDisconnection(r) -> closed := r.id :: closed.
//   `select { case cm.requests <- T{…}: case <-cm.quit: [return] }` -> g := connHandler_T cfg_ g <modelled fields>: the
//             handler takes the message at once (events are atomic, as in the hand model; Stop is not modelled).
//   `select { case <-done: case <-cm.quit: [return] }` -> nothing (the handler closed `done` in the call above).
//   go cm.NewConnReq() -> g := NewConnReq_begin cfg_ g (scheduled at once);
//   time.AfterFunc(d, func() { cm.NewConnReq() }) -> acts ++ [after d newConnReq] AND NewConnReq_begin at once (the hand
//             model does not model the delay); time.AfterFunc(d, func() { cm.Connect(r) }) -> acts ++ [after d (connect r.id)].
// SKIP LIST (not translated; arguments must be side-effect free): cm.log.<Level>().Msgf/Msg(…); (R)Lock/(R)Unlock of
//   cm.failedAttemptsMutex (also deferred: every translated function runs on the handler's side of the model, one event at a
//   time); close(msg.done); cm.wg.Done(); `done := make(chan struct{})`; `err := <x>.conn.Close()` / msg.conn.Close();
//   `r.conn = …`; go cm.cfg.OnConnection(…); an `if` whose branches consist of skipped statements only.

import (
	"fmt"
	"go/ast"
	"go/token"
	"go/types"
	"regexp"
	"strconv"
	"strings"
)

func init() { register("ConnMgr", genConnMgr) }

type cmgKind int

const (
	ckBad   cmgKind = iota
	ckNat           // ids, counters, ConnState values
	ckInt           // time.Duration (ns)
	ckBool          //
	ckReq           // *ConnReq
	ckKey           // string: an address key
	ckAddr          // net.Addr value
	ckErr           // error, statically known
	ckNil           //
	ckEmpty         // ""
	ckFn            // a callback of cm.cfg (only compared with nil)
	ckSkip          // not modelled (chan, net.Conn)
	ckMsg           // the message of a type-switch clause
	ckMap           // pending / conns
)

type cmgVal struct {
	lean   string
	k      cmgKind
	konst  *bool // ckBool: statically known; ckErr: true = err != nil
	why    string
	id     int               // identity of the Go variable (scoping)
	obj    int               // ckReq / ckAddr: the request object
	idLean string            // ckReq: Lean text of its id
	fresh  bool              // ckReq: made by &ConnReq{} in this function
	fields map[string]cmgVal // ckMsg
}

// what is statically known of r.Addr on the current path
type cmgAddr struct {
	state int    // 0 unknown, 1 some, 2 nil, 3 not modelled
	lean  string // state 1: Lean name of the address
}

type cmgEnv struct {
	vars map[string]cmgVal
	addr map[int]cmgAddr
}

func (e *cmgEnv) clone() *cmgEnv {
	n := &cmgEnv{vars: map[string]cmgVal{}, addr: map[int]cmgAddr{}}
	for k, v := range e.vars {
		n.vars[k] = v
	}
	for k, v := range e.addr {
		n.addr[k] = v
	}
	return n
}

// leaving a scope: outer variables keep what the inner scope assigned to them, names declared inside vanish
func cmgLeave(inner, outer *cmgEnv) *cmgEnv {
	n := &cmgEnv{vars: map[string]cmgVal{}, addr: inner.addr}
	for k, o := range outer.vars {
		if i, ok := inner.vars[k]; ok && i.id == o.id {
			n.vars[k] = i
		} else {
			n.vars[k] = o
		}
	}
	return n
}

type cmgErr struct{ msg string }
type cmgNeed struct { // the statement needs to know whether <lean>.addr is nil
	obj        int
	lean, name string
}
type cmgNilDeref struct{}

type cmgFunc struct {
	name    string
	text    string
	result  string // "G" or "Bool"
	params  []string
	useDial bool
	useAddr bool
	done    bool
}

type cmgTr struct {
	fset     *token.FileSet
	file     *ast.File
	recv     string // receiver name of the function being translated
	funcs    map[string]*cmgFunc
	order    []string
	cur      *cmgFunc
	inCase   bool // inside a handler case: `continue` allowed
	nextID   int
	consts   map[string]string          // ConnState constants and maxRetryDuration
	msgTypes map[string][]cmgField      // message struct -> fields in order
	cases    map[string]*ast.CaseClause // message struct -> clause of the type switch
	msgVar   string                     // `msg`
	mods     map[string]string          // "failedAttempts" / "retryCount" -> modulus ("" = none)
	stack    []string
}

type cmgField struct {
	name, typ string
}

var cmgLogRe = regexp.MustCompile(`^\w+\.log\.(Trace|Debug|Info|Warn|Error)\(\)\.(Msgf|Msg)$`)
var cmgReserved = map[string]bool{"g": true, "cfg_": true, "addr_": true, "dial_": true}

func (t *cmgTr) fail(n ast.Node, msg string) {
	panic(cmgErr{fmt.Sprintf("%s: unsupported: %s", t.fset.Position(n.Pos()), msg)})
}

func (t *cmgTr) fresh(v cmgVal) cmgVal {
	t.nextID++
	v.id = t.nextID
	return v
}

func (t *cmgTr) newObj() int {
	t.nextID++
	return t.nextID
}

func cmgName(s string) string { return admName(s) }

func cmgConst(b bool) cmgVal {
	if b {
		return cmgVal{lean: "true", k: ckBool, konst: admBool(true)}
	}
	return cmgVal{lean: "false", k: ckBool, konst: admBool(false)}
}

func cmgNot(v cmgVal) cmgVal {
	if v.konst != nil {
		return cmgConst(!*v.konst)
	}
	return cmgVal{lean: "(!" + v.lean + ")", k: ckBool}
}

// ---------- side-effect-free check for what is skipped ----------

func (t *cmgTr) pure(e ast.Expr) {
	switch x := e.(type) {
	case nil, *ast.Ident, *ast.BasicLit:
	case *ast.SelectorExpr:
		t.pure(x.X)
	case *ast.ParenExpr:
		t.pure(x.X)
	case *ast.UnaryExpr:
		if x.Op != token.NOT && x.Op != token.AND && x.Op != token.SUB {
			t.fail(e, "operator "+x.Op.String()+" inside skipped code")
		}
		t.pure(x.X)
	case *ast.BinaryExpr:
		t.pure(x.X)
		t.pure(x.Y)
	case *ast.CallExpr:
		sel, ok := x.Fun.(*ast.SelectorExpr)
		if !ok || len(x.Args) != 0 || (sel.Sel.Name != "Error" && sel.Sel.Name != "String") {
			t.fail(e, "call "+admPath(x.Fun)+" inside skipped code (not side-effect free)")
		}
		t.pure(sel.X)
	default:
		t.fail(e, "expression inside skipped code")
	}
}

func (t *cmgTr) isSkipCall(c *ast.CallExpr) bool {
	p := admPath(c.Fun)
	r := t.recv
	switch {
	case cmgLogRe.MatchString(p):
		return true
	case p == r+".failedAttemptsMutex.Lock", p == r+".failedAttemptsMutex.Unlock", p == r+".failedAttemptsMutex.RLock", p == r+".failedAttemptsMutex.RUnlock":
		return len(c.Args) == 0
	case p == r+".wg.Done":
		return len(c.Args) == 0
	case p == "close":
		return len(c.Args) == 1 && t.msgVar != "" && admPath(c.Args[0]) == t.msgVar+".done"
	}
	return false
}

func (t *cmgTr) isConnClose(e ast.Expr) bool {
	c, ok := e.(*ast.CallExpr)
	if !ok || len(c.Args) != 0 {
		return false
	}
	return strings.HasSuffix(admPath(c.Fun), ".conn.Close")
}

// a statement that is not translated
func (t *cmgTr) skippable(s ast.Stmt) bool {
	switch x := s.(type) {
	case *ast.ExprStmt:
		c, ok := x.X.(*ast.CallExpr)
		if !ok || !t.isSkipCall(c) {
			return false
		}
		for _, a := range c.Args {
			t.pure(a)
		}
		return true
	case *ast.DeferStmt:
		return t.isSkipCall(x.Call) && strings.HasSuffix(admPath(x.Call.Fun), "nlock")
	case *ast.GoStmt:
		if admPath(x.Call.Fun) == t.recv+".cfg.OnConnection" {
			for _, a := range x.Call.Args {
				t.pure(a)
			}
			return true
		}
	case *ast.AssignStmt:
		if len(x.Lhs) != 1 || len(x.Rhs) != 1 {
			return false
		}
		if x.Tok == token.DEFINE && t.isConnClose(x.Rhs[0]) {
			return true
		}
		if x.Tok == token.ASSIGN && strings.HasSuffix(admPath(x.Lhs[0]), ".conn") {
			t.pure(x.Rhs[0])
			return true
		}
		if c, ok := x.Rhs[0].(*ast.CallExpr); ok && x.Tok == token.DEFINE && admPath(c.Fun) == "make" && len(c.Args) == 1 && types.ExprString(c.Args[0]) == "chan struct{}" {
			return true
		}
	case *ast.IfStmt:
		if x.Init != nil && !t.skippable(x.Init) {
			return false
		}
		for _, b := range x.Body.List {
			if !t.skippable(b) {
				return false
			}
		}
		switch e := x.Else.(type) {
		case nil:
		case *ast.BlockStmt:
			for _, b := range e.List {
				if !t.skippable(b) {
					return false
				}
			}
		default:
			if !t.skippable(e) {
				return false
			}
		}
		if len(x.Body.List) == 0 {
			return false
		}
		t.pure(x.Cond)
		return true
	}
	return false
}

// ---------- expressions ----------

func (t *cmgTr) known(v cmgVal, env *cmgEnv, name string) cmgAddr {
	a := env.addr[v.obj]
	if a.state == 0 {
		panic(cmgNeed{v.obj, v.lean, name})
	}
	return a
}

func (t *cmgTr) want(e ast.Expr, env *cmgEnv, k cmgKind, what string) cmgVal {
	v := t.expr(e, env)
	if v.k == ckBad {
		t.fail(e, v.why)
	}
	if v.k != k {
		t.fail(e, "expected "+what)
	}
	return v
}

func (t *cmgTr) reqOf(e ast.Expr, env *cmgEnv) cmgVal { return t.want(e, env, ckReq, "a *ConnReq") }

func (t *cmgTr) expr(e ast.Expr, env *cmgEnv) cmgVal {
	r := t.recv
	switch x := e.(type) {
	case *ast.ParenExpr:
		return t.expr(x.X, env)
	case *ast.BasicLit:
		if x.Kind == token.INT {
			return cmgVal{lean: x.Value, k: ckNat}
		}
		if x.Kind == token.STRING && x.Value == `""` {
			return cmgVal{k: ckEmpty}
		}
	case *ast.Ident:
		switch x.Name {
		case "nil":
			return cmgVal{k: ckNil}
		case "true":
			return cmgConst(true)
		case "false":
			return cmgConst(false)
		case "maxFailedAttempts":
			return cmgVal{lean: "cfg_.maxFailed", k: ckNat}
		case "maxRetryDuration":
			return cmgVal{lean: "maxRetryDuration", k: ckInt}
		}
		if v, ok := env.vars[x.Name]; ok {
			return v
		}
		if _, ok := t.consts[x.Name]; ok {
			return cmgVal{lean: x.Name, k: ckNat}
		}
		t.fail(e, "identifier "+x.Name)
	case *ast.SelectorExpr:
		p := admPath(x)
		switch p {
		case r + ".globalFailedAttempts":
			return cmgVal{lean: "g.gfails", k: ckNat}
		case r + ".cfg.TargetOutbound":
			return cmgVal{lean: "cfg_.target", k: ckNat}
		case r + ".cfg.RetryDuration":
			return cmgVal{lean: "cfg_.retryDuration", k: ckInt}
		case r + ".cfg.GetNewAddress":
			return cmgVal{lean: "cfg_.getNewAddress", k: ckFn}
		case r + ".cfg.BanAddress":
			return cmgVal{lean: "cfg_.banAddr", k: ckFn}
		case r + ".cfg.OnDisconnection":
			return cmgVal{lean: "cfg_.onDisconnection", k: ckFn}
		}
		base := t.expr(x.X, env)
		switch base.k {
		case ckMsg:
			if f, ok := base.fields[x.Sel.Name]; ok {
				return f
			}
		case ckReq:
			switch x.Sel.Name {
			case "id":
				return cmgVal{lean: base.idLean, k: ckNat}
			case "Permanent":
				return cmgVal{lean: "g.perm " + base.idLean, k: ckBool}
			case "retryCount":
				return cmgVal{lean: "(g.retryCnt " + base.idLean + ")", k: ckNat}
			case "Addr":
				return cmgVal{k: ckAddr, obj: base.obj, lean: base.lean, why: types.ExprString(x.X)}
			}
		case ckBad:
			t.fail(x.X, base.why)
		}
		t.fail(e, "selector "+p)
	case *ast.IndexExpr:
		if admPath(x.X) == r+".failedAttempts" {
			k := t.want(x.Index, env, ckKey, "an address key")
			return cmgVal{lean: "(g.fails " + k.lean + ")", k: ckNat}
		}
		t.fail(e, "single-value map read")
	case *ast.UnaryExpr:
		if x.Op == token.NOT {
			return cmgNot(t.want(x.X, env, ckBool, "a boolean"))
		}
	case *ast.BinaryExpr:
		return t.binary(x, env)
	case *ast.CallExpr:
		return t.call(x, env)
	}
	t.fail(e, "expression")
	return cmgVal{}
}

func (t *cmgTr) binary(x *ast.BinaryExpr, env *cmgEnv) cmgVal {
	switch x.Op {
	case token.LAND, token.LOR:
		and := x.Op == token.LAND
		l := t.want(x.X, env, ckBool, "a boolean")
		if l.konst != nil {
			if *l.konst != and {
				return cmgConst(!and)
			}
			return t.want(x.Y, env, ckBool, "a boolean")
		}
		rr := t.want(x.Y, env, ckBool, "a boolean")
		if rr.konst != nil {
			if *rr.konst != and {
				return cmgConst(!and)
			}
			return l
		}
		op := " && "
		if !and {
			op = " || "
		}
		return cmgVal{lean: "(" + l.lean + op + rr.lean + ")", k: ckBool}
	case token.EQL, token.NEQ, token.LSS, token.LEQ, token.GTR, token.GEQ:
		l, rr := t.expr(x.X, env), t.expr(x.Y, env)
		eq := x.Op == token.EQL || x.Op == token.NEQ
		if l.k == ckNil || l.k == ckEmpty {
			l, rr = rr, l
		}
		if rr.k == ckNil && eq {
			switch l.k {
			case ckErr:
				return cmgConst(*l.konst == (x.Op == token.NEQ))
			case ckAddr:
				a := t.known(l, env, l.why)
				if a.state == 3 {
					t.fail(x, "the Addr of this request is not modelled")
				}
				return cmgConst((a.state == 1) == (x.Op == token.NEQ))
			case ckFn:
				if x.Op == token.NEQ {
					return cmgVal{lean: l.lean, k: ckBool}
				}
				return cmgVal{lean: "(!" + l.lean + ")", k: ckBool}
			}
			t.fail(x, "nil comparison of this operand")
		}
		if rr.k == ckEmpty && eq && l.k == ckKey { // addresses of the model have a non-empty String()
			return cmgConst(x.Op == token.NEQ)
		}
		if l.k == ckBad {
			t.fail(x.X, l.why)
		}
		if rr.k == ckBad {
			t.fail(x.Y, rr.why)
		}
		if !(l.k == ckNat && rr.k == ckNat) && !(l.k == ckInt && rr.k == ckInt) {
			t.fail(x, "comparison of operands of these sorts")
		}
		op := map[token.Token]string{token.EQL: "=", token.NEQ: "≠", token.LSS: "<", token.LEQ: "≤", token.GTR: ">", token.GEQ: "≥"}[x.Op]
		return cmgVal{lean: "decide (" + l.lean + " " + op + " " + rr.lean + ")", k: ckBool}
	case token.MUL:
		l := t.want(x.X, env, ckInt, "a duration")
		rr := t.want(x.Y, env, ckInt, "a duration")
		return cmgVal{lean: "(durMul " + l.lean + " " + rr.lean + ")", k: ckInt}
	}
	t.fail(x, "operator "+x.Op.String())
	return cmgVal{}
}

func (t *cmgTr) call(x *ast.CallExpr, env *cmgEnv) cmgVal {
	p := admPath(x.Fun)
	r := t.recv
	switch {
	case p == "len" && len(x.Args) == 1:
		m := t.want(x.Args[0], env, ckMap, "a handler map")
		if m.lean != "conns" {
			t.fail(x, "len of pending")
		}
		return cmgVal{lean: "g.conns.length", k: ckNat}
	case (p == "uint32" || p == "uint64") && len(x.Args) == 1:
		return t.want(x.Args[0], env, ckNat, "a number")
	case p == "time.Duration" && len(x.Args) == 1:
		v := t.want(x.Args[0], env, ckNat, "a number")
		return cmgVal{lean: "(Int.ofNat " + v.lean + ")", k: ckInt}
	case p == "atomic.LoadInt32" && len(x.Args) == 1 && admPath(x.Args[0]) == "&"+r+".stop":
		return cmgVal{lean: "g.stop", k: ckNat}
	case p == "atomic.LoadUint64" && len(x.Args) == 1:
		if u, ok := x.Args[0].(*ast.UnaryExpr); ok && u.Op == token.AND {
			if sel, ok := u.X.(*ast.SelectorExpr); ok && sel.Sel.Name == "id" {
				return cmgVal{lean: t.reqOf(sel.X, env).idLean, k: ckNat}
			}
		}
	}
	if sel, ok := x.Fun.(*ast.SelectorExpr); ok {
		if len(x.Args) == 0 && sel.Sel.Name == "String" {
			a := t.expr(sel.X, env)
			if a.k == ckAddr {
				kn := t.known(a, env, a.why)
				switch kn.state {
				case 1:
					return cmgVal{lean: kn.lean, k: ckKey}
				case 2:
					panic(cmgNilDeref{})
				}
				t.fail(x, "the Addr of this request is not modelled")
			}
		}
		if len(x.Args) == 0 && sel.Sel.Name == "State" {
			return cmgVal{lean: "(g.rstate " + t.reqOf(sel.X, env).idLean + ")", k: ckNat}
		}
		if base, ok := sel.X.(*ast.Ident); ok && base.Name == r {
			if _, shadow := env.vars[r]; !shadow {
				f := t.need(x, sel.Sel.Name)
				if f.result != "Bool" {
					t.fail(x, "call of "+sel.Sel.Name+" as an expression")
				}
				return cmgVal{lean: "(" + t.callText(x, f, env) + ")", k: ckBool}
			}
		}
	}
	t.fail(x, "call "+p+" (not in the primitive table)")
	return cmgVal{}
}

// <f> cfg_ g <args> [addr_] [dial_]
func (t *cmgTr) callText(x *ast.CallExpr, f *cmgFunc, env *cmgEnv) string {
	if len(x.Args) != len(f.params) {
		t.fail(x, "number of arguments")
	}
	s := f.name + " cfg_ g"
	for i, a := range x.Args {
		switch f.params[i] {
		case "Req":
			v := t.reqOf(a, env)
			if v.lean == "" {
				t.fail(a, "this request has only its id (looked up in pending)")
			}
			s += " " + v.lean
		case "Key":
			s += " " + t.want(a, env, ckKey, "an address key").lean
		default:
			s += " " + t.want(a, env, ckNat, "a number").lean
		}
	}
	if f.useAddr {
		t.cur.useAddr = true
		s += " addr_"
	}
	if f.useDial {
		t.cur.useDial = true
		s += " dial_"
	}
	return s
}

// `N`, `time.Minute * N`, … in nanoseconds
func cmgDuration(e ast.Expr) (int64, bool) {
	units := map[string]int64{"time.Nanosecond": 1, "time.Microsecond": 1e3, "time.Millisecond": 1e6, "time.Second": 1e9, "time.Minute": 60e9, "time.Hour": 3600e9}
	switch x := e.(type) {
	case *ast.ParenExpr:
		return cmgDuration(x.X)
	case *ast.BasicLit:
		if x.Kind == token.INT {
			n, err := strconv.ParseInt(x.Value, 0, 64)
			return n, err == nil
		}
	case *ast.SelectorExpr:
		n, ok := units[admPath(x)]
		return n, ok
	case *ast.BinaryExpr:
		a, ok1 := cmgDuration(x.X)
		b, ok2 := cmgDuration(x.Y)
		if ok1 && ok2 {
			switch x.Op {
			case token.MUL:
				return a * b, true
			case token.ADD:
				return a + b, true
			}
		}
	}
	return 0, false
}
