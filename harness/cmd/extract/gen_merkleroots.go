package main

// Gen.MerkleRoots: the merkle-root listing (property C08) from the HTTP handler down to the SQL calls,
//   transports/http/endpoints/api/merkleroots/endpoints.go  (*handler).merkleroots
//   service/merkleroots_service.go                           (*MerklerootsService).GetMerkleRoots
//   database/repository/header_repository.go                 (*HeaderRepository).GetMerkleRoots, GetTip
//   database/sql/headers.go                                  (*HeadersDb).GetMerkleRoots, getLastEvaluatedMerklerootHeight, GetTip
// TRANSLATED statement by statement into Lean `do` blocks of `Except Fault` over the vocabulary of
// lean/BHS/Model/MerkleRootsPrim.lean. The call graph is discovered from the handler (callees are emitted first,
// recursion is refused), so an inlined, renamed, added or removed helper changes the generated module.
// Refinement theorems: lean/BHS/Props/MerkleRootsGen.lean (generated = hand model BHS/Model/Query.lean `page`).
//
// SUBSET (everything else: `file:line:col: unsupported: …`, exit 1, the module is replaced by an empty one)
//   statements   `x := e`, `x = e`, `a, b := f(…)`, `a, b = f(…)`; `var x T` for the three scan-target types below;
//                `err := <recv>.db.Get|Select(&dest, SQL, args…)` (also with `=`, also as the init of an `if`);
//                field assignment `p.F.G = e` and `p.F[i].G = e` on a local struct; `if [init;] c {…} [else if …] [else {…}]`;
//                `return e…` (also `return f(…)` of a translated function with the same result list);
//                `for i, x := range xs {…}` whose body has no return/break/continue (the outer variables assigned in the
//                body are the loop state); the calls of the EFFECT and SKIP lists as expression statements.
//                Control flow is rendered in continuation style: the statements after an `if` are translated once per
//                fall-through branch, so the Lean text has no early return and no mutable variable.
//                A `:=` that shadows a variable of an enclosing scope is refused.
//   expressions  identifiers, nil, "", string literals (handler), integer literals, unary - and !, && || (short-circuit;
//                an operand that can fault is refused on the right-hand side), == != < <= > >= + -, len, field selection
//                (through a pointer: `deref`, faults on nil), xs[i], &xs[i], composite literals of the two response structs
//                (omitted fields get their Go zero value), package constants of the translated file, and the
//                primitive table.
//   types        string ↦ Option H (key; "" ↦ none) — in the handler String; int, int32 ↦ Int; error ↦ Option Err;
//                *dto.DbBlockHeader, *domains.BlockHeader, `var x dto.DbBlockHeader` ↦ Option (Row H);
//                []dto.DbBlockHeader, []*dto.DbMerkleRoot ↦ List (Row H); *domains.MerkleRootsESKPagedResponse ↦
//                Option (PagedResp H) (a local `&T{…}` is the value; it may not be copied); context.Context dropped;
//                *gin.Context ↦ Gin. The field tables below are checked against the Go struct declarations.
// PRIMITIVE TABLE (Go ↦ Lean, see MerkleRootsPrim.lean)
//   <recv>.db.Get/Select(&dest, [<recv>.db.Rebind](sqlNAME), args…) ↦ dbGet_sqlNAME / dbSelect_sqlNAME db_ dest args…
//       for the NAMES of mrSQL only (sqlGetSingleMerkleroot, sqlMerkleRootsFromHeight, sqlSelectTip): an unknown
//       constant, a different verb or argument list is unsupported. Rebind only rewrites the placeholders.
//   errors.Is(e, sql.ErrNoRows) ↦ isNoRows e; errors.Wrap(e, "m") ↦ errorsWrap e "m"; errors.New("m") ↦ some (Err.new "m");
//   bhserrors.ErrX ↦ some (Err.bhs "ErrX"); bhserrors.ErrX.Wrap(e) ↦ bhsWrap "ErrX" e;
//   x.ToBlockHeader() ↦ toBlockHeader x; h.MerkleRoot.String() ↦ some row.merkle; domains.LongestChain/Stale/Orphan ↦ St.*;
//   len(xs) ↦ Int.ofNat xs.length; make([]domains.MerkleRootsResponse, n) ↦ makeRootResps n; context.Background() dropped;
//   strconv.Atoi(s) ↦ strconvAtoi s; c.Query("k") ↦ ginQuery c "k"; c.DefaultQuery("k", d) ↦ ginDefaultQuery c "k" d;
//   http.StatusOK ↦ 200; method calls along the wiring table mrWiring (r.db.X ↦ HeadersDb.X, ms.repo.Headers.X ↦
//   HeaderRepository.X, h.service.X ↦ MerklerootsService.X: the production wiring of the interfaces, trusted).
// MODULE Confirmations (property C02): the same translator started at (*MerklerootsService).GetMerkleRootsConfirmations —
//   service/merkleroots_service.go → database/repository/header_repository.go GetMerkleRootsConfirmations →
//   repository/dto/headers.go ConvertToMerkleRootsConfirmations, (*DbMerkleRootConfirmation).ToMerkleRootConfirmation →
//   database/sql/headers.go (*HeadersDb).GetMerkleRootsConfirmations, getMerkleRootConfirmation, getChainTipHeight
//   (vocabulary lean/BHS/Model/MerkleRootsCore.lean + ConfirmationsPrim.lean; theorems lean/BHS/Props/ConfirmationsGen.lean).
//   Additions to the subset used there:
//   statements   `continue` inside a range loop (ends the body with the loop state); `var x T` for int32, sql.NullString,
//                domains.MerkleRootConfirmationState (Go zero values); a `:=` that shadows a variable of an enclosing scope
//                gets a fresh Lean name (x', x'', …); `xs = append(xs, x)`; if/else-if/else chains assigning a variable.
//                `return`, `break`, goto, defer, ++/-- inside a loop, maps, string concatenation, strconv.*: unsupported.
//   expressions  int vs int32 are distinct kinds (untyped constants adapt; they do not mix without a conversion);
//                int32 `+`/`-` wrap around (toInt32), `int32(x)` ↦ toInt32 x, `int(x)` ↦ x; `&&`/`||` whose RIGHT operand
//                can fault are rendered with the monadic short-circuit `<&&>`/`<||>` (evaluated only when needed);
//                `make([]*T, 0)` ↦ []; `append(xs, x)` ↦ xs ++ [x]; typed string constants of package domains
//                (Confirmed, UnableToVerify, Invalid): the VALUE is read from the declaration;
//                <recv>.merkleCfg.MaxBlockHeightExcess ↦ the parameter excess_; calls of plain functions of the table
//                mrPkgFuncs and of methods on data values (table mrDataRecv: the receiver becomes the first argument).
//   types        sql.NullString ↦ Option H (.Valid ↦ isSome, .String ↦ the option); *dto.DbMerkleRootConfirmation,
//                *domains.MerkleRootConfirmation ↦ Option of a structure, slices of them ↦ List (Option …);
//                domains.MerkleRootConfirmationRequestItem ↦ ReqItem H.
//   primitives   sqlTipOfChainHeight (Get into an int32) ↦ dbGet_sqlTipOfChainHeight (maxLcHeight; NULL = scan error),
//                sqlVerifyHash (Get into a NullString) ↦ dbGet_sqlVerifyHash (verifyHash).
// EFFECT LIST  bhserrors.ErrorResponse(c, e, <recv>.log) ↦ c := errorResponse c e;  c.JSON(st, v) ↦ c := ginJSON c st v
// SKIP LIST    <recv>.log.<Level>().Msg/Msgf(…) with side-effect-free arguments (identifiers, literals, selectors).

import (
	"fmt"
	"go/ast"
	"go/parser"
	"go/token"
	"go/types"
	"os"
	"path/filepath"
	"regexp"
	"strconv"
	"strings"
)

func init() { register("MerkleRoots", genMerkleRoots); register("Confirmations", genConfirmations) }

type mrKind string

// Lean type of a kind (%H = the hash type of the enclosing definition)
var mrLeanTy = map[mrKind]string{"int": "Int", "bool": "Bool", "key": "Option %H", "str": "String", "err": "Option Err",
	"dbp": "Option (Row %H)", "hdrp": "Option (Row %H)", "dbv": "Row %H", "mroot": "Row %H", "hdr": "Row %H", "hash": "%H",
	"dbvs": "List (Row %H)", "mroots": "List (Row %H)", "resp": "PagedResp %H", "respp": "Option (PagedResp %H)",
	"rr": "RootResp %H", "rrs": "List (RootResp %H)", "pinfo": "PageInfo %H", "state": "St", "gin": "Gin",
	"i32": "Int", "lit": "Int", "nstr": "Option %H", "cstate": "String", "item": "ReqItem %H", "items": "List (ReqItem %H)",
	"dconf": "DbConf %H", "dconfp": "Option (DbConf %H)", "dconfps": "List (Option (DbConf %H))",
	"conf": "Conf %H", "confp": "Option (Conf %H)", "confps": "List (Option (Conf %H))"}

// Go type text ↦ kind, for parameters, results and `var` declarations
var mrGoTy = map[string]mrKind{"string": "key", "int": "int", "int32": "i32", "error": "err", "*dto.DbBlockHeader": "dbp",
	"*domains.BlockHeader": "hdrp", "[]*dto.DbMerkleRoot": "mroots", "*domains.MerkleRootsESKPagedResponse": "respp",
	"*gin.Context": "gin", "context.Context": "ctx",
	"domains.MerkleRootConfirmationRequestItem": "item", "[]domains.MerkleRootConfirmationRequestItem": "items",
	"*dto.DbMerkleRootConfirmation": "dconfp", "*DbMerkleRootConfirmation": "dconfp",
	"[]*dto.DbMerkleRootConfirmation": "dconfps", "[]*DbMerkleRootConfirmation": "dconfps",
	"*domains.MerkleRootConfirmation": "confp", "[]*domains.MerkleRootConfirmation": "confps"}
var mrVarTy = map[string]mrKind{"dto.DbBlockHeader": "dbp", "[]dto.DbBlockHeader": "dbvs", "[]*dto.DbMerkleRoot": "mroots",
	"int32": "i32", "sql.NullString": "nstr", "domains.MerkleRootConfirmationState": "cstate"}
var mrVarZero = map[mrKind]string{"dbp": "none", "dbvs": "[]", "mroots": "[]", "i32": "(0 : Int)", "nstr": "none", "cstate": `""`}
var mrElem = map[mrKind]mrKind{"dbvs": "dbv", "mroots": "mroot", "rrs": "rr", "items": "item", "dconfps": "dconfp", "confps": "confp"}

// `make([]T, 0)` of these element types is the empty slice
var mrMakeEmpty = map[string]mrKind{"[]*dto.DbMerkleRootConfirmation": "dconfps", "[]*domains.MerkleRootConfirmation": "confps"}

// a local `&T{…}` is the struct value; where a pointer is expected it is `some` of it
var mrSome = map[mrKind]mrKind{"resp": "respp", "dconf": "dconfp", "conf": "confp"}

type mrField struct {
	lean string // %s = the struct term
	k    mrKind
	name string // Lean field name (response structs: assignable)
}

// the data refinement: fields of the Go structs the code may read (rows) or read and write (response structs)
var mrFields = map[mrKind]map[string]mrField{
	"dbv":   {"Height": {"(%s.height : Int)", "i32", ""}, "MerkleRoot": {"(some %s.merkle)", "key", ""}},
	"mroot": {"Height": {"(%s.height : Int)", "i32", ""}, "MerkleRoot": {"(some %s.merkle)", "key", ""}},
	"hdr":   {"Height": {"(%s.height : Int)", "i32", ""}, "MerkleRoot": {"%s.merkle", "hash", ""}, "State": {"%s.st", "state", ""}},
	"resp":  {"Content": {"%s.content", "rrs", "content"}, "Page": {"%s.page", "pinfo", "page"}},
	"pinfo": {"TotalElements": {"%s.totalElements", "i32", "totalElements"}, "Size": {"%s.size", "int", "size"}, "LastEvaluatedKey": {"%s.lastEvaluatedKey", "key", "lastEvaluatedKey"}},
	"rr":    {"MerkleRoot": {"%s.merkleRoot", "key", "merkleRoot"}, "BlockHeight": {"%s.blockHeight", "i32", "blockHeight"}},
	"item":  {"MerkleRoot": {"%s.merkleRoot", "key", ""}, "BlockHeight": {"%s.blockHeight", "i32", ""}},
	"dconf": {"MerkleRoot": {"%s.merkleRoot", "key", "merkleRoot"}, "BlockHeight": {"%s.blockHeight", "i32", "blockHeight"},
		"Hash": {"%s.hash", "nstr", "hash"}, "TipHeight": {"%s.tipHeight", "i32", "tipHeight"}},
	"conf": {"MerkleRoot": {"%s.merkleRoot", "key", "merkleRoot"}, "BlockHeight": {"%s.blockHeight", "i32", "blockHeight"},
		"Hash": {"%s.hash", "key", "hash"}, "Confirmation": {"%s.confirmation", "cstate", "confirmation"}},
	"nstr": {"Valid": {"%s.isSome", "bool", ""}, "String": {"%s", "key", ""}}, // sql.NullString ≙ Option: String is "" when not Valid
}
var mrFieldOrder = map[mrKind][]string{"resp": {"Content", "Page"}, "pinfo": {"TotalElements", "Size", "LastEvaluatedKey"}, "rr": {"MerkleRoot", "BlockHeight"},
													"dconf": {"MerkleRoot", "BlockHeight", "Hash", "TipHeight"}, "conf": {"MerkleRoot", "BlockHeight", "Hash", "Confirmation"}}
var mrPtrOf = map[mrKind]mrKind{"dbp": "dbv", "hdrp": "hdr", "dconfp": "dconf", "confp": "conf"} // pointer kind ↦ what a dereference yields
var mrLitTy = map[string]mrKind{"domains.MerkleRootsESKPagedResponse": "resp", "domains.ExclusiveStartKeyPageInfo": "pinfo", "domains.MerkleRootsResponse": "rr",
	"dto.DbMerkleRootConfirmation": "dconf", "domains.MerkleRootConfirmation": "conf"}

// typed string constants of other packages: package ↦ file; the VALUE is read from the declaration
var mrPkgConsts = map[string]struct {
	file string
	k    mrKind
	ok   map[string]bool
}{"domains": {"domains/merkleroots.go", "cstate", map[string]bool{"Confirmed": true, "UnableToVerify": true, "Invalid": true}}}

// plain functions and methods on data values that are translated too
var mrPkgFuncs = map[string]string{"dto.ConvertToMerkleRootsConfirmations": "repository/dto/headers.go"}
var mrDataRecv = map[string]mrKind{"DbMerkleRootConfirmation": "dconfp"} // receiver type ↦ kind of the receiver

// Go struct declarations the field tables are checked against: file, type, field ↦ Go type text
var mrStructs = []struct {
	file, name string
	fields     map[string]string
	mod        string // "" = every module
}{
	{"repository/dto/headers.go", "DbMerkleRootConfirmation", map[string]string{"MerkleRoot": "string", "BlockHeight": "int32", "Hash": "sql.NullString", "TipHeight": "int32"}, "Confirmations"},
	{"domains/merkleroots.go", "MerkleRootConfirmation", map[string]string{"MerkleRoot": "string", "BlockHeight": "int32", "Hash": "string", "Confirmation": "MerkleRootConfirmationState"}, "Confirmations"},
	{"domains/merkleroots.go", "MerkleRootConfirmationRequestItem", map[string]string{"MerkleRoot": "string", "BlockHeight": "int32"}, "Confirmations"},
	{"domains/merkleroots.go", "MerkleRootConfirmationState", map[string]string{"=": "string"}, "Confirmations"},
	{"service/merkleroots_service.go", "MerklerootsService", map[string]string{"merkleCfg": "*config.MerkleRootConfig"}, "Confirmations"},
	{"config/config.go", "MerkleRootConfig", map[string]string{"MaxBlockHeightExcess": "int"}, "Confirmations"},
	{"repository/dto/headers.go", "DbBlockHeader", map[string]string{"Height": "int32", "MerkleRoot": "string", "State": "string"}, "MerkleRoots"},
	{"repository/dto/headers.go", "DbMerkleRoot", map[string]string{"Height": "int32", "MerkleRoot": "string"}, "MerkleRoots"},
	{"domains/headers.go", "BlockHeader", map[string]string{"Height": "int32", "MerkleRoot": "chainhash.Hash", "State": "HeaderState"}, "MerkleRoots"},
	{"domains/page.go", "ExclusiveStartKeyPage", map[string]string{"Content": "Content", "Page": "ExclusiveStartKeyPageInfo"}, "MerkleRoots"},
	{"domains/page.go", "ExclusiveStartKeyPageInfo", map[string]string{"TotalElements": "int32", "Size": "int", "LastEvaluatedKey": "string"}, "MerkleRoots"},
	{"domains/merkleroots.go", "MerkleRootsResponse", map[string]string{"MerkleRoot": "string", "BlockHeight": "int32"}, "MerkleRoots"},
	{"domains/merkleroots.go", "MerkleRootsESKPagedResponse", map[string]string{"=": "ExclusiveStartKeyPage[[]MerkleRootsResponse]"}, "MerkleRoots"},
	{"database/repository/header_repository.go", "HeaderRepository", map[string]string{"db": "*sql.HeadersDb"}, ""},
	{"service/merkleroots_service.go", "MerklerootsService", map[string]string{"repo": "*repository.Repositories"}, ""},
	{"repository/repository.go", "Repositories", map[string]string{"Headers": "Headers"}, ""},
	{"transports/http/endpoints/api/merkleroots/endpoints.go", "handler", map[string]string{"service": "service.Merkleroots"}, "MerkleRoots"},
}

// SQL primitives keyed by the NAME of the constant: verb, destination kind, argument kinds
var mrSQL = map[string]struct {
	verb string
	dest mrKind
	args []mrKind
}{
	"sqlGetSingleMerkleroot":   {"Get", "dbp", []mrKind{"key"}},
	"sqlMerkleRootsFromHeight": {"Select", "mroots", []mrKind{"i32", "int"}},
	"sqlSelectTip":             {"Select", "dbvs", nil},
	"sqlTipOfChainHeight":      {"Get", "i32", nil},
	"sqlVerifyHash":            {"Get", "nstr", []mrKind{"key", "i32"}},
}

// receiver type ↦ file, and the wiring: field path after the receiver ↦ type whose method is called
var mrTypeFile = map[string]string{"HeadersDb": "database/sql/headers.go", "HeaderRepository": "database/repository/header_repository.go",
	"MerklerootsService": "service/merkleroots_service.go", "handler": "transports/http/endpoints/api/merkleroots/endpoints.go",
	"DbMerkleRootConfirmation": "repository/dto/headers.go"}
var mrWiring = map[string]map[string]string{"HeadersDb": {"": "HeadersDb"}, "HeaderRepository": {"": "HeaderRepository", "db": "HeadersDb"},
	"MerklerootsService": {"repo.Headers": "HeaderRepository"}, "handler": {"service": "MerklerootsService"}}

var mrStates = map[string]string{"LongestChain": "St.lc", "Stale": "St.stale", "Orphan": "St.orphan"}
var mrTmpRe = regexp.MustCompile(`^[vt]_\d+$`)
var mrLogRe = regexp.MustCompile(`^\w+\.log\.(Trace|Debug|Info|Warn|Error)\(\)\.(Msgf|Msg)$`)

type mrErr struct{ msg string }

type mrVal struct {
	s     string
	k     mrKind   // "nil" / "empty" for the untyped literals; "ctx" for a dropped context
	multi []mrKind // result list of a call with several results
	m     bool     // contains a `(← …)` (can fault) / is an action when multi
}

type mrFn struct {
	recv, name, lean string
	decl             *ast.FuncDecl
	file             *mrFile
	params           []mrKind
	results          []mrKind
	useExcess        bool // reads the configured MaxBlockHeightExcess (parameter excess_)
	text             string
	state            int // 0 new, 1 in progress, 2 done
}

type mrFile struct {
	path   string
	src    []byte
	ast    *ast.File
	consts map[string]string // string constants of the file
}

type mrGen struct {
	fset  *token.FileSet
	files map[string]*mrFile
	fns   map[string]*mrFn
	order []*mrFn
	// per function
	fn     *mrFn
	recv   string
	http   bool
	scopes []map[string]mrVar
	tmp    int
	loops  []mrCont // what `continue` does, innermost loop last
	mod    string
}

type mrVar struct {
	k    mrKind
	lean string
}

type mrCont func(ind int) string

func (g *mrGen) fail(n ast.Node, msg string, a ...any) {
	panic(mrErr{fmt.Sprintf("%s: unsupported: %s", g.fset.Position(n.Pos()), fmt.Sprintf(msg, a...))})
}

func mrPad(n int) string { return strings.Repeat("  ", n) }

func (g *mrGen) hty() string {
	if g.http {
		return "String"
	}
	return "H"
}

func (g *mrGen) leanTy(k mrKind) string { return strings.ReplaceAll(mrLeanTy[k], "%H", g.hty()) }

func (g *mrGen) load(rel string) *mrFile {
	if f, ok := g.files[rel]; ok {
		return f
	}
	p := filepath.Join(*repo, rel)
	src, err := os.ReadFile(p)
	if err != nil {
		panic(mrErr{err.Error()})
	}
	af, err := parser.ParseFile(g.fset, p, src, 0)
	if err != nil {
		panic(mrErr{err.Error()})
	}
	f := &mrFile{path: p, src: src, ast: af, consts: map[string]string{}}
	for _, d := range af.Decls {
		gd, ok := d.(*ast.GenDecl)
		if !ok || gd.Tok != token.CONST {
			continue
		}
		for _, sp := range gd.Specs {
			vs := sp.(*ast.ValueSpec)
			for i, n := range vs.Names {
				if i < len(vs.Values) {
					if bl, ok := vs.Values[i].(*ast.BasicLit); ok && bl.Kind == token.STRING && strings.HasPrefix(bl.Value, `"`) {
						f.consts[n.Name] = bl.Value
					}
				}
			}
		}
	}
	g.files[rel] = f
	return f
}

// the field tables against the struct declarations
func (g *mrGen) checkStructs() {
	for _, want := range mrStructs {
		if want.mod != "" && want.mod != g.mod {
			continue
		}
		f := g.load(want.file)
		var ts *ast.TypeSpec
		for _, d := range f.ast.Decls {
			if gd, ok := d.(*ast.GenDecl); ok && gd.Tok == token.TYPE {
				for _, sp := range gd.Specs {
					if sp.(*ast.TypeSpec).Name.Name == want.name {
						ts = sp.(*ast.TypeSpec)
					}
				}
			}
		}
		if ts == nil {
			panic(mrErr{fmt.Sprintf("%s: unsupported: type %s not found", f.path, want.name)})
		}
		if alias, ok := want.fields["="]; ok {
			if got := types.ExprString(ts.Type); got != alias {
				g.fail(ts, "type %s is %s, the table expects %s", want.name, got, alias)
			}
			continue
		}
		st, ok := ts.Type.(*ast.StructType)
		if !ok {
			g.fail(ts, "type %s is not a struct", want.name)
		}
		got := map[string]string{}
		for _, fl := range st.Fields.List {
			for _, n := range fl.Names {
				got[n.Name] = types.ExprString(fl.Type)
			}
		}
		for fn, ty := range want.fields {
			if got[fn] != ty {
				g.fail(ts, "field %s.%s has type %q, the table expects %q", want.name, fn, got[fn], ty)
			}
		}
	}
}

// ---------- scopes ----------

func (g *mrGen) lookup(name string) (mrKind, int) {
	for i := len(g.scopes) - 1; i >= 0; i-- {
		if v, ok := g.scopes[i][name]; ok {
			return v.k, i
		}
	}
	return "", -1
}

// the Lean name of a Go variable in scope
func (g *mrGen) ref(name string) string {
	for i := len(g.scopes) - 1; i >= 0; i-- {
		if v, ok := g.scopes[i][name]; ok {
			return v.lean
		}
	}
	return admName(name)
}

func (g *mrGen) push() { g.scopes = append(g.scopes, map[string]mrVar{}) }
func (g *mrGen) pop()  { g.scopes = g.scopes[:len(g.scopes)-1] }

// `x := …` / `x = …` of a value of kind k; returns the Lean binder
func (g *mrGen) bind(id ast.Expr, k mrKind, define bool) string {
	n, ok := id.(*ast.Ident)
	if !ok {
		g.fail(id, "assignment target")
	}
	if n.Name == "_" {
		return "_"
	}
	if n.Name == g.recv || strings.HasSuffix(n.Name, "_") || mrTmpRe.MatchString(n.Name) {
		g.fail(id, "assignment to %s", n.Name)
	}
	if k == "lit" {
		k = "int" // an untyped integer constant defaults to int
	}
	old, depth := g.lookup(n.Name)
	switch {
	case depth == len(g.scopes)-1 || (!define && depth >= 0): // assignment to an existing variable
		if old != k {
			g.fail(id, "%s changes its type (%s, then %s)", n.Name, old, k)
		}
	case define && depth >= 0: // a new variable that shadows one of an enclosing scope: a fresh Lean name (name', name'', …)
		g.scopes[len(g.scopes)-1][n.Name] = mrVar{k, g.ref(n.Name) + "'"}
	case !define:
		g.fail(id, "assignment to undeclared %s", n.Name)
	default:
		g.scopes[len(g.scopes)-1][n.Name] = mrVar{k, admName(n.Name)}
	}
	return g.ref(n.Name)
}

// ---------- expressions ----------

func mrPath(e ast.Expr) string {
	switch x := e.(type) {
	case *ast.Ident:
		return x.Name
	case *ast.SelectorExpr:
		return mrPath(x.X) + "." + x.Sel.Name
	case *ast.CallExpr:
		if len(x.Args) == 0 {
			return mrPath(x.Fun) + "()"
		}
	}
	return "?"
}

// v as a value of kind want
func (g *mrGen) as(v mrVal, want mrKind, n ast.Node) string {
	if v.multi != nil {
		g.fail(n, "call with several results used as one value")
	}
	switch {
	case v.k == want:
		return v.s
	case v.k == "lit" && (want == "int" || want == "i32"):
		return v.s
	case v.k == "nil" && (want == "err" || want == "dbp" || want == "hdrp" || want == "respp" || want == "dconfp" || want == "confp"):
		return "none"
	case v.k == "nil" && (want == "mroots" || want == "dbvs" || want == "dconfps" || want == "confps"):
		return "[]"
	case mrSome[v.k] == want && want != "":
		return "(some " + v.s + ")"
	case v.k == "empty" && want == "key":
		return "none"
	case v.k == "empty" && want == "str":
		return `""`
	case v.k == "str" && want == "key" && g.http:
		return "(strKey " + v.s + ")"
	}
	g.fail(n, "a value of kind %s where %s is expected", v.k, want)
	return ""
}

func (g *mrGen) want(e ast.Expr, k mrKind) mrVal {
	v := g.expr(e)
	return mrVal{s: g.as(v, k, e), k: k, m: v.m}
}

// x.F on a value of struct kind / through a pointer
func (g *mrGen) field(x mrVal, name string, n ast.Node) mrVal {
	k, s, m := x.k, x.s, x.m
	if to, ok := mrPtrOf[k]; ok {
		k, s, m = to, "(← deref "+s+")", true
	}
	f, ok := mrFields[k][name]
	if !ok {
		g.fail(n, "field %s of a value of kind %s (not in the field table)", name, x.k)
	}
	return mrVal{s: fmt.Sprintf(f.lean, s), k: f.k, m: m}
}

func (g *mrGen) zero(k mrKind, n ast.Node) string {
	switch k {
	case "int", "i32":
		return "(0 : Int)"
	case "key", "nstr":
		return "none"
	case "cstate":
		return `""`
	case "rrs":
		return "[]"
	case "pinfo", "rr":
		return g.lit(k, map[string]string{}, n)
	}
	g.fail(n, "zero value of kind %s", k)
	return ""
}

func (g *mrGen) lit(k mrKind, given map[string]string, n ast.Node) string {
	var parts []string
	for _, fn := range mrFieldOrder[k] {
		f := mrFields[k][fn]
		v, ok := given[fn]
		if !ok {
			v = g.zero(f.k, n)
		}
		parts = append(parts, f.name+" := "+v)
	}
	return "({ " + strings.Join(parts, ", ") + " } : " + g.leanTy(k) + ")"
}

func (g *mrGen) expr(e ast.Expr) mrVal {
	switch x := e.(type) {
	case *ast.ParenExpr:
		return g.expr(x.X)
	case *ast.BasicLit:
		switch x.Kind {
		case token.INT:
			return mrVal{s: "(" + x.Value + " : Int)", k: "lit"}
		case token.STRING:
			if x.Value == `""` {
				return mrVal{k: "empty"}
			}
			if strings.HasPrefix(x.Value, `"`) {
				return mrVal{s: mrStr(x.Value), k: "str"}
			}
		}
	case *ast.Ident:
		switch x.Name {
		case "nil":
			return mrVal{k: "nil"}
		case "true", "false":
			return mrVal{s: x.Name, k: "bool"}
		}
		if k, d := g.lookup(x.Name); d >= 0 {
			return mrVal{s: g.ref(x.Name), k: k}
		}
		if c, ok := g.fn.file.consts[x.Name]; ok {
			if c == `""` {
				return mrVal{k: "empty"}
			}
			return mrVal{s: mrStr(c), k: "str"}
		}
		g.fail(e, "identifier %s", x.Name)
	case *ast.SelectorExpr:
		p := mrPath(x)
		switch {
		case mrPath(x.X) == "bhserrors" && strings.HasPrefix(x.Sel.Name, "Err"):
			return mrVal{s: "(some (Err.bhs " + leanStr(x.Sel.Name) + "))", k: "err"}
		case p == "http.StatusOK":
			return mrVal{s: "(200 : Int)", k: "lit"}
		case strings.HasPrefix(p, "domains.") && mrStates[x.Sel.Name] != "":
			return mrVal{s: mrStates[x.Sel.Name], k: "state"}
		case g.recv != "" && g.fn.recv == "MerklerootsService" && p == g.recv+".merkleCfg.MaxBlockHeightExcess":
			g.fn.useExcess = true
			return mrVal{s: "excess_", k: "int"}
		}
		if pc, ok := mrPkgConsts[mrPath(x.X)]; ok && pc.ok[x.Sel.Name] {
			c, found := g.load(pc.file).consts[x.Sel.Name]
			if !found {
				g.fail(e, "constant %s not found in %s", p, pc.file)
			}
			return mrVal{s: mrStr(c), k: pc.k}
		}
		return g.field(g.expr(x.X), x.Sel.Name, e)
	case *ast.IndexExpr:
		xs := g.expr(x.X)
		el, ok := mrElem[xs.k]
		if !ok {
			g.fail(e, "index of a value of kind %s", xs.k)
		}
		i := g.want(x.Index, "int")
		return mrVal{s: "(← index " + xs.s + " " + i.s + ")", k: el, m: true}
	case *ast.UnaryExpr:
		switch x.Op {
		case token.NOT:
			v := g.want(x.X, "bool")
			return mrVal{s: "(!" + v.s + ")", k: "bool", m: v.m}
		case token.SUB:
			if bl, ok := x.X.(*ast.BasicLit); ok && bl.Kind == token.INT {
				return mrVal{s: "(-" + bl.Value + " : Int)", k: "lit"}
			}
		case token.AND:
			if ix, ok := x.X.(*ast.IndexExpr); ok { // &xs[i] of a slice of structs: a non-nil pointer
				v := g.expr(ix)
				if v.k == "dbv" {
					return mrVal{s: "(some " + v.s + ")", k: "dbp", m: true}
				}
			}
			if cl, ok := x.X.(*ast.CompositeLit); ok { // &T{…}: a fresh, non-nil struct
				v := g.expr(cl)
				if mrSome[v.k] != "" {
					return v
				}
			}
		}
		g.fail(e, "unary %s of this operand", x.Op)
	case *ast.CompositeLit:
		k, ok := mrLitTy[types.ExprString(x.Type)]
		if !ok {
			g.fail(e, "composite literal of type %s", types.ExprString(x.Type))
		}
		given := map[string]string{}
		m := false
		for _, el := range x.Elts {
			kv, ok := el.(*ast.KeyValueExpr)
			if !ok {
				g.fail(el, "positional composite literal")
			}
			fn := mrPath(kv.Key)
			f, ok := mrFields[k][fn]
			if !ok {
				g.fail(kv, "field %s of %s (not in the field table)", fn, types.ExprString(x.Type))
			}
			if _, dup := given[fn]; dup {
				g.fail(kv, "field %s given twice", fn)
			}
			v := g.want(kv.Value, f.k)
			given[fn], m = v.s, m || v.m
		}
		return mrVal{s: g.lit(k, given, e), k: k, m: m}
	case *ast.BinaryExpr:
		return g.binary(x)
	case *ast.CallExpr:
		return g.call(x)
	}
	g.fail(e, "expression")
	return mrVal{}
}

func (g *mrGen) binary(x *ast.BinaryExpr) mrVal {
	switch x.Op {
	case token.LAND, token.LOR:
		l, r := g.want(x.X, "bool"), g.want(x.Y, "bool")
		if r.m { // the right operand can fault: it is evaluated only when the left one does not decide (monadic <&&> / <||>)
			return mrVal{s: "(← (pure (" + l.s + ") <" + x.Op.String() + "> (do pure (" + r.s + "))))", k: "bool", m: true}
		}
		return mrVal{s: "(" + l.s + " " + x.Op.String() + " " + r.s + ")", k: "bool", m: l.m}
	case token.EQL, token.NEQ:
		l, r := g.expr(x.X), g.expr(x.Y)
		if l.k == "nil" || l.k == "empty" {
			l, r = r, l
		}
		if r.k == "nil" || r.k == "empty" {
			ok := map[mrKind]bool{"err": true, "dbp": true, "hdrp": true, "respp": true, "dconfp": true, "confp": true}[l.k]
			if r.k == "empty" {
				ok = l.k == "key"
			}
			if !ok || l.multi != nil {
				g.fail(x, "comparison of a value of kind %s with %s", l.k, r.k)
			}
			test := ".isNone"
			if x.Op == token.NEQ {
				test = ".isSome"
			}
			return mrVal{s: l.s + test, k: "bool", m: l.m}
		}
		g.intKind(x, &l, &r)
		if l.k != r.k || l.multi != nil || r.multi != nil || !map[mrKind]bool{"int": true, "i32": true, "lit": true, "key": true, "state": true, "str": true, "hash": true, "bool": true, "cstate": true}[l.k] {
			g.fail(x, "comparison of kinds %s and %s", l.k, r.k)
		}
		op := "="
		if x.Op == token.NEQ {
			op = "≠"
		}
		return mrVal{s: "decide (" + l.s + " " + op + " " + r.s + ")", k: "bool", m: l.m || r.m}
	case token.LSS, token.LEQ, token.GTR, token.GEQ:
		l, r := g.expr(x.X), g.expr(x.Y)
		g.intKind(x, &l, &r)
		op := map[token.Token]string{token.LSS: "<", token.LEQ: "≤", token.GTR: ">", token.GEQ: "≥"}[x.Op]
		return mrVal{s: "decide (" + l.s + " " + op + " " + r.s + ")", k: "bool", m: l.m || r.m}
	case token.ADD, token.SUB:
		l, r := g.expr(x.X), g.expr(x.Y)
		kd := g.intKind(x, &l, &r)
		t := "(" + l.s + " " + x.Op.String() + " " + r.s + ")"
		if kd == "i32" { // int32 arithmetic wraps around
			t = "(toInt32 " + t + ")"
		}
		return mrVal{s: t, k: kd, m: l.m || r.m}
	}
	g.fail(x, "operator %s", x.Op)
	return mrVal{}
}

// the common integer kind of two operands (int, int32 or both untyped constants); an untyped constant takes the kind
// of the other operand; int and int32 do not mix (Go needs a conversion there)
func (g *mrGen) intKind(x ast.Node, l, r *mrVal) mrKind {
	isInt := func(k mrKind) bool { return k == "int" || k == "i32" || k == "lit" }
	if l.multi != nil || r.multi != nil || !isInt(l.k) || !isInt(r.k) {
		if x.(*ast.BinaryExpr).Op == token.EQL || x.(*ast.BinaryExpr).Op == token.NEQ {
			return ""
		}
		g.fail(x, "integer operator on kinds %s and %s", l.k, r.k)
	}
	if l.k == "lit" {
		l.k = r.k
	}
	if r.k == "lit" {
		r.k = l.k
	}
	if l.k != r.k {
		g.fail(x, "operands of kinds %s and %s (int and int32 do not mix)", l.k, r.k)
	}
	return l.k
}

func (g *mrGen) strLit(e ast.Expr) string {
	bl, ok := e.(*ast.BasicLit)
	if !ok || bl.Kind != token.STRING || !strings.HasPrefix(bl.Value, `"`) {
		g.fail(e, "a string literal is required here")
	}
	return mrStr(bl.Value)
}

// a Go interpreted string literal as a Lean one
func mrStr(lit string) string {
	v, err := strconv.Unquote(lit)
	if err != nil {
		panic(mrErr{"unsupported: string literal " + lit})
	}
	return leanStr(v)
}

func (g *mrGen) call(x *ast.CallExpr) mrVal {
	p := mrPath(x.Fun)
	nargs := len(x.Args)
	switch {
	case p == "len" && nargs == 1:
		v := g.expr(x.Args[0])
		if _, ok := mrElem[v.k]; !ok {
			g.fail(x, "len of a value of kind %s", v.k)
		}
		return mrVal{s: "(Int.ofNat " + v.s + ".length)", k: "int", m: v.m}
	case p == "make" && nargs == 2 && types.ExprString(x.Args[0]) == "[]domains.MerkleRootsResponse":
		n := g.want(x.Args[1], "int")
		return mrVal{s: "(makeRootResps " + n.s + ")", k: "rrs", m: n.m}
	case p == "make" && nargs == 2 && mrMakeEmpty[types.ExprString(x.Args[0])] != "":
		if bl, ok := x.Args[1].(*ast.BasicLit); !ok || bl.Value != "0" {
			g.fail(x, "make of a pointer slice with a length other than the literal 0")
		}
		return mrVal{s: "[]", k: mrMakeEmpty[types.ExprString(x.Args[0])]}
	case p == "append" && nargs == 2:
		xs := g.expr(x.Args[0])
		el, ok := mrElem[xs.k]
		if !ok {
			g.fail(x, "append to a value of kind %s", xs.k)
		}
		v := g.want(x.Args[1], el)
		return mrVal{s: "(" + xs.s + " ++ [" + v.s + "])", k: xs.k, m: xs.m || v.m}
	case p == "int32" && nargs == 1:
		v := g.expr(x.Args[0])
		if v.k != "int" && v.k != "i32" && v.k != "lit" {
			g.fail(x, "int32 of a value of kind %s", v.k)
		}
		return mrVal{s: "(toInt32 " + v.s + ")", k: "i32", m: v.m}
	case p == "int" && nargs == 1:
		v := g.expr(x.Args[0])
		if v.k != "int" && v.k != "i32" && v.k != "lit" {
			g.fail(x, "int of a value of kind %s", v.k)
		}
		return mrVal{s: v.s, k: "int", m: v.m}
	case mrPkgFuncs[p] != "":
		return g.invoke(g.function("", p, x), nil, x)
	case p == "errors.Is" && nargs == 2 && mrPath(x.Args[1]) == "sql.ErrNoRows":
		v := g.want(x.Args[0], "err")
		return mrVal{s: "(isNoRows " + v.s + ")", k: "bool", m: v.m}
	case p == "errors.Wrap" && nargs == 2:
		v := g.want(x.Args[0], "err")
		return mrVal{s: "(errorsWrap " + v.s + " " + g.strLit(x.Args[1]) + ")", k: "err", m: v.m}
	case p == "errors.New" && nargs == 1:
		return mrVal{s: "(some (Err.new " + g.strLit(x.Args[0]) + "))", k: "err"}
	case p == "context.Background" && nargs == 0:
		return mrVal{k: "ctx"}
	case p == "strconv.Atoi" && nargs == 1:
		v := g.want(x.Args[0], "str")
		return mrVal{s: "(strconvAtoi " + v.s + ")", multi: []mrKind{"int", "err"}, m: false}
	}
	sel, ok := x.Fun.(*ast.SelectorExpr)
	if !ok {
		g.fail(x, "call %s (not in the primitive table)", p)
	}
	if strings.HasPrefix(p, "bhserrors.Err") && sel.Sel.Name == "Wrap" && nargs == 1 {
		if inner, ok := sel.X.(*ast.SelectorExpr); ok && mrPath(inner.X) == "bhserrors" {
			v := g.want(x.Args[0], "err")
			return mrVal{s: "(bhsWrap " + leanStr(inner.Sel.Name) + " " + v.s + ")", k: "err", m: v.m}
		}
	}
	// calls of translated methods along the wiring table
	if root := strings.SplitN(p, ".", 2)[0]; root == g.recv && g.recv != "" {
		via := strings.TrimPrefix(strings.TrimPrefix(mrPath(sel.X), g.recv), ".")
		if ty, ok := mrWiring[g.fn.recv][via]; ok {
			return g.invoke(g.function(ty, sel.Sel.Name, x), nil, x)
		}
		g.fail(x, "call %s: %q is not in the wiring table of %s", p, via, g.fn.recv)
	}
	recv := g.expr(sel.X)
	for ty, kd := range mrDataRecv { // a translated method on a data value: the receiver is the first argument
		if recv.k == kd && sel.Sel.Name != "" && g.hasMethod(ty, sel.Sel.Name) {
			return g.invoke(g.function(ty, sel.Sel.Name, x), &recv, x)
		}
	}
	switch {
	case sel.Sel.Name == "ToBlockHeader" && nargs == 0 && recv.k == "dbp":
		return mrVal{s: "(← toBlockHeader " + recv.s + ")", k: "hdrp", m: true}
	case sel.Sel.Name == "String" && nargs == 0 && recv.k == "hash":
		return mrVal{s: "(some " + recv.s + ")", k: "key", m: recv.m}
	case sel.Sel.Name == "Query" && nargs == 1 && recv.k == "gin":
		return mrVal{s: "(ginQuery " + recv.s + " " + g.strLit(x.Args[0]) + ")", k: "str"}
	case sel.Sel.Name == "DefaultQuery" && nargs == 2 && recv.k == "gin":
		d := g.want(x.Args[1], "str")
		return mrVal{s: "(ginDefaultQuery " + recv.s + " " + g.strLit(x.Args[0]) + " " + d.s + ")", k: "str", m: d.m}
	}
	g.fail(x, "call %s (not in the primitive table)", p)
	return mrVal{}
}

// call of a translated function: `(← f db_ [excess_] [receiver] args…)`; several results stay a tuple to be bound
func (g *mrGen) invoke(callee *mrFn, recv *mrVal, x *ast.CallExpr) mrVal {
	var args []string
	i := 0
	if callee.useExcess {
		g.fn.useExcess = true
		args = append(args, "excess_")
	}
	if recv != nil {
		if recv.m {
			g.fail(x, "a receiver that can fault")
		}
		args = append(args, g.as(*recv, callee.params[0], x))
		i = 1
	}
	for _, a := range x.Args {
		v := g.expr(a)
		if v.k == "ctx" {
			continue
		}
		if i >= len(callee.params) {
			g.fail(x, "too many arguments for %s", callee.lean)
		}
		if v.m {
			g.fail(a, "an argument that can fault")
		}
		args = append(args, g.as(v, callee.params[i], a))
		i++
	}
	if i != len(callee.params) {
		g.fail(x, "argument count of %s", callee.lean)
	}
	t := strings.TrimSpace(callee.lean + " db_ " + strings.Join(args, " "))
	if len(callee.results) == 1 {
		return mrVal{s: "(← " + t + ")", k: callee.results[0], m: true}
	}
	return mrVal{s: t, multi: callee.results, m: true}
}

func (g *mrGen) hasMethod(recvTy, name string) bool {
	rel, ok := mrTypeFile[recvTy]
	if !ok {
		return false
	}
	for _, d := range g.load(rel).ast.Decls {
		if fd, ok := d.(*ast.FuncDecl); ok && fd.Name.Name == name && fd.Recv != nil && len(fd.Recv.List) == 1 && types.ExprString(fd.Recv.List[0].Type) == "*"+recvTy {
			return true
		}
	}
	return false
}

// ---------- statements ----------

func (g *mrGen) fresh(prefix string) string {
	g.tmp++
	return fmt.Sprintf("%s_%d", prefix, g.tmp)
}

func (g *mrGen) block(list []ast.Stmt, ind int, k mrCont) string {
	if len(list) == 0 {
		return k(ind)
	}
	return g.stmt(list[0], ind, func(ind2 int) string { return g.block(list[1:], ind2, k) })
}

// a nested block with its own scope; the continuation runs in the scopes outside of it
func (g *mrGen) scoped(list []ast.Stmt, ind int, k mrCont) string {
	outer := len(g.scopes)
	g.push()
	s := g.block(list, ind, func(ind2 int) string { return g.outside(outer, func() string { return k(ind2) }) })
	g.scopes = g.scopes[:outer]
	return s
}

// run f with the innermost `depth` scopes only (on a copy: what f declares does not leak into sibling branches)
func (g *mrGen) outside(depth int, f func() string) string {
	saved := g.scopes
	g.scopes = nil
	for _, m := range saved[:depth] {
		c := map[string]mrVar{}
		for k, v := range m {
			c[k] = v
		}
		g.scopes = append(g.scopes, c)
	}
	s := f()
	g.scopes = saved
	return s
}

// <recv>.db.Get|Select(&dest, SQL, args…)
func (g *mrGen) dbCall(e ast.Expr) (string, string, bool) {
	c, ok := e.(*ast.CallExpr)
	if !ok {
		return "", "", false
	}
	sel, ok := c.Fun.(*ast.SelectorExpr)
	if !ok || g.recv == "" || mrPath(sel.X) != g.recv+".db" || g.fn.recv != "HeadersDb" {
		return "", "", false
	}
	if len(c.Args) < 2 {
		g.fail(c, "database call")
	}
	q := c.Args[1]
	if rc, ok := q.(*ast.CallExpr); ok && mrPath(rc.Fun) == g.recv+".db.Rebind" && len(rc.Args) == 1 {
		q = rc.Args[0]
	}
	name, ok := q.(*ast.Ident)
	if !ok {
		g.fail(q, "the SQL statement must be a named constant")
	}
	prim, ok := mrSQL[name.Name]
	if !ok {
		g.fail(q, "SQL constant %s is not in the primitive table", name.Name)
	}
	if prim.verb != sel.Sel.Name {
		g.fail(c, "db.%s with %s (the primitive table has %s)", sel.Sel.Name, name.Name, prim.verb)
	}
	amp, ok := c.Args[0].(*ast.UnaryExpr)
	if !ok || amp.Op != token.AND {
		g.fail(c.Args[0], "destination of a database call")
	}
	dest, ok := amp.X.(*ast.Ident)
	if !ok {
		g.fail(c.Args[0], "destination of a database call")
	}
	if k, d := g.lookup(dest.Name); d < 0 || k != prim.dest {
		g.fail(c.Args[0], "destination of kind %s, %s expects %s", k, name.Name, prim.dest)
	}
	if len(c.Args)-2 != len(prim.args) {
		g.fail(c, "argument count of %s", name.Name)
	}
	s := "db" + prim.verb + "_" + name.Name + " db_ " + g.ref(dest.Name)
	for i, a := range c.Args[2:] {
		v := g.want(a, prim.args[i])
		if v.m {
			g.fail(a, "an argument that can fault")
		}
		s += " " + v.s
	}
	return s, g.ref(dest.Name), true
}

func (g *mrGen) assign(x *ast.AssignStmt, ind int, k mrCont) string {
	define := x.Tok == token.DEFINE
	if x.Tok != token.ASSIGN && !define {
		g.fail(x, "assignment operator %s", x.Tok)
	}
	if len(x.Rhs) != 1 {
		g.fail(x, "assignment shape")
	}
	if len(x.Lhs) == 1 {
		if call, dest, ok := g.dbCall(x.Rhs[0]); ok {
			e := g.bind(x.Lhs[0], "err", define)
			return mrPad(ind) + "let (" + dest + ", " + e + ") ← " + call + "\n" + k(ind)
		}
		if _, isId := x.Lhs[0].(*ast.Ident); !isId {
			return g.pathAssign(x, ind, k)
		}
		v := g.expr(x.Rhs[0])
		if v.multi != nil || v.k == "nil" || v.k == "empty" || v.k == "ctx" {
			g.fail(x, "assignment of this value")
		}
		if id, ok := x.Rhs[0].(*ast.Ident); ok && mrSome[v.k] != "" {
			g.fail(x, "copy of the pointer %s", id.Name)
		}
		n := g.bind(x.Lhs[0], v.k, define)
		kd, _ := g.lookup(x.Lhs[0].(*ast.Ident).Name)
		if n == "_" {
			kd = v.k
		}
		return mrPad(ind) + "let " + n + " : " + g.leanTy(kd) + " := " + v.s + "\n" + k(ind)
	}
	v := g.expr(x.Rhs[0])
	if len(v.multi) != len(x.Lhs) {
		g.fail(x, "assignment shape")
	}
	var names []string
	for i, l := range x.Lhs {
		names = append(names, g.bind(l, v.multi[i], define))
	}
	arrow := ":="
	if v.m {
		arrow = "←"
	}
	return mrPad(ind) + "let (" + strings.Join(names, ", ") + ") " + arrow + " " + v.s + "\n" + k(ind)
}

// p.F.G = e   and   p.F[i].G = e
func (g *mrGen) pathAssign(x *ast.AssignStmt, ind int, k mrCont) string {
	if x.Tok != token.ASSIGN {
		g.fail(x, "`:=` on a field")
	}
	type step struct {
		field string
		index ast.Expr
	}
	var steps []step
	e := x.Lhs[0]
	for {
		switch y := e.(type) {
		case *ast.SelectorExpr:
			steps = append([]step{{field: y.Sel.Name}}, steps...)
			e = y.X
			continue
		case *ast.IndexExpr:
			steps = append([]step{{index: y.Index}}, steps...)
			e = y.X
			continue
		}
		break
	}
	root, ok := e.(*ast.Ident)
	if !ok {
		g.fail(x.Lhs[0], "assignment target")
	}
	rk, d := g.lookup(root.Name)
	if d < 0 || mrFieldOrder[rk] == nil {
		g.fail(x.Lhs[0], "field assignment on %s", root.Name)
	}
	// resolve the kinds along the path
	cur, curK := g.ref(root.Name), rk
	var pre, post []mrField
	var idx ast.Expr
	var sliceTerm string
	for _, s := range steps {
		if s.index != nil {
			if idx != nil {
				g.fail(x.Lhs[0], "two indices in an assignment target")
			}
			el, ok := mrElem[curK]
			if !ok {
				g.fail(x.Lhs[0], "index of a value of kind %s", curK)
			}
			idx, sliceTerm, cur, curK = s.index, cur, "e_", el
			continue
		}
		f, ok := mrFields[curK][s.field]
		if !ok || f.name == "" {
			g.fail(x.Lhs[0], "field %s of a value of kind %s is not assignable", s.field, curK)
		}
		if idx == nil {
			pre = append(pre, f)
		} else {
			post = append(post, f)
		}
		cur, curK = cur+"."+f.name, f.k
	}
	v := g.want(x.Rhs[0], curK)
	nest := func(base string, fs []mrField, val string) string {
		var rec func(b string, fs []mrField) string
		rec = func(b string, fs []mrField) string {
			if len(fs) == 0 {
				return val
			}
			return "{ " + b + " with " + fs[0].name + " := " + rec(b+"."+fs[0].name, fs[1:]) + " }"
		}
		return rec(base, fs)
	}
	r := g.ref(root.Name)
	if idx == nil {
		return mrPad(ind) + "let " + r + " := " + nest(r, pre, v.s) + "\n" + k(ind)
	}
	i := g.want(idx, "int")
	vn, tn := g.fresh("v"), g.fresh("t")
	out := mrPad(ind) + "let " + vn + " := " + v.s + "\n"
	out += mrPad(ind) + "let " + tn + " ← modifyAt " + sliceTerm + " " + i.s + " (fun e_ => " + nest("e_", post, vn) + ")\n"
	out += mrPad(ind) + "let " + r + " := " + nest(r, pre, tn) + "\n"
	return out + k(ind)
}

func (g *mrGen) pureArgs(args []ast.Expr) {
	for _, a := range args {
		ast.Inspect(a, func(n ast.Node) bool {
			switch n.(type) {
			case *ast.CallExpr, *ast.FuncLit, *ast.UnaryExpr:
				g.fail(a, "argument of a skipped call that is not side-effect free")
			}
			return true
		})
	}
}

func (g *mrGen) stmt(s ast.Stmt, ind int, k mrCont) string {
	switch x := s.(type) {
	case *ast.ReturnStmt:
		return g.ret(x, ind)
	case *ast.AssignStmt:
		return g.assign(x, ind, k)
	case *ast.IfStmt:
		return g.ifStmt(x, ind, k)
	case *ast.RangeStmt:
		return g.rangeStmt(x, ind, k)
	case *ast.BranchStmt:
		if x.Tok != token.CONTINUE || x.Label != nil || len(g.loops) == 0 {
			g.fail(s, "%s", x.Tok)
		}
		return g.loops[len(g.loops)-1](ind)
	case *ast.DeclStmt:
		gd, ok := x.Decl.(*ast.GenDecl)
		if !ok || gd.Tok != token.VAR {
			g.fail(s, "declaration")
		}
		out := ""
		for _, sp := range gd.Specs {
			vs := sp.(*ast.ValueSpec)
			kd, ok := mrVarTy[types.ExprString(vs.Type)]
			if vs.Type == nil || !ok || len(vs.Values) != 0 {
				g.fail(s, "var declaration other than an uninitialised variable of a type of the table mrVarTy")
			}
			for _, n := range vs.Names {
				out += mrPad(ind) + "let " + g.bind(n, kd, true) + " : " + g.leanTy(kd) + " := " + mrVarZero[kd] + "\n"
			}
		}
		return out + k(ind)
	case *ast.ExprStmt:
		c, ok := x.X.(*ast.CallExpr)
		if !ok {
			g.fail(s, "expression statement")
		}
		p := mrPath(c.Fun)
		switch {
		case mrLogRe.MatchString(p) && strings.HasPrefix(p, g.recv+"."):
			g.pureArgs(c.Args)
			return k(ind)
		case p == "bhserrors.ErrorResponse" && len(c.Args) == 3 && mrPath(c.Args[2]) == g.recv+".log":
			ctx := g.want(c.Args[0], "gin")
			e := g.want(c.Args[1], "err")
			return mrPad(ind) + "let " + ctx.s + " := errorResponse " + ctx.s + " " + e.s + "\n" + k(ind)
		}
		if sel, ok := c.Fun.(*ast.SelectorExpr); ok && sel.Sel.Name == "JSON" && len(c.Args) == 2 {
			if id, ok := sel.X.(*ast.Ident); ok {
				if kd, _ := g.lookup(id.Name); kd == "gin" {
					st := g.want(c.Args[0], "int")
					v := g.want(c.Args[1], "respp")
					return mrPad(ind) + "let " + g.ref(id.Name) + " := ginJSON " + g.ref(id.Name) + " " + st.s + " " + v.s + "\n" + k(ind)
				}
			}
		}
		g.fail(s, "call %s (not in the effect or skip lists)", p)
	}
	g.fail(s, "statement %T", s)
	return ""
}

func (g *mrGen) ret(x *ast.ReturnStmt, ind int) string {
	res := g.fn.results
	if g.fn.recv == "handler" {
		if len(x.Results) != 0 {
			g.fail(x, "number of results")
		}
		return mrPad(ind) + "pure " + g.ginName()
	}
	if len(x.Results) == 1 && len(res) > 1 { // return f(…)
		v := g.expr(x.Results[0])
		if len(v.multi) != len(res) || !v.m {
			g.fail(x, "number of results")
		}
		for i := range res {
			if v.multi[i] != res[i] {
				g.fail(x, "result %d of the returned call has kind %s, the function returns %s", i, v.multi[i], res[i])
			}
		}
		return mrPad(ind) + v.s
	}
	if len(x.Results) != len(res) {
		g.fail(x, "number of results")
	}
	var parts []string
	for i, r := range x.Results {
		parts = append(parts, g.want(r, res[i]).s)
	}
	if len(parts) == 1 {
		return mrPad(ind) + "pure " + parts[0]
	}
	return mrPad(ind) + "pure (" + strings.Join(parts, ", ") + ")"
}

func (g *mrGen) ginName() string {
	for _, p := range g.fn.decl.Type.Params.List {
		if types.ExprString(p.Type) == "*gin.Context" && len(p.Names) == 1 {
			return admName(p.Names[0].Name)
		}
	}
	g.fail(g.fn.decl, "handler without a *gin.Context parameter")
	return ""
}

func (g *mrGen) ifStmt(x *ast.IfStmt, ind int, k mrCont) string {
	if x.Init != nil {
		as, ok := x.Init.(*ast.AssignStmt)
		if !ok {
			g.fail(x.Init, "if-init statement")
		}
		noInit := *x
		noInit.Init = nil
		outer := len(g.scopes)
		g.push()
		s := g.assign(as, ind, func(ind2 int) string {
			return g.ifStmt(&noInit, ind2, func(ind3 int) string { return g.outside(outer, func() string { return k(ind3) }) })
		})
		g.scopes = g.scopes[:outer]
		return s
	}
	c := g.want(x.Cond, "bool")
	thenS := g.scoped(x.Body.List, ind+1, k)
	var elseS string
	switch e := x.Else.(type) {
	case nil:
		elseS = k(ind + 1)
	case *ast.BlockStmt:
		elseS = g.scoped(e.List, ind+1, k)
	case *ast.IfStmt:
		elseS = g.ifStmt(e, ind+1, k)
	default:
		g.fail(x.Else, "else")
	}
	return mrPad(ind) + "if " + c.s + " then\n" + thenS + "\n" + mrPad(ind) + "else\n" + elseS
}

func (g *mrGen) rangeStmt(x *ast.RangeStmt, ind int, k mrCont) string {
	if x.Tok != token.DEFINE {
		g.fail(x, "range without `:=`")
	}
	xs := g.expr(x.X)
	el, ok := mrElem[xs.k]
	if !ok || xs.m {
		g.fail(x.X, "range over a value of kind %s", xs.k)
	}
	// the loop state: outer variables assigned in the body; no jumps out of the body
	var state []string
	seen := map[string]bool{}
	ast.Inspect(x.Body, func(n ast.Node) bool {
		switch y := n.(type) {
		case *ast.BranchStmt:
			if y.Tok != token.CONTINUE || y.Label != nil {
				g.fail(n, "%s inside a range loop", y.Tok)
			}
		case *ast.ReturnStmt, *ast.DeferStmt, *ast.GoStmt, *ast.FuncLit, *ast.LabeledStmt:
			g.fail(n, "%T inside a range loop", n)
		case *ast.IncDecStmt:
			g.fail(n, "++/--")
		case *ast.AssignStmt:
			if y.Tok == token.DEFINE { // `:=` inside the body declares (or reuses) variables of the body, never an outer one
				return true
			}
			for _, l := range y.Lhs {
				e := l
				for {
					if s, ok := e.(*ast.SelectorExpr); ok {
						e = s.X
					} else if s, ok := e.(*ast.IndexExpr); ok {
						e = s.X
					} else {
						break
					}
				}
				if id, ok := e.(*ast.Ident); ok && !seen[id.Name] {
					if _, d := g.lookup(id.Name); d >= 0 {
						seen[id.Name] = true
						state = append(state, g.ref(id.Name))
					}
				}
			}
		}
		return true
	})
	if len(state) == 0 {
		g.fail(x, "range loop that assigns no outer variable")
	}
	tup := state[0]
	if len(state) > 1 {
		tup = "(" + strings.Join(state, ", ") + ")"
	}
	outer := len(g.scopes)
	g.push()
	name := func(e ast.Expr, kd mrKind) string {
		if e == nil {
			return "_"
		}
		return g.bind(e, kd, true)
	}
	iN, xN := name(x.Key, "int"), name(x.Value, el)
	next := func(ind2 int) string { return mrPad(ind2) + "pure " + tup } // the end of the body and `continue`
	g.loops = append(g.loops, next)
	body := g.scoped(x.Body.List, ind+1, next)
	g.loops = g.loops[:len(g.loops)-1]
	g.scopes = g.scopes[:outer]
	return mrPad(ind) + "let " + tup + " ← forRange " + xs.s + " " + tup + " (fun " + iN + " " + xN + " " + tup + " => do\n" + body + ")\n" + k(ind)
}

// ---------- functions ----------

// the translated function (*recvTy).name; recvTy "" = the plain function `pkg.Name` of the table mrPkgFuncs
func (g *mrGen) function(recvTy, name string, at ast.Node) *mrFn {
	key := recvTy + "." + name
	if fn, ok := g.fns[key]; ok {
		if fn.state == 1 {
			g.fail(at, "recursion through %s", key)
		}
		return fn
	}
	rel, ok := mrTypeFile[recvTy]
	lean, fname := recvTy+"_"+name, name
	if recvTy == "" {
		rel, ok = mrPkgFuncs[name], true
		lean, fname = strings.ReplaceAll(name, ".", "_"), name[strings.Index(name, ".")+1:]
	}
	if !ok {
		g.fail(at, "type %s is not in the file table", recvTy)
	}
	f := g.load(rel)
	var decl *ast.FuncDecl
	for _, d := range f.ast.Decls {
		fd, ok := d.(*ast.FuncDecl)
		if !ok || fd.Name.Name != fname {
			continue
		}
		if recvTy == "" && fd.Recv == nil {
			decl = fd
		}
		if recvTy != "" && fd.Recv != nil && len(fd.Recv.List) == 1 && types.ExprString(fd.Recv.List[0].Type) == "*"+recvTy {
			decl = fd
		}
	}
	if decl == nil || decl.Body == nil {
		if at != nil {
			g.fail(at, "function %s not found in %s", key, rel)
		}
		panic(mrErr{fmt.Sprintf("%s: unsupported: function %s not found", f.path, key)})
	}
	fn := &mrFn{recv: recvTy, name: name, lean: lean, decl: decl, file: f, state: 1}
	g.fns[key] = fn
	// signature
	type pr struct {
		name string
		k    mrKind
	}
	var params []pr
	recvName := ""
	if recvTy != "" && len(decl.Recv.List[0].Names) == 1 {
		recvName = decl.Recv.List[0].Names[0].Name
	}
	if kd, ok := mrDataRecv[recvTy]; ok { // a method on a data value: the receiver is the first parameter
		if recvName == "" {
			g.fail(decl, "unnamed receiver")
		}
		params = append(params, pr{recvName, kd})
		fn.params = append(fn.params, kd)
		recvName = ""
	}
	for _, p := range decl.Type.Params.List {
		kd, ok := mrGoTy[types.ExprString(p.Type)]
		if !ok {
			g.fail(p, "parameter type %s", types.ExprString(p.Type))
		}
		if len(p.Names) == 0 {
			g.fail(p, "unnamed parameter")
		}
		for _, n := range p.Names {
			if kd == "ctx" {
				continue
			}
			params = append(params, pr{n.Name, kd})
			fn.params = append(fn.params, kd)
		}
	}
	if decl.Type.Results != nil {
		for _, r := range decl.Type.Results.List {
			kd, ok := mrGoTy[types.ExprString(r.Type)]
			if !ok || kd == "gin" || kd == "ctx" || len(r.Names) != 0 {
				g.fail(r, "result type %s", types.ExprString(r.Type))
			}
			fn.results = append(fn.results, kd)
		}
	}
	if (recvTy == "handler") != (len(fn.results) == 0) {
		g.fail(decl, "result list")
	}
	// save and reset the per-function state (callees are translated on demand, in the middle of the caller)
	sFn, sRecv, sHTTP, sScopes, sTmp, sLoops := g.fn, g.recv, g.http, g.scopes, g.tmp, g.loops
	g.fn, g.http, g.scopes, g.tmp, g.loops = fn, recvTy == "handler", []map[string]mrVar{{}}, 0, nil
	g.recv = recvName
	sig := ""
	for _, p := range params {
		if p.name != "_" {
			g.scopes[0][p.name] = mrVar{p.k, admName(p.name)}
		}
		sig += " (" + admName(p.name) + " : " + g.leanTy(p.k) + ")"
	}
	var resTy []string
	for _, r := range fn.results {
		resTy = append(resTy, g.leanTy(r))
	}
	if recvTy == "handler" {
		resTy = []string{"Gin"}
	}
	body := g.block(decl.Body.List, 1, func(ind int) string {
		if recvTy != "handler" {
			g.fail(decl, "missing return at the end of %s", name)
		}
		return mrPad(ind) + "pure " + g.ginName()
	})
	head := "def " + fn.lean + " (db_ : Store " + g.hty() + ")"
	if fn.useExcess {
		head += " (excess_ : Int)"
	}
	sig = head + sig + " : Except Fault (" + strings.Join(resTy, " × ") + ") := do\n"
	goSig := strings.Join(strings.Fields(string(f.src[g.fset.Position(decl.Pos()).Offset:g.fset.Position(decl.Body.Lbrace).Offset])), " ")
	fn.text = "/-- " + rel + ": " + goSig + " -/\n" + sig + body + "\n"
	fn.state = 2
	g.order = append(g.order, fn)
	g.fn, g.recv, g.http, g.scopes, g.tmp, g.loops = sFn, sRecv, sHTTP, sScopes, sTmp, sLoops
	return fn
}

func mrModule(mod, rootTy, rootFn, prim, what string) (res string, err error) {
	defer func() {
		if r := recover(); r != nil {
			if e, ok := r.(mrErr); ok {
				res, err = "", fmt.Errorf("%s", e.msg)
				return
			}
			panic(r)
		}
	}()
	g := &mrGen{fset: token.NewFileSet(), files: map[string]*mrFile{}, fns: map[string]*mrFn{}, mod: mod}
	g.checkStructs()
	g.function(rootTy, rootFn, nil)
	var b strings.Builder
	b.WriteString(genHeader)
	b.WriteString("-- " + what + " translated by harness/cmd/extract/gen_merkleroots.go\n")
	b.WriteString("-- (subset, primitive table, effect and skip lists: see its header)\n")
	b.WriteString("import BHS.Model." + prim + "\n\nset_option linter.unusedVariables false\n\nnamespace BHS.Gen." + mod + "\nopen BHS BHS.Chain BHS.MerkleRootsPrim\nvariable {H : Type} [DecidableEq H]\n\n")
	for _, fn := range g.order {
		b.WriteString(fn.text + "\n")
	}
	b.WriteString("end BHS.Gen." + mod + "\n")
	return b.String(), nil
}

func genMerkleRoots() (string, error) {
	return mrModule("MerkleRoots", "handler", "merkleroots", "MerkleRootsPrim",
		"the merkle-root listing (handler, service, repository, SQL layer)")
}

// Gen.Confirmations: the merkle-root verification below the handler (property C02) — service → repository → dto mapping → SQL layer
func genConfirmations() (string, error) {
	return mrModule("Confirmations", "MerklerootsService", "GetMerkleRootsConfirmations", "ConfirmationsPrim",
		"the merkle-root verification below the handler (service, repository, dto mapping, SQL layer)")
}
