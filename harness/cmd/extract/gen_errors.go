package main

// Gen.Errors: the table of `bhserrors` definitions (Go name, code, HTTP status, message) and the
// fallback of `mapAndLog` (code / message / status used for an error that is not an ExtendedError).
//
// The definitions are package-level `var ErrX = BHSError{...}` composite literals; Go cannot
// enumerate package variables by reflection, so the *list* comes from the syntax tree of every
// non-test file of /repo/bhserrors (a new definition appears in the table by itself), and the
// *values* of the definitions the HTTP model uses by name are cross-checked against the compiled
// package (the compiler is the translator). Anything that is not a plain literal any more is an
// extraction error, which re-opens the obligations of C16.

import (
	"fmt"
	"go/ast"
	"go/parser"
	"go/token"
	"os"
	"path/filepath"
	"sort"
	"strconv"
	"strings"
	"unicode"

	"github.com/bitcoin-sv/block-headers-service/bhserrors"
)

func init() { register("Errors", genErrors) }

type errDef struct {
	name, code, msg string
	status          int
	file            string
	line            int
}

func errLeanStr(s string) string {
	var b strings.Builder
	b.WriteByte('"')
	for _, r := range s {
		switch {
		case r == '"':
			b.WriteString("\\\"")
		case r == '\\':
			b.WriteString("\\\\")
		case r < 0x20 || r == 0x7f:
			fmt.Fprintf(&b, "\\x%02x", r)
		default:
			b.WriteRune(r)
		}
	}
	b.WriteByte('"')
	return b.String()
}

func errLowerFirst(s string) string {
	r := []rune(s)
	r[0] = unicode.ToLower(r[0])
	return string(r)
}

// compiled values of the definitions the handlers (and therefore the model) refer to by name
var errCompiled = map[string]bhserrors.BHSError{
	"ErrGeneric":                      bhserrors.ErrGeneric,
	"ErrBindBody":                     bhserrors.ErrBindBody,
	"ErrMissingAuthHeader":            bhserrors.ErrMissingAuthHeader,
	"ErrInvalidAuthHeader":            bhserrors.ErrInvalidAuthHeader,
	"ErrInvalidAccessToken":           bhserrors.ErrInvalidAccessToken,
	"ErrUnauthorized":                 bhserrors.ErrUnauthorized,
	"ErrAdminTokenNotFound":           bhserrors.ErrAdminTokenNotFound,
	"ErrMerklerootNotFound":           bhserrors.ErrMerklerootNotFound,
	"ErrMerklerootNotInLongestChain":  bhserrors.ErrMerklerootNotInLongestChain,
	"ErrInvalidBatchSize":             bhserrors.ErrInvalidBatchSize,
	"ErrGetChainTipHeight":            bhserrors.ErrGetChainTipHeight,
	"ErrVerifyMerklerootsBadBody":     bhserrors.ErrVerifyMerklerootsBadBody,
	"ErrAncestorHashHigher":           bhserrors.ErrAncestorHashHigher,
	"ErrAncestorNotFound":             bhserrors.ErrAncestorNotFound,
	"ErrHeadersNotPartOfTheSameChain": bhserrors.ErrHeadersNotPartOfTheSameChain,
	"ErrHeaderWithGivenHashes":        bhserrors.ErrHeaderWithGivenHashes,
	"ErrInvalidHeight":                bhserrors.ErrInvalidHeight,
	"ErrCommonAncestorEmptyList":      bhserrors.ErrCommonAncestorEmptyList,
	"ErrTokenNotFound":                bhserrors.ErrTokenNotFound,
	"ErrHeaderNotFound":               bhserrors.ErrHeaderNotFound,
	"ErrHeadersForGivenRangeNotFound": bhserrors.ErrHeadersForGivenRangeNotFound,
	"ErrURLBodyRequired":              bhserrors.ErrURLBodyRequired,
	"ErrURLParamRequired":             bhserrors.ErrURLParamRequired,
	"ErrWebhookNotFound":              bhserrors.ErrWebhookNotFound,
	"ErrRefreshWebhook":               bhserrors.ErrRefreshWebhook,
}

func errStrLit(e ast.Expr) (string, bool) {
	l, ok := e.(*ast.BasicLit)
	if !ok || l.Kind != token.STRING {
		return "", false
	}
	s, err := strconv.Unquote(l.Value)
	return s, err == nil
}

func errIntLit(e ast.Expr) (int, bool) {
	l, ok := e.(*ast.BasicLit)
	if !ok || l.Kind != token.INT {
		return 0, false
	}
	n, err := strconv.ParseInt(l.Value, 0, 32)
	return int(n), err == nil
}

func genErrors() (string, error) {
	dir := filepath.Join(*repo, "bhserrors")
	ents, err := os.ReadDir(dir)
	if err != nil {
		return "", err
	}
	fset := token.NewFileSet()
	var defs []errDef
	fbMsg, fbStatus := "", -1
	for _, ent := range ents {
		n := ent.Name()
		if ent.IsDir() || !strings.HasSuffix(n, ".go") || strings.HasSuffix(n, "_test.go") {
			continue
		}
		f, err := parser.ParseFile(fset, filepath.Join(dir, n), nil, 0)
		if err != nil {
			return "", err
		}
		for _, d := range f.Decls {
			switch d := d.(type) {
			case *ast.GenDecl:
				if d.Tok != token.VAR {
					continue
				}
				for _, sp := range d.Specs {
					vs := sp.(*ast.ValueSpec)
					for i, name := range vs.Names {
						if i >= len(vs.Values) {
							continue
						}
						cl, ok := vs.Values[i].(*ast.CompositeLit)
						if !ok {
							continue
						}
						if id, ok := cl.Type.(*ast.Ident); !ok || id.Name != "BHSError" {
							continue
						}
						def := errDef{name: name.Name, status: -1, file: "bhserrors/" + n, line: fset.Position(name.Pos()).Line}
						for _, el := range cl.Elts {
							kv, ok := el.(*ast.KeyValueExpr)
							if !ok {
								return "", fmt.Errorf("bhserrors.%s: positional composite literal", name.Name)
							}
							key, _ := kv.Key.(*ast.Ident)
							if key == nil {
								return "", fmt.Errorf("bhserrors.%s: unexpected key", name.Name)
							}
							switch key.Name {
							case "Code":
								if def.code, ok = errStrLit(kv.Value); !ok {
									return "", fmt.Errorf("bhserrors.%s.Code is not a string literal any more", name.Name)
								}
							case "Message":
								if def.msg, ok = errStrLit(kv.Value); !ok {
									return "", fmt.Errorf("bhserrors.%s.Message is not a string literal any more", name.Name)
								}
							case "StatusCode":
								if def.status, ok = errIntLit(kv.Value); !ok {
									return "", fmt.Errorf("bhserrors.%s.StatusCode is not an integer literal any more", name.Name)
								}
							}
						}
						if def.status < 0 {
							def.status = 0 // field left out: Go's zero value
						}
						defs = append(defs, def)
					}
				}
			case *ast.FuncDecl:
				if d.Name.Name != "mapAndLog" || d.Body == nil {
					continue
				}
				// the fallback assignments at the top of mapAndLog (before any branching)
				for _, st := range d.Body.List {
					as, ok := st.(*ast.AssignStmt)
					if !ok || len(as.Lhs) != 1 || len(as.Rhs) != 1 {
						continue
					}
					switch lhs := as.Lhs[0].(type) {
					case *ast.Ident:
						if lhs.Name == "statusCode" {
							if v, ok := errIntLit(as.Rhs[0]); ok {
								fbStatus = v
							}
						}
					case *ast.SelectorExpr:
						if lhs.Sel.Name == "Message" {
							if v, ok := errStrLit(as.Rhs[0]); ok {
								fbMsg = v
							}
						}
					}
				}
			}
		}
	}
	if len(defs) == 0 {
		return "", fmt.Errorf("no BHSError definitions found under %s", dir)
	}
	if fbStatus < 0 || fbMsg == "" {
		return "", fmt.Errorf("mapAndLog: fallback status / message are not literal assignments at the top of the function any more")
	}
	byName := map[string]errDef{}
	for _, d := range defs {
		byName[d.name] = d
	}
	var names []string
	for n := range errCompiled {
		names = append(names, n)
	}
	sort.Strings(names)
	for _, n := range names {
		c := errCompiled[n]
		d, ok := byName[n]
		if !ok {
			return "", fmt.Errorf("bhserrors.%s exists in the compiled package but was not found in the syntax tree", n)
		}
		if d.code != c.Code || d.msg != c.Message || d.status != c.StatusCode {
			return "", fmt.Errorf("bhserrors.%s: syntax tree (%q,%d,%q) and compiled value (%q,%d,%q) differ", n, d.code, d.status, d.msg, c.Code, c.StatusCode, c.Message)
		}
	}
	sort.SliceStable(defs, func(i, j int) bool {
		if defs[i].file != defs[j].file {
			return defs[i].file < defs[j].file
		}
		return defs[i].line < defs[j].line
	})
	var b strings.Builder
	b.WriteString(genHeader)
	b.WriteString("-- every `var ErrX = BHSError{...}` of /repo/bhserrors (go/ast; values used by handlers cross-checked against the compiled package)\n")
	b.WriteString("namespace BHS.Gen\n\n")
	b.WriteString("/-- one `bhserrors.BHSError` definition -/\nstructure ErrDef where\n  name : String\n  code : String\n  status : Nat\n  message : String\nderiving DecidableEq, Repr\n\n")
	for _, d := range defs {
		fmt.Fprintf(&b, "-- %s:%d\ndef %s : ErrDef := ⟨%s, %s, %d, %s⟩\n", d.file, d.line, errLowerFirst(d.name), errLeanStr(d.name), errLeanStr(d.code), d.status, errLeanStr(d.msg))
	}
	b.WriteString("\n/-- all definitions, in source order -/\ndef errorTable : List ErrDef := [\n")
	for i, d := range defs {
		sep := ","
		if i == len(defs)-1 {
			sep = ""
		}
		fmt.Fprintf(&b, "  %s%s\n", errLowerFirst(d.name), sep)
	}
	b.WriteString("]\n\n")
	b.WriteString("-- bhserrors/http_response.go: what mapAndLog answers for an error that is not an ExtendedError\n")
	fmt.Fprintf(&b, "def unknownErrorCode : String := %s\n", errLeanStr(bhserrors.UnknownErrorCode))
	fmt.Fprintf(&b, "def unknownErrorMessage : String := %s\n", errLeanStr(fbMsg))
	fmt.Fprintf(&b, "def unknownErrorStatus : Nat := %d\n", fbStatus)
	b.WriteString("\nend BHS.Gen\n")
	return b.String(), nil
}
