package main

// Gen.Import: the prepared-database import of property C17 — database/import.go `importHeaders` and every function of
// database/import.go and database/sqlite_adapter.go it reaches (removeImportedHeaders, validateDbConsistency,
// validateHeightUniqueness, validateNewestCheckpointBlock, (*sqLiteAdapter).importHeaders, (*sqLiteAdapter).insertHeaders,
// prepareRecord, parseRecordToBlockHeadersSource, calculateFields, parseChainHash) — TRANSLATED statement by statement
// into Lean `do` blocks over the monad and primitives of lean/BHS/Model/ImportPrim.lean. The call graph is discovered
// from `importHeaders` (callees are emitted first; recursion is refused), so an inlined, renamed, added or removed
// helper changes the generated module. Refinement theorems: lean/BHS/Props/ImportGen.lean.
//
// SUBSET (anything else: `file:line:col: unsupported: …`, exit 1, module emptied, the obligation is broken)
//   statements   x := e | x = e | a, b := f(…) | a, b = f(…) | a, b = e1, e2 (parallel) | var x T [= e] | x++ |
//                x.Add(x, y) on big integers | if [init;] c {…} [else if …] [else {…}] | return [e…] (naked with named
//                results) | break | for init; c; post {…} | for {…} | calls of translated functions as statements |
//                the skip list below. Control flow is rendered in continuation style: what follows an `if` is emitted
//                once per branch that falls through, an assignment is a shadowing `let`, so every path of the Go
//                function is one straight line. A `for` becomes its own structurally recursive Lean function over a
//                fuel, its arguments are the variables the loop assigns (the value CARRIED from one iteration to the
//                next is exactly what the Go text carries); it answers `Ctl.next state` (condition false / break) or
//                `Ctl.ret values` (a `return` inside the loop). Fuel: `for i := a; i < n; i++` whose body assigns
//                neither i nor the variables of n gets (n − a) + 1, every other loop `loopFuel` (unread records + 2);
//                exhausted fuel is the outcome `diverged`, which the refinement theorem excludes.
//   expressions  identifiers, nil, integer and string literals, package constants of the two files (fields of the
//                generated structure `Consts`, the Go values in `consts`), sql.HeadersTableName (read from database/sql),
//                + and - on ints, == != < <= > >=, ! && || (in the condition of an `if` an effectful right operand is
//                rendered by nested ifs = Go's short-circuit evaluation; elsewhere it must be effect-free), x == nil / x != nil on errors
//                and pointers, len, append(xs, x), make([]T, 0, n), xs[i], *p, &x, p.F, conversions int / int32 / int64 /
//                uint32 / uint64 (identity, see ImportPrim.lean), composite literals of dto.DbBlockHeader and
//                domains.BlockHeaderSource (all fields required) and chainhash.Hash{}, calls of translated functions
//                and of the primitive table. Effectful subexpressions are bound to temporaries first (A-normal form).
//   types        int int32 int64 ↦ Int; uint32 uint64 *big.Int time.Time ↦ Nat; string ↦ GoStr H; []string ↦ Record;
//                error ↦ Option Err; *dto.DbBlockHeader ↦ Option (Row H); dto.DbBlockHeader ↦ Row H; []dto.DbBlockHeader ↦
//                List (Row H); *domains.BlockHeaderSource ↦ Option (Src H); *chainhash.Hash ↦ Option H; chainhash.Hash,
//                domains.BlockHash ↦ H; chaincfg.Checkpoint ↦ Nat × H; handles (dbAdapter, *sqLiteAdapter, *sqlx.DB,
//                *sql.HeadersDb, *csv.Reader, *os.File, *zerolog.Logger, *config.AppConfig, context.Context, the block
//                hasher, restore closures) carry no Lean value: there is one world.
// PRIMITIVE TABLE (Go ↦ ImportPrim.lean)
//   <repo>.Count ↦ repoCount; <repo>.Height ↦ repoHeight; <repo>.CreateMultiple(ctx, b) ↦ createMultiple b;
//   <db>.Exec(q) ↦ sqlExec q; <db>.Get(&v, q) ↦ sqlGet v q (binds v and the error); fmt.Sprintf(lit, …) ↦ Fmt.mk lit ints strs;
//   <reader>.Read() ↦ csvRead; csv.NewReader(f) ↦ csvNewReader; getHeadersFile(…) ↦ getHeadersFile;
//   strconv.ParseInt / ParseUint ↦ strconvParseInt / strconvParseUint; chainhash.NewHashFromStr ↦ newHashFromStr cd_;
//   parseBigInt ↦ parseBigInt; time.Unix ↦ timeUnix; <hasher>.BlockHash(p) ↦ cfg_.hashOf (deref p);
//   domains.CalculateWork(b) ↦ Chain.work b; .BigInt() ↦ identity; <hash>.String() ↦ GoStr.hash; <big>.String() ↦ GoStr.dec;
//   chainhash.Hash{} ↦ cd_.zero; config.Checkpoints ↦ checkpoints; fmt.Errorf(lit, …) ↦ some (Err.errorf lit ints wrapped)
//   (integer arguments and the one error argument are kept, string arguments dropped); errors.New(lit) ↦ some (Err.new lit);
//   errors.Is(e, io.EOF) ↦ errorsIs e Err.eof; modifySqLitePragmas, <adapter>.dropTableIndexes, <file>.Seek ↦ envOk (succeed);
//   sql.NewHeadersDb, <db>.getDBx(), context.Background(), service.DefaultBlockHasher(), selectors of handles ↦ handles;
//   a string stored in a hash / big-integer / state field of a row ↦ asHash / asDec / asState; interface dbAdapter ↦ the
//   methods of *sqLiteAdapter (PostgreSQL is out of scope of C17).
// SKIP LIST (not translated): log.<Level>().Msg/Msgf(…) statements (arguments may only call .Error() / .String());
//   an `if` without else whose body consists of such statements (its condition must be effect-free; its init statement IS
//   translated); `defer dropHeadersFile(…)`; `defer func() { if rErr := <restore closure>(); rErr != nil { … } }()` (the
//   restore closures of the pragma / index handling succeed).

import (
	"fmt"
	"go/ast"
	"go/parser"
	"go/token"
	"go/types"
	"path/filepath"
	"regexp"
	"sort"
	"strconv"
	"strings"
)

func init() { register("Import", genImport) }

type ik string // int nat str rec err bool rowp row rows srcp src hashp hash big time cp cps fmt handle restore errval nil

var impLeanTy = map[ik]string{"int": "Int", "nat": "Nat", "str": "GoStr H", "rec": "Record", "err": "Option Err", "bool": "Bool",
	"rowp": "Option (Row H)", "row": "Row H", "rows": "List (Row H)", "srcp": "Option (Src H)", "src": "Src H", "hashp": "Option H",
	"hash": "H", "big": "Nat", "time": "Nat", "cp": "(Nat × H)", "cps": "List (Nat × H)", "fmt": "Fmt H"}

var impGoTy = map[string]ik{"int": "int", "int32": "int", "int64": "int", "uint32": "nat", "uint64": "nat", "string": "str",
	"[]string": "rec", "error": "err", "bool": "bool", "*dto.DbBlockHeader": "rowp", "dto.DbBlockHeader": "row",
	"[]dto.DbBlockHeader": "rows", "*domains.BlockHeaderSource": "srcp", "domains.BlockHeaderSource": "src",
	"*chainhash.Hash": "hashp", "chainhash.Hash": "hash", "*big.Int": "big", "time.Time": "time",
	"dbAdapter": "handle", "*sqLiteAdapter": "handle", "*config.AppConfig": "handle", "*zerolog.Logger": "handle",
	"*sql.HeadersDb": "handle", "*sqlx.DB": "handle", "*os.File": "handle", "*csv.Reader": "handle", "context.Context": "handle"}

var impZero = map[ik]string{"int": "(0 : Int)", "nat": "(0 : Nat)", "str": "(GoStr.lit \"\")", "rec": "([] : Record)", "err": "none",
	"rowp": "none", "srcp": "none", "hashp": "none", "rows": "([] : List (Row H))", "big": "(0 : Nat)", "bool": "false"}

type impField struct {
	lean string
	k    ik
}

// the data refinement dto.DbBlockHeader ≙ Row (checked against the struct declaration), domains.BlockHeaderSource ≙ Src,
// chaincfg.Checkpoint ≙ Nat × H. The kind is the kind of the Go field (string columns are GoStr H on the Go side).
var impRowFields = map[string]impField{"Height": {"height", "int"}, "Hash": {"hash", "str"}, "Version": {"version", "int"},
	"MerkleRoot": {"merkle", "str"}, "Timestamp": {"time", "time"}, "Bits": {"bits", "nat"}, "Nonce": {"nonce", "nat"},
	"State": {"st", "str"}, "Chainwork": {"work", "str"}, "CumulatedWork": {"cum", "str"}, "PreviousBlock": {"prev", "str"}}
var impRowOrder = []string{"Height", "Hash", "Version", "MerkleRoot", "Timestamp", "Bits", "Nonce", "State", "Chainwork", "CumulatedWork", "PreviousBlock"}

// how a row field is read back / written: column kind of the model
var impRowCol = map[string]string{"Height": "natOfInt", "Hash": "hash", "Version": "id", "MerkleRoot": "hash", "Timestamp": "id",
	"Bits": "id", "Nonce": "id", "State": "state", "Chainwork": "dec", "CumulatedWork": "dec", "PreviousBlock": "hash"}
var impSrcFields = map[string]impField{"Version": {"version", "int"}, "PrevBlock": {"prev", "hash"}, "MerkleRoot": {"merkle", "hash"},
	"Timestamp": {"time", "time"}, "Bits": {"bits", "nat"}, "Nonce": {"nonce", "nat"}}
var impSrcOrder = []string{"Version", "PrevBlock", "MerkleRoot", "Timestamp", "Bits", "Nonce"}

var impLogRe = regexp.MustCompile(`^log\.(Trace|Debug|Info|Warn|Error)\(\)\.(Msgf|Msg)$`)

var impKeywords = func() map[string]bool {
	m := map[string]bool{}
	for _, w := range strings.Fields(`abbrev at attribute axiom break by calc catch class continue def deriving do else end
		example export extends finally for from fun have if import in include inductive infix infixl infixr instance let local
		macro match meta mut mutual namespace nofun nomatch noncomputable nonrec notation omit opaque open partial postfix
		prefix private protected public repeat return scoped section show structure suffices syntax then theorem this try
		universe unless unsafe until using variable where while with Type Prop Sort elab initialize sorry admit
		termination_by decreasing_by cfg_ cd_ k_ fuel_ ctl_`) {
		m[w] = true
	}
	return m
}()

type impErr struct{ msg string }

type ival struct {
	lean string
	k    ik
}

type ivar struct {
	goName string
	lean   string
	k      ik
}

type iscope struct {
	vars   map[string]*ivar
	order  []*ivar
	parent *iscope
}

func impScope(p *iscope) *iscope { return &iscope{vars: map[string]*ivar{}, parent: p} }

func (s *iscope) lookup(n string) *ivar {
	for c := s; c != nil; c = c.parent {
		if v, ok := c.vars[n]; ok {
			return v
		}
	}
	return nil
}

func (s *iscope) leanTaken(n string) bool {
	for c := s; c != nil; c = c.parent {
		for _, v := range c.order {
			if v.lean == n {
				return true
			}
		}
	}
	return false
}

// a declaration in scope s: the Lean name is the Go name unless a visible variable already has it
func (s *iscope) declare(n string, k ik) *ivar {
	lean := n
	if impKeywords[n] {
		lean = "«" + n + "»"
	}
	if k != "handle" && k != "restore" {
		for i := 1; s.leanTaken(lean); i++ {
			lean = fmt.Sprintf("%s_%d", n, i)
		}
	} else {
		lean = ""
	}
	v := &ivar{goName: n, lean: lean, k: k}
	s.vars[n] = v
	s.order = append(s.order, v)
	return v
}

// every visible variable, outermost first (shadowed ones left out)
func (s *iscope) visible() []*ivar {
	var chain []*iscope
	for c := s; c != nil; c = c.parent {
		chain = append([]*iscope{c}, chain...)
	}
	var out []*ivar
	for _, c := range chain {
		for _, v := range c.order {
			if s.lookup(v.goName) == v {
				out = append(out, v)
			}
		}
	}
	return out
}

type isig struct {
	lean    string
	params  []ik
	results []ik
}

type iloop struct {
	name  string
	state []*ivar
	fixed []*ivar
	post  ast.Stmt
}

type itr struct {
	fset   *token.FileSet
	funcs  map[string]*ast.FuncDecl
	file   map[string]string // function key -> file (relative)
	consts map[string]string // int constants of the two files
	ext    map[string]string // pkg.Name -> string constant of another package
	sigs   map[string]*isig
	inprog map[string]bool
	out    []string
}

type ifn struct {
	t       *itr
	key     string
	sig     *isig
	named   []*ivar // named results (nil when unnamed)
	loops   []*iloop
	loopN   int
	tmpN    int
	resKind []ik
}

func (t *itr) fail(n ast.Node, msg string) {
	panic(impErr{fmt.Sprintf("%s: unsupported: %s", t.fset.Position(n.Pos()), msg)})
}

func impPad(n int) string { return strings.Repeat("  ", n) }

func impPath(e ast.Expr) string {
	switch x := e.(type) {
	case *ast.Ident:
		return x.Name
	case *ast.SelectorExpr:
		return impPath(x.X) + "." + x.Sel.Name
	case *ast.CallExpr:
		if len(x.Args) == 0 {
			return impPath(x.Fun) + "()"
		}
	}
	return "?"
}

func impTuple(xs []string) string {
	switch len(xs) {
	case 0:
		return "()"
	case 1:
		return xs[0]
	}
	return "(" + strings.Join(xs, ", ") + ")"
}

func impTupleTy(ks []ik) string {
	var xs []string
	for _, k := range ks {
		if k != "handle" && k != "restore" {
			xs = append(xs, impLeanTy[k])
		}
	}
	switch len(xs) {
	case 0:
		return "Unit"
	case 1:
		if strings.Contains(xs[0], " ") && !strings.HasPrefix(xs[0], "(") {
			return "(" + xs[0] + ")"
		}
		return xs[0]
	}
	return "(" + strings.Join(xs, " × ") + ")"
}

func impIsHandle(k ik) bool { return k == "handle" || k == "restore" }

func (t *itr) kindOf(e ast.Expr) ik {
	s := types.ExprString(e)
	k, ok := impGoTy[s]
	if !ok {
		t.fail(e, "type "+s)
	}
	return k
}

func (f *ifn) tmp() string {
	f.tmpN++
	return fmt.Sprintf("t%d", f.tmpN)
}

func impQuote(s string) string {
	return "\"" + strings.NewReplacer("\\", "\\\\", "\"", "\\\"", "\n", "\\n", "\t", "\\t").Replace(s) + "\""
}

// ---------- expressions ----------

type icall struct {
	act  string
	res  []ik
	vals []ival
	out  []*ivar
}

func (f *ifn) strLit(e ast.Expr) string {
	b, ok := e.(*ast.BasicLit)
	if !ok || b.Kind != token.STRING {
		f.t.fail(e, "a string literal is required here")
	}
	s, err := strconv.Unquote(b.Value)
	if err != nil {
		f.t.fail(e, "string literal")
	}
	return s
}

func (f *ifn) want(e ast.Expr, sc *iscope, pre *[]string, k ik) ival {
	if id, ok := e.(*ast.Ident); ok && id.Name == "nil" {
		switch k {
		case "err", "rowp", "srcp", "hashp":
			return ival{"none", k}
		}
		f.t.fail(e, "nil where "+string(k)+" is expected")
	}
	if b, ok := e.(*ast.BasicLit); ok && b.Kind == token.INT && k == "nat" {
		return ival{"(" + b.Value + " : Nat)", "nat"}
	}
	v := f.expr(e, sc, pre)
	if v.k == "str" && k == "fmt" {
		return ival{"(Fmt.ofStr " + v.lean + ")", "fmt"}
	}
	if v.k != k {
		f.t.fail(e, fmt.Sprintf("expected %s, found %s", k, v.k))
	}
	return v
}

func (f *ifn) expr(e ast.Expr, sc *iscope, pre *[]string) ival {
	t := f.t
	switch x := e.(type) {
	case *ast.ParenExpr:
		return f.expr(x.X, sc, pre)
	case *ast.BasicLit:
		switch x.Kind {
		case token.INT:
			return ival{"(" + x.Value + " : Int)", "int"}
		case token.STRING:
			return ival{"(GoStr.lit " + impQuote(f.strLit(x)) + ")", "str"}
		}
	case *ast.Ident:
		if v := sc.lookup(x.Name); v != nil {
			return ival{v.lean, v.k}
		}
		if _, ok := t.consts[x.Name]; ok {
			return ival{"k_." + x.Name, "int"}
		}
		if x.Name == "nil" {
			return ival{"none", "nil"}
		}
		t.fail(e, "identifier "+x.Name)
	case *ast.StarExpr:
		v := f.expr(x.X, sc, pre)
		return f.deref(e, v, pre)
	case *ast.UnaryExpr:
		switch x.Op {
		case token.AND:
			v := f.expr(x.X, sc, pre)
			switch v.k {
			case "src":
				return ival{"(some " + v.lean + ")", "srcp"}
			case "row":
				return ival{"(some " + v.lean + ")", "rowp"}
			case "hash":
				return ival{"(some " + v.lean + ")", "hashp"}
			}
			t.fail(e, "& of "+string(v.k))
		case token.SUB:
			v := f.want(x.X, sc, pre, "int")
			return ival{"(-" + v.lean + ")", "int"}
		}
	case *ast.BinaryExpr:
		if x.Op == token.ADD || x.Op == token.SUB {
			l := f.want(x.X, sc, pre, "int")
			r := f.want(x.Y, sc, pre, "int")
			return ival{"(" + l.lean + " " + x.Op.String() + " " + r.lean + ")", "int"}
		}
	case *ast.IndexExpr:
		xs := f.expr(x.X, sc, pre)
		i := f.want(x.Index, sc, pre, "int")
		n := f.tmp()
		switch xs.k {
		case "rec":
			*pre = append(*pre, fmt.Sprintf("let %s ← indexRec %s %s", n, xs.lean, i.lean))
			return ival{n, "str"}
		case "cps":
			*pre = append(*pre, fmt.Sprintf("let %s ← index %s %s", n, xs.lean, i.lean))
			return ival{n, "cp"}
		}
		t.fail(e, "index of "+string(xs.k))
	case *ast.SelectorExpr:
		if id, ok := x.X.(*ast.Ident); ok && sc.lookup(id.Name) == nil {
			p := id.Name + "." + x.Sel.Name
			switch p {
			case "config.Checkpoints":
				n := f.tmp()
				*pre = append(*pre, "let "+n+" ← checkpoints")
				return ival{n, "cps"}
			case "io.EOF":
				return ival{"Err.eof", "errval"}
			}
			if s, ok := t.ext[p]; ok {
				return ival{"(GoStr.lit " + impQuote(s) + ")", "str"}
			}
			t.fail(e, "package member "+p)
		}
		v := f.expr(x.X, sc, pre)
		switch v.k {
		case "handle":
			return ival{"", "handle"}
		case "rowp", "srcp":
			v = f.deref(e, v, pre)
		}
		switch v.k {
		case "row":
			fl, ok := impRowFields[x.Sel.Name]
			if !ok {
				t.fail(e, "field "+x.Sel.Name+" of dto.DbBlockHeader")
			}
			a := v.lean + "." + fl.lean
			switch impRowCol[x.Sel.Name] {
			case "hash":
				return ival{"(GoStr.hash " + a + ")", "str"}
			case "dec":
				return ival{"(GoStr.dec " + a + ")", "str"}
			case "natOfInt":
				return ival{"(" + a + " : Int)", "int"}
			case "state":
				t.fail(e, "reading the state column")
			}
			return ival{a, fl.k}
		case "src":
			fl, ok := impSrcFields[x.Sel.Name]
			if !ok {
				t.fail(e, "field "+x.Sel.Name+" of domains.BlockHeaderSource")
			}
			return ival{v.lean + "." + fl.lean, fl.k}
		case "cp":
			switch x.Sel.Name {
			case "Height":
				return ival{"(" + v.lean + ".1 : Int)", "int"}
			case "Hash":
				return ival{v.lean + ".2", "hash"}
			}
		}
		t.fail(e, "selector ."+x.Sel.Name+" on "+string(v.k))
	case *ast.CompositeLit:
		return f.composite(x, sc, pre)
	case *ast.CallExpr:
		c := f.call(x, sc, pre)
		if c.act == "" {
			if len(c.vals) != 1 {
				t.fail(e, "a call with one result is required here")
			}
			return c.vals[0]
		}
		if len(c.out) > 0 {
			t.fail(e, "call assigning through a pointer in an expression")
		}
		var ks []ik
		for _, k := range c.res {
			if !impIsHandle(k) {
				ks = append(ks, k)
			}
		}
		switch len(ks) {
		case 0:
			*pre = append(*pre, c.act)
			return ival{"", "handle"}
		case 1:
			if len(c.res) != 1 {
				t.fail(e, "a call with one result is required here")
			}
			n := f.tmp()
			*pre = append(*pre, "let "+n+" ← "+c.act)
			return ival{n, ks[0]}
		}
		t.fail(e, "a call with one result is required here")
	}
	t.fail(e, fmt.Sprintf("expression %T", e))
	return ival{}
}

func (f *ifn) deref(at ast.Node, v ival, pre *[]string) ival {
	to := map[ik]ik{"rowp": "row", "srcp": "src", "hashp": "hash"}[v.k]
	if to == "" {
		f.t.fail(at, "dereference of "+string(v.k))
	}
	n := f.tmp()
	*pre = append(*pre, "let "+n+" ← deref "+v.lean)
	return ival{n, to}
}

func (f *ifn) composite(x *ast.CompositeLit, sc *iscope, pre *[]string) ival {
	t := f.t
	ty := types.ExprString(x.Type)
	given := map[string]ast.Expr{}
	for _, el := range x.Elts {
		kv, ok := el.(*ast.KeyValueExpr)
		if !ok {
			t.fail(el, "positional composite literal")
		}
		id, ok := kv.Key.(*ast.Ident)
		if !ok || given[id.Name] != nil {
			t.fail(el, "composite literal key")
		}
		given[id.Name] = kv.Value
	}
	switch ty {
	case "chainhash.Hash":
		if len(x.Elts) != 0 {
			t.fail(x, "non-empty chainhash.Hash literal")
		}
		return ival{"cd_.zero", "hash"}
	case "domains.BlockHeaderSource":
		var parts []string
		for _, g := range impSrcOrder {
			ex, ok := given[g]
			if !ok {
				t.fail(x, "field "+g+" missing in the BlockHeaderSource literal")
			}
			fl := impSrcFields[g]
			v := f.want(ex, sc, pre, fl.k)
			parts = append(parts, fl.lean+" := "+v.lean)
			delete(given, g)
		}
		if len(given) != 0 {
			t.fail(x, "unknown field in the BlockHeaderSource literal")
		}
		return ival{"({ " + strings.Join(parts, ", ") + " } : Src H)", "src"}
	case "dto.DbBlockHeader":
		parts := []string{"id := 0"}
		for _, g := range impRowOrder {
			ex, ok := given[g]
			if !ok {
				t.fail(x, "field "+g+" missing in the DbBlockHeader literal")
			}
			fl := impRowFields[g]
			v := f.want(ex, sc, pre, fl.k)
			val := v.lean
			conv := map[string]string{"hash": "asHash", "dec": "asDec", "state": "asState"}[impRowCol[g]]
			if conv != "" {
				n := f.tmp()
				*pre = append(*pre, "let "+n+" ← "+conv+" "+val)
				val = n
			} else if impRowCol[g] == "natOfInt" {
				val = "(Int.toNat " + val + ")"
			}
			parts = append(parts, fl.lean+" := "+val)
			delete(given, g)
		}
		if len(given) != 0 {
			t.fail(x, "unknown field in the DbBlockHeader literal")
		}
		return ival{"({ " + strings.Join(parts, ", ") + " } : Row H)", "row"}
	}
	t.fail(x, "composite literal of "+ty)
	return ival{}
}

// the arguments of fmt.Errorf / fmt.Sprintf after the format: integers, strings, the one error
func (f *ifn) fmtArgs(args []ast.Expr, sc *iscope, pre *[]string) (ints, strs []string, errs []string) {
	for _, a := range args {
		v := f.expr(a, sc, pre)
		switch v.k {
		case "int":
			ints = append(ints, v.lean)
		case "nat":
			ints = append(ints, "("+v.lean+" : Int)")
		case "str":
			strs = append(strs, v.lean)
		case "err":
			errs = append(errs, v.lean)
		default:
			f.t.fail(a, "format argument of kind "+string(v.k))
		}
	}
	return
}

func (f *ifn) args(c *ast.CallExpr, sc *iscope, pre *[]string, ks ...ik) []string {
	if len(c.Args) != len(ks) {
		f.t.fail(c, fmt.Sprintf("%s: %d arguments expected", impPath(c.Fun), len(ks)))
	}
	var out []string
	for i, a := range c.Args {
		v := f.want(a, sc, pre, ks[i])
		if !impIsHandle(v.k) {
			out = append(out, v.lean)
		}
	}
	return out
}

func (f *ifn) call(c *ast.CallExpr, sc *iscope, pre *[]string) icall {
	t := f.t
	pureV := func(lean string, k ik) icall { return icall{vals: []ival{{lean, k}}} }
	switch fn := c.Fun.(type) {
	case *ast.Ident:
		if sc.lookup(fn.Name) != nil {
			t.fail(c, "call of the local "+fn.Name)
		}
		switch fn.Name {
		case "int", "int32", "int64":
			return pureV(f.args(c, sc, pre, "int")[0], "int")
		case "uint32", "uint64":
			return pureV(f.args(c, sc, pre, "nat")[0], "nat")
		case "len":
			if len(c.Args) != 1 {
				t.fail(c, "len")
			}
			v := f.expr(c.Args[0], sc, pre)
			if v.k != "rec" && v.k != "cps" && v.k != "rows" {
				t.fail(c, "len of "+string(v.k))
			}
			return pureV("("+v.lean+".length : Int)", "int")
		case "append":
			a := f.args(c, sc, pre, "rows", "row")
			return pureV("("+a[0]+" ++ ["+a[1]+"])", "rows")
		case "make":
			if len(c.Args) < 2 || types.ExprString(c.Args[0]) != "[]dto.DbBlockHeader" || types.ExprString(c.Args[1]) != "0" {
				t.fail(c, "make")
			}
			return pureV("([] : List (Row H))", "rows")
		case "parseBigInt":
			return icall{act: "parseBigInt " + f.args(c, sc, pre, "str")[0], res: []ik{"big"}}
		case "getHeadersFile":
			for _, a := range c.Args {
				f.want(a, sc, pre, "handle")
			}
			return icall{act: "getHeadersFile", res: []ik{"handle", "handle", "err"}}
		case "modifySqLitePragmas":
			f.args(c, sc, pre, "handle")
			return icall{act: "envOk", res: []ik{"restore", "err"}}
		}
		return f.userCall(c, fn.Name, c.Args, sc, pre)
	case *ast.SelectorExpr:
		if id, ok := fn.X.(*ast.Ident); ok && sc.lookup(id.Name) == nil {
			p := id.Name + "." + fn.Sel.Name
			switch p {
			case "strconv.ParseInt":
				return icall{act: "strconvParseInt " + strings.Join(f.args(c, sc, pre, "str", "int", "int"), " "), res: []ik{"int", "err"}}
			case "strconv.ParseUint":
				return icall{act: "strconvParseUint " + strings.Join(f.args(c, sc, pre, "str", "int", "int"), " "), res: []ik{"nat", "err"}}
			case "chainhash.NewHashFromStr":
				return icall{act: "newHashFromStr cd_ " + f.args(c, sc, pre, "str")[0], res: []ik{"hashp", "err"}}
			case "time.Unix":
				return icall{act: "timeUnix " + strings.Join(f.args(c, sc, pre, "int", "int"), " "), res: []ik{"time"}}
			case "domains.CalculateWork":
				return pureV("(Chain.work "+f.args(c, sc, pre, "nat")[0]+")", "big")
			case "errors.New":
				if len(c.Args) != 1 {
					t.fail(c, "errors.New")
				}
				return pureV("(some (Err.new "+impQuote(f.strLit(c.Args[0]))+"))", "err")
			case "errors.Is":
				if len(c.Args) != 2 {
					t.fail(c, "errors.Is")
				}
				e := f.want(c.Args[0], sc, pre, "err")
				s := f.want(c.Args[1], sc, pre, "errval")
				return pureV("(errorsIs "+e.lean+" "+s.lean+")", "bool")
			case "fmt.Errorf", "fmt.Sprintf":
				if len(c.Args) < 1 {
					t.fail(c, p)
				}
				lit := impQuote(f.strLit(c.Args[0]))
				ints, strs, errs := f.fmtArgs(c.Args[1:], sc, pre)
				if p == "fmt.Sprintf" {
					if len(errs) != 0 {
						t.fail(c, "error argument of Sprintf")
					}
					return pureV("(Fmt.mk "+lit+" ["+strings.Join(ints, ", ")+"] ["+strings.Join(strs, ", ")+"])", "fmt")
				}
				w := "Err.nil"
				if len(errs) == 1 {
					w = "(errArg " + errs[0] + ")"
				} else if len(errs) > 1 {
					t.fail(c, "more than one error argument")
				}
				return pureV("(some (Err.errorf "+lit+" ["+strings.Join(ints, ", ")+"] "+w+"))", "err")
			case "context.Background", "service.DefaultBlockHasher":
				if len(c.Args) != 0 {
					t.fail(c, p)
				}
				return pureV("", "handle")
			case "sql.NewHeadersDb":
				f.args(c, sc, pre, "handle", "handle")
				return pureV("", "handle")
			case "csv.NewReader":
				f.args(c, sc, pre, "handle")
				return icall{act: "csvNewReader", res: []ik{"handle"}}
			}
			t.fail(c, "call of "+p+" (not in the primitive table)")
		}
		recv := f.expr(fn.X, sc, pre)
		m := fn.Sel.Name
		switch recv.k {
		case "hash":
			if m == "String" && len(c.Args) == 0 {
				return pureV("(GoStr.hash "+recv.lean+")", "str")
			}
		case "big":
			if m == "String" && len(c.Args) == 0 {
				return pureV("(GoStr.dec "+recv.lean+")", "str")
			}
			if m == "BigInt" && len(c.Args) == 0 {
				return pureV(recv.lean, "big")
			}
		case "handle":
			switch m {
			case "Count":
				f.args(c, sc, pre, "handle")
				return icall{act: "repoCount", res: []ik{"int", "err"}}
			case "Height":
				f.args(c, sc, pre, "handle")
				return icall{act: "repoHeight", res: []ik{"int", "err"}}
			case "CreateMultiple":
				return icall{act: "createMultiple " + f.args(c, sc, pre, "handle", "rows")[0], res: []ik{"err"}}
			case "getDBx":
				if len(c.Args) != 0 {
					t.fail(c, "getDBx")
				}
				return pureV("", "handle")
			case "Exec":
				return icall{act: "sqlExec " + f.args(c, sc, pre, "fmt")[0], res: []ik{"handle", "err"}}
			case "Get":
				if len(c.Args) != 2 {
					t.fail(c, "Get")
				}
				u, ok := c.Args[0].(*ast.UnaryExpr)
				if !ok || u.Op != token.AND {
					t.fail(c, "Get: &variable expected")
				}
				id, ok := u.X.(*ast.Ident)
				if !ok || sc.lookup(id.Name) == nil || sc.lookup(id.Name).k != "str" {
					t.fail(c, "Get: &(string variable) expected")
				}
				v := sc.lookup(id.Name)
				q := f.want(c.Args[1], sc, pre, "fmt")
				return icall{act: "sqlGet " + v.lean + " " + q.lean, res: []ik{"err"}, out: []*ivar{v}}
			case "Read":
				if len(c.Args) != 0 {
					t.fail(c, "Read")
				}
				return icall{act: "csvRead", res: []ik{"rec", "err"}}
			case "Seek":
				f.args(c, sc, pre, "int", "int")
				return icall{act: "envOk", res: []ik{"handle", "err"}}
			case "dropTableIndexes":
				f.args(c, sc, pre, "str")
				return icall{act: "envOk", res: []ik{"restore", "err"}}
			case "BlockHash":
				if len(c.Args) != 1 {
					t.fail(c, "BlockHash")
				}
				p := f.deref(c, f.want(c.Args[0], sc, pre, "srcp"), pre)
				return pureV("(cfg_.hashOf "+p.lean+")", "hash")
			}
			return f.userCall(c, "sqLiteAdapter."+m, c.Args, sc, pre)
		}
		t.fail(c, "method "+m+" on "+string(recv.k))
	}
	t.fail(c, "call")
	return icall{}
}

func (f *ifn) userCall(c *ast.CallExpr, key string, args []ast.Expr, sc *iscope, pre *[]string) icall {
	sig := f.t.function(c, key)
	if len(args) != len(sig.params) {
		f.t.fail(c, "argument count of "+key)
	}
	act := sig.lean + " cfg_ cd_ k_"
	for i, a := range args {
		v := f.want(a, sc, pre, sig.params[i])
		if !impIsHandle(v.k) {
			act += " " + v.lean
		}
	}
	return icall{act: act, res: sig.results}
}

// a condition as a decidable proposition
func (f *ifn) cond(e ast.Expr, sc *iscope, pre *[]string) string {
	t := f.t
	isNil := func(x ast.Expr) bool {
		id, ok := x.(*ast.Ident)
		return ok && id.Name == "nil" && sc.lookup("nil") == nil
	}
	switch x := e.(type) {
	case *ast.ParenExpr:
		return f.cond(x.X, sc, pre)
	case *ast.UnaryExpr:
		if x.Op == token.NOT {
			return "(¬ " + f.cond(x.X, sc, pre) + ")"
		}
	case *ast.BinaryExpr:
		switch x.Op {
		case token.LAND, token.LOR:
			l := f.cond(x.X, sc, pre)
			var pre2 []string
			r := f.cond(x.Y, sc, &pre2)
			if len(pre2) != 0 {
				t.fail(x.Y, "effect on the right of && / ||")
			}
			if x.Op == token.LAND {
				return "(" + l + " ∧ " + r + ")"
			}
			return "(" + l + " ∨ " + r + ")"
		case token.EQL, token.NEQ, token.LSS, token.LEQ, token.GTR, token.GEQ:
			if (isNil(x.Y) || isNil(x.X)) && (x.Op == token.EQL || x.Op == token.NEQ) {
				o := x.X
				if isNil(x.X) {
					o = x.Y
				}
				v := f.expr(o, sc, pre)
				switch v.k {
				case "err", "rowp", "srcp", "hashp":
				default:
					t.fail(e, "nil test of "+string(v.k))
				}
				if x.Op == token.NEQ {
					return "(" + v.lean + ".isSome = true)"
				}
				return "(" + v.lean + ".isNone = true)"
			}
			var l, r ival
			if b, ok := x.X.(*ast.BasicLit); ok && b.Kind == token.INT {
				r = f.expr(x.Y, sc, pre)
				l = f.want(x.X, sc, pre, r.k)
			} else {
				l = f.expr(x.X, sc, pre)
				r = f.want(x.Y, sc, pre, l.k)
			}
			ordered := l.k == "int" || l.k == "nat" || l.k == "big" || l.k == "time"
			if !(ordered || ((l.k == "str" || l.k == "hash") && (x.Op == token.EQL || x.Op == token.NEQ))) {
				t.fail(e, "comparison of "+string(l.k))
			}
			op := map[token.Token]string{token.EQL: "=", token.NEQ: "≠", token.LSS: "<", token.LEQ: "≤", token.GTR: ">", token.GEQ: "≥"}[x.Op]
			return "(" + l.lean + " " + op + " " + r.lean + ")"
		}
	}
	v := f.expr(e, sc, pre)
	if v.k != "bool" {
		t.fail(e, "condition of kind "+string(v.k))
	}
	return "(" + v.lean + " = true)"
}

// ---------- statements ----------

type icont func(sc *iscope, ind int) []string

func impEmit(ind int, lines []string) []string {
	out := make([]string, len(lines))
	for i, l := range lines {
		out[i] = impPad(ind) + l
	}
	return out
}

func (f *ifn) retLine(ind int, tuple string) []string {
	if len(f.loops) > 0 {
		return []string{impPad(ind) + "pure (Ctl.ret " + tuple + ")"}
	}
	return []string{impPad(ind) + "pure " + tuple}
}

func (f *ifn) stateTuple(l *iloop) string {
	var xs []string
	for _, v := range l.state {
		xs = append(xs, v.lean)
	}
	return impTuple(xs)
}

func (f *ifn) stmts(list []ast.Stmt, sc *iscope, ind int, k icont) []string {
	if len(list) == 0 {
		return k(sc, ind)
	}
	return f.stmt(list[0], sc, ind, func(sc2 *iscope, ind2 int) []string { return f.stmts(list[1:], sc2, ind2, k) })
}

func (f *ifn) isLog(s ast.Stmt) bool {
	es, ok := s.(*ast.ExprStmt)
	if !ok {
		return false
	}
	c, ok := es.X.(*ast.CallExpr)
	if !ok || !impLogRe.MatchString(impPath(c.Fun)) {
		return false
	}
	for _, a := range c.Args {
		ast.Inspect(a, func(n ast.Node) bool {
			if cc, ok := n.(*ast.CallExpr); ok {
				sel, ok := cc.Fun.(*ast.SelectorExpr)
				if !ok || (sel.Sel.Name != "Error" && sel.Sel.Name != "String") || len(cc.Args) != 0 {
					f.t.fail(cc, "call inside a skipped log statement")
				}
			}
			return true
		})
	}
	return true
}

func (f *ifn) onlyLogs(b *ast.BlockStmt) bool {
	for _, s := range b.List {
		if !f.isLog(s) {
			return false
		}
	}
	return len(b.List) > 0
}

// binds the results of a call to the left-hand sides
func (f *ifn) bindCall(at ast.Node, lhs []ast.Expr, define bool, c icall, sc *iscope, ind int) []string {
	t := f.t
	if len(lhs) != len(c.res) {
		t.fail(at, "number of results")
	}
	var pat []string
	for _, v := range c.out {
		pat = append(pat, v.lean)
	}
	for i, l := range lhs {
		id, ok := l.(*ast.Ident)
		if !ok {
			t.fail(l, "assignment target")
		}
		k := c.res[i]
		if id.Name == "_" {
			if !impIsHandle(k) {
				pat = append(pat, "_")
			}
			continue
		}
		var v *ivar
		if define {
			if old, ok := sc.vars[id.Name]; ok {
				v = old
			} else {
				v = sc.declare(id.Name, k)
			}
		} else {
			v = sc.lookup(id.Name)
			if v == nil {
				t.fail(l, "assignment to "+id.Name)
			}
		}
		if v.k != k {
			t.fail(l, fmt.Sprintf("%s has kind %s, the call gives %s", id.Name, v.k, k))
		}
		if !impIsHandle(k) {
			pat = append(pat, v.lean)
		}
	}
	switch len(pat) {
	case 0:
		return []string{impPad(ind) + c.act}
	case 1:
		return []string{impPad(ind) + "let " + pat[0] + " ← " + c.act}
	}
	return []string{impPad(ind) + "let (" + strings.Join(pat, ", ") + ") ← " + c.act}
}

// straight-line statements: assignment, declaration, ++, expression statement
func (f *ifn) simple(s ast.Stmt, sc *iscope, ind int) []string {
	t := f.t
	var pre []string
	var out []string
	flush := func() {
		out = append(out, impEmit(ind, pre)...)
		pre = nil
	}
	switch x := s.(type) {
	case *ast.EmptyStmt:
		return nil
	case *ast.DeclStmt:
		gd, ok := x.Decl.(*ast.GenDecl)
		if !ok || gd.Tok != token.VAR {
			t.fail(s, "declaration")
		}
		for _, sp := range gd.Specs {
			vs := sp.(*ast.ValueSpec)
			if vs.Type == nil || len(vs.Values) > len(vs.Names) {
				t.fail(s, "var declaration")
			}
			k := t.kindOf(vs.Type)
			for i, n := range vs.Names {
				val := impZero[k]
				if i < len(vs.Values) {
					val = f.want(vs.Values[i], sc, &pre, k).lean
				} else if len(vs.Values) != 0 {
					t.fail(s, "var declaration")
				}
				if val == "" && !impIsHandle(k) {
					t.fail(s, "zero value of "+string(k))
				}
				flush()
				v := sc.declare(n.Name, k)
				if !impIsHandle(k) {
					out = append(out, impPad(ind)+"let "+v.lean+" : "+impLeanTy[k]+" := "+val)
				}
			}
		}
		return out
	case *ast.IncDecStmt:
		id, ok := x.X.(*ast.Ident)
		if !ok || sc.lookup(id.Name) == nil || sc.lookup(id.Name).k != "int" {
			t.fail(s, "++ / -- of something that is not an int variable")
		}
		v := sc.lookup(id.Name)
		op := "+"
		if x.Tok == token.DEC {
			op = "-"
		}
		return []string{impPad(ind) + "let " + v.lean + " := (" + v.lean + " " + op + " 1)"}
	case *ast.ExprStmt:
		if f.isLog(s) {
			return nil
		}
		c, ok := x.X.(*ast.CallExpr)
		if !ok {
			t.fail(s, "expression statement")
		}
		// x.Add(x, y) on big integers
		if sel, ok := c.Fun.(*ast.SelectorExpr); ok && sel.Sel.Name == "Add" && len(c.Args) == 2 {
			if r, ok := sel.X.(*ast.Ident); ok && sc.lookup(r.Name) != nil && sc.lookup(r.Name).k == "big" {
				a0, ok := c.Args[0].(*ast.Ident)
				if !ok || a0.Name != r.Name {
					t.fail(s, "big.Int Add: only x.Add(x, y)")
				}
				y := f.want(c.Args[1], sc, &pre, "big")
				flush()
				v := sc.lookup(r.Name)
				return append(out, impPad(ind)+"let "+v.lean+" := ("+v.lean+" + "+y.lean+")")
			}
		}
		cl := f.call(c, sc, &pre)
		flush()
		if cl.act == "" {
			t.fail(s, "call without effect as a statement")
		}
		for _, k := range cl.res {
			if !impIsHandle(k) {
				t.fail(s, "result of the call is dropped")
			}
		}
		return append(out, impPad(ind)+cl.act)
	case *ast.AssignStmt:
		define := x.Tok == token.DEFINE
		if x.Tok != token.DEFINE && x.Tok != token.ASSIGN {
			t.fail(s, "assignment operator "+x.Tok.String())
		}
		var pureCall *ival
		if len(x.Rhs) == 1 {
			if c, ok := x.Rhs[0].(*ast.CallExpr); ok {
				cl := f.call(c, sc, &pre)
				if cl.act != "" {
					flush()
					return append(out, f.bindCall(s, x.Lhs, define, cl, sc, ind)...)
				}
				if len(cl.vals) != 1 {
					t.fail(s, "assignment shape")
				}
				pureCall = &cl.vals[0]
			}
		}
		if len(x.Lhs) != len(x.Rhs) {
			t.fail(s, "assignment shape")
		}
		// evaluate every right-hand side first (Go's parallel assignment), then bind
		var vals []ival
		for i, r := range x.Rhs {
			var v ival
			if pureCall != nil {
				v = *pureCall
				if id, ok := x.Lhs[i].(*ast.Ident); ok && id.Name != "_" && !(define && sc.vars[id.Name] == nil) && sc.lookup(id.Name) != nil && sc.lookup(id.Name).k != v.k {
					t.fail(r, "kind of the assigned value")
				}
			} else if id, ok := x.Lhs[i].(*ast.Ident); ok && id.Name != "_" && !(define && sc.vars[id.Name] == nil) && sc.lookup(id.Name) != nil {
				v = f.want(r, sc, &pre, sc.lookup(id.Name).k)
			} else {
				v = f.expr(r, sc, &pre)
			}
			if v.k == "nil" || v.k == "errval" {
				t.fail(r, "value without a type")
			}
			vals = append(vals, v)
		}
		flush()
		var names, exprs []string
		for i, l := range x.Lhs {
			id, ok := l.(*ast.Ident)
			if !ok {
				t.fail(l, "assignment target")
			}
			if id.Name == "_" {
				continue
			}
			var v *ivar
			if define && sc.vars[id.Name] == nil {
				v = sc.declare(id.Name, vals[i].k)
			} else {
				v = sc.lookup(id.Name)
				if v == nil {
					t.fail(l, "assignment to "+id.Name)
				}
				if v.k != vals[i].k {
					t.fail(l, fmt.Sprintf("%s has kind %s, the value %s", id.Name, v.k, vals[i].k))
				}
			}
			if !impIsHandle(v.k) {
				names = append(names, v.lean)
				exprs = append(exprs, vals[i].lean)
			}
		}
		switch len(names) {
		case 0:
			return out
		case 1:
			return append(out, impPad(ind)+"let "+names[0]+" := "+exprs[0])
		}
		return append(out, impPad(ind)+"let ("+strings.Join(names, ", ")+") := ("+strings.Join(exprs, ", ")+")")
	}
	t.fail(s, fmt.Sprintf("statement %T", s))
	return nil
}

// does the deferred closure only run a restore closure of the pragma / index handling?
func (f *ifn) skippedDefer(d *ast.DeferStmt, sc *iscope) bool {
	if id, ok := d.Call.Fun.(*ast.Ident); ok && id.Name == "dropHeadersFile" {
		return true
	}
	fl, ok := d.Call.Fun.(*ast.FuncLit)
	if !ok || len(d.Call.Args) != 0 || len(fl.Body.List) != 1 {
		return false
	}
	is, ok := fl.Body.List[0].(*ast.IfStmt)
	if !ok || is.Init == nil || is.Else != nil {
		return false
	}
	as, ok := is.Init.(*ast.AssignStmt)
	if !ok || as.Tok != token.DEFINE || len(as.Rhs) != 1 {
		return false
	}
	c, ok := as.Rhs[0].(*ast.CallExpr)
	if !ok || len(c.Args) != 0 {
		return false
	}
	id, ok := c.Fun.(*ast.Ident)
	return ok && sc.lookup(id.Name) != nil && sc.lookup(id.Name).k == "restore"
}

func (f *ifn) stmt(s ast.Stmt, sc *iscope, ind int, k icont) []string {
	t := f.t
	switch x := s.(type) {
	case *ast.BlockStmt:
		return f.stmts(x.List, impScope(sc), ind, func(_ *iscope, i int) []string { return k(sc, i) })
	case *ast.DeferStmt:
		if !f.skippedDefer(x, sc) {
			t.fail(s, "defer (not in the skip list)")
		}
		return k(sc, ind)
	case *ast.ReturnStmt:
		var vals []string
		if len(x.Results) == 0 {
			if len(f.resKind) != 0 && f.named == nil {
				t.fail(s, "naked return without named results")
			}
			for _, v := range f.named {
				if !impIsHandle(v.k) {
					cur := sc.lookup(v.goName)
					if cur != v {
						t.fail(s, "named result "+v.goName+" is shadowed at a naked return")
					}
					vals = append(vals, v.lean)
				}
			}
			return f.retLine(ind, impTuple(vals))
		}
		if len(x.Results) != len(f.resKind) {
			t.fail(s, "number of returned values")
		}
		var pre []string
		for i, r := range x.Results {
			v := f.want(r, sc, &pre, f.resKind[i])
			if !impIsHandle(v.k) {
				vals = append(vals, v.lean)
			}
		}
		return append(impEmit(ind, pre), f.retLine(ind, impTuple(vals))...)
	case *ast.BranchStmt:
		if x.Tok != token.BREAK || x.Label != nil || len(f.loops) == 0 {
			t.fail(s, x.Tok.String())
		}
		l := f.loops[len(f.loops)-1]
		return []string{impPad(ind) + "pure (Ctl.next " + f.stateTuple(l) + ")"}
	case *ast.IfStmt:
		inner := impScope(sc)
		var out []string
		if x.Init != nil {
			out = append(out, f.simple(x.Init, inner, ind)...)
		}
		if x.Else == nil && f.onlyLogs(x.Body) {
			var pre []string
			f.cond(x.Cond, inner, &pre)
			if len(pre) != 0 {
				t.fail(x.Cond, "effect in the condition of a skipped if")
			}
			return append(out, k(sc, ind)...)
		}
		thenG := func(i int) []string {
			return f.stmts(x.Body.List, impScope(inner), i, func(_ *iscope, j int) []string { return k(sc, j) })
		}
		elseG := func(i int) []string {
			switch e := x.Else.(type) {
			case nil:
				return k(sc, i)
			case *ast.BlockStmt:
				return f.stmts(e.List, impScope(inner), i, func(_ *iscope, j int) []string { return k(sc, j) })
			case *ast.IfStmt:
				return f.stmt(e, inner, i, func(_ *iscope, j int) []string { return k(sc, j) })
			}
			t.fail(s, "else")
			return nil
		}
		return append(out, f.ifCond(x.Cond, inner, ind, thenG, elseG)...)
	case *ast.ForStmt:
		return f.forStmt(x, sc, ind, k)
	}
	return append(f.simple(s, sc, ind), k(sc, ind)...)
}

// is the condition free of effects (no temporaries needed)? decided by a trial translation
func (f *ifn) pureCond(e ast.Expr, sc *iscope) (ok bool) {
	save := f.tmpN
	defer func() { f.tmpN = save }()
	defer func() {
		if r := recover(); r != nil {
			if _, is := r.(impErr); !is {
				panic(r)
			}
			ok = false
		}
	}()
	var pre []string
	f.cond(e, sc, &pre)
	return len(pre) == 0
}

// `if c { A } else { B }`. When the right operand of && / || (or the operand of !) has an effect, Go's short-circuit
// evaluation is rendered by nesting: a && b ↦ if a then (if b then A else B) else B; a || b ↦ if a then A else (if b then A
// else B); !a ↦ branches swapped. Conditions without such effects are emitted as one decidable proposition.
func (f *ifn) ifCond(e ast.Expr, sc *iscope, ind int, thenG, elseG func(int) []string) []string {
	switch x := e.(type) {
	case *ast.ParenExpr:
		return f.ifCond(x.X, sc, ind, thenG, elseG)
	case *ast.UnaryExpr:
		if x.Op == token.NOT && !f.pureCond(x.X, sc) {
			return f.ifCond(x.X, sc, ind, elseG, thenG)
		}
	case *ast.BinaryExpr:
		if (x.Op == token.LAND || x.Op == token.LOR) && !f.pureCond(x.Y, sc) {
			if x.Op == token.LAND {
				return f.ifCond(x.X, sc, ind, func(i int) []string { return f.ifCond(x.Y, sc, i, thenG, elseG) }, elseG)
			}
			return f.ifCond(x.X, sc, ind, thenG, func(i int) []string { return f.ifCond(x.Y, sc, i, thenG, elseG) })
		}
	}
	var pre []string
	c := f.cond(e, sc, &pre)
	out := impEmit(ind, pre)
	out = append(out, impPad(ind)+"if "+c+" then")
	out = append(out, thenG(ind+1)...)
	out = append(out, impPad(ind)+"else")
	return append(out, elseG(ind+1)...)
}

func impAssigned(nodes ...ast.Node) map[string]bool {
	m := map[string]bool{}
	for _, n := range nodes {
		if n == nil {
			continue
		}
		ast.Inspect(n, func(x ast.Node) bool {
			switch y := x.(type) {
			case *ast.AssignStmt:
				for _, l := range y.Lhs {
					if id, ok := l.(*ast.Ident); ok {
						m[id.Name] = true
					}
				}
			case *ast.IncDecStmt:
				if id, ok := y.X.(*ast.Ident); ok {
					m[id.Name] = true
				}
			case *ast.UnaryExpr:
				if id, ok := y.X.(*ast.Ident); ok && y.Op == token.AND {
					m[id.Name] = true
				}
			case *ast.CallExpr:
				if sel, ok := y.Fun.(*ast.SelectorExpr); ok && sel.Sel.Name == "Add" {
					if id, ok := sel.X.(*ast.Ident); ok {
						m[id.Name] = true
					}
				}
			}
			return true
		})
	}
	return m
}

func impUsed(nodes ...ast.Node) (map[string]bool, bool) {
	m := map[string]bool{}
	naked := false
	for _, n := range nodes {
		if n == nil {
			continue
		}
		ast.Inspect(n, func(x ast.Node) bool {
			switch y := x.(type) {
			case *ast.Ident:
				m[y.Name] = true
			case *ast.ReturnStmt:
				if len(y.Results) == 0 {
					naked = true
				}
			}
			return true
		})
	}
	return m, naked
}

func (f *ifn) forStmt(x *ast.ForStmt, sc *iscope, ind int, k icont) []string {
	t := f.t
	inner := impScope(sc)
	var out []string
	if x.Init != nil {
		out = append(out, f.simple(x.Init, inner, ind)...)
	}
	var nodes []ast.Node
	if x.Cond != nil {
		nodes = append(nodes, x.Cond)
	}
	nodes = append(nodes, x.Body)
	if x.Post != nil {
		nodes = append(nodes, x.Post)
	}
	var mut []ast.Node
	mut = append(mut, x.Body)
	if x.Post != nil {
		mut = append(mut, x.Post)
	}
	assigned := impAssigned(mut...)
	used, naked := impUsed(nodes...)
	if naked {
		for _, v := range f.named {
			used[v.goName] = true
		}
	}
	l := &iloop{name: fmt.Sprintf("%s_loop%d", f.sig.lean, f.loopN+1), post: x.Post}
	f.loopN++
	for _, v := range inner.visible() {
		if impIsHandle(v.k) {
			continue
		}
		if assigned[v.goName] {
			l.state = append(l.state, v)
		} else if used[v.goName] {
			l.fixed = append(l.fixed, v)
		}
	}
	// fuel
	fuel := ""
	if as, ok := x.Init.(*ast.AssignStmt); ok && as.Tok == token.DEFINE && len(as.Lhs) == 1 && len(as.Rhs) == 1 && x.Cond != nil && x.Post != nil {
		iv, _ := as.Lhs[0].(*ast.Ident)
		be, ok1 := x.Cond.(*ast.BinaryExpr)
		inc, ok2 := x.Post.(*ast.IncDecStmt)
		if iv != nil && ok1 && ok2 && be.Op == token.LSS && inc.Tok == token.INC && impPath(be.X) == iv.Name && impPath(inc.X) == iv.Name {
			bodyAssigned := impAssigned(x.Body)
			boundUsed, _ := impUsed(be.Y)
			okBound := !bodyAssigned[iv.Name]
			for n := range boundUsed {
				if assigned[n] {
					okBound = false
				}
			}
			if okBound {
				var pre []string
				a := f.want(as.Rhs[0], inner, &pre, "int")
				n := f.want(be.Y, inner, &pre, "int")
				if len(pre) == 0 {
					fuel = "((" + n.lean + " - " + a.lean + ").toNat + 1)"
				}
			}
		}
	}
	if fuel == "" {
		out = append(out, impPad(ind)+"let fuel_ ← loopFuel")
		fuel = "fuel_"
	}
	// the loop function
	var hdr, pats, tys []string
	for _, v := range l.fixed {
		hdr = append(hdr, "("+v.lean+" : "+impLeanTy[v.k]+")")
	}
	var sk []ik
	for _, v := range l.state {
		pats = append(pats, v.lean)
		tys = append(tys, impLeanTy[v.k])
		sk = append(sk, v.k)
	}
	pos := t.fset.Position(x.Pos())
	def := []string{fmt.Sprintf("/-- %s:%d: the `for` loop of %s; arguments: fuel, then the variables the loop assigns -/", filepath.Base(pos.Filename), pos.Line, f.key)}
	sigLine := "def " + l.name + " (cfg_ : Cfg H) (cd_ : Codec H) (k_ : Consts)"
	if len(hdr) > 0 {
		sigLine += " " + strings.Join(hdr, " ")
	}
	sigLine += " : Nat → "
	for _, ty := range tys {
		sigLine += ty + " → "
	}
	sigLine += "ImpM H (Ctl " + impTupleTy(sk) + " " + impTupleTy(f.resKind) + ")"
	def = append(def, sigLine)
	zero := "  | 0"
	succ := "  | fuel_ + 1"
	for _, p := range pats {
		zero += ", _"
		succ += ", " + p
	}
	def = append(def, zero+" => diverged", succ+" => do")
	f.loops = append(f.loops, l)
	again := func(sc2 *iscope, i int) []string {
		var o []string
		if l.post != nil {
			o = append(o, f.simple(l.post, sc2, i)...)
		}
		call := l.name + " cfg_ cd_ k_"
		for _, v := range l.fixed {
			call += " " + v.lean
		}
		call += " fuel_"
		for _, v := range l.state {
			call += " " + v.lean
		}
		return append(o, impPad(i)+call)
	}
	bodyScope := impScope(inner)
	if x.Cond != nil {
		var pre []string
		c := f.cond(x.Cond, inner, &pre)
		def = append(def, impEmit(2, pre)...)
		def = append(def, impPad(2)+"if "+c+" then")
		def = append(def, f.stmts(x.Body.List, bodyScope, 3, func(_ *iscope, i int) []string { return again(inner, i) })...)
		def = append(def, impPad(2)+"else", impPad(3)+"pure (Ctl.next "+f.stateTuple(l)+")")
	} else {
		def = append(def, f.stmts(x.Body.List, bodyScope, 2, func(_ *iscope, i int) []string { return again(inner, i) })...)
	}
	f.loops = f.loops[:len(f.loops)-1]
	t.out = append(t.out, strings.Join(def, "\n")+"\n")
	// the call
	call := l.name + " cfg_ cd_ k_"
	for _, v := range l.fixed {
		call += " " + v.lean
	}
	call += " " + fuel
	for _, v := range l.state {
		call += " " + v.lean
	}
	out = append(out, impPad(ind)+"let ctl_ ← "+call, impPad(ind)+"match ctl_ with")
	out = append(out, impPad(ind)+"| Ctl.ret r_ =>")
	out = append(out, f.retLine(ind+1, "r_")...)
	out = append(out, impPad(ind)+"| Ctl.next "+f.stateTuple(l)+" =>")
	return append(out, k(sc, ind+1)...)
}

// ---------- functions ----------

func (t *itr) function(at ast.Node, key string) *isig {
	if s, ok := t.sigs[key]; ok {
		return s
	}
	if t.inprog[key] {
		t.fail(at, "recursive call of "+key)
	}
	fd := t.funcs[key]
	if fd == nil {
		t.fail(at, "call of "+key+" (neither translated nor in the primitive table)")
	}
	t.inprog[key] = true
	f := &ifn{t: t, key: key}
	sig := &isig{lean: strings.ReplaceAll(key, ".", "_")}
	f.sig = sig
	sc := impScope(nil)
	header := "def " + sig.lean + " (cfg_ : Cfg H) (cd_ : Codec H) (k_ : Consts)"
	if fd.Recv != nil {
		for _, r := range fd.Recv.List {
			for _, n := range r.Names {
				sc.declare(n.Name, "handle")
			}
		}
	}
	for _, p := range fd.Type.Params.List {
		k := t.kindOf(p.Type)
		if len(p.Names) == 0 {
			t.fail(p, "unnamed parameter")
		}
		for _, n := range p.Names {
			sig.params = append(sig.params, k)
			v := sc.declare(n.Name, k)
			if !impIsHandle(k) {
				header += " (" + v.lean + " : " + impLeanTy[k] + ")"
			}
		}
	}
	var zero []string
	if fd.Type.Results != nil {
		for _, r := range fd.Type.Results.List {
			k := t.kindOf(r.Type)
			if len(r.Names) == 0 {
				sig.results = append(sig.results, k)
				continue
			}
			for _, n := range r.Names {
				sig.results = append(sig.results, k)
				v := sc.declare(n.Name, k)
				f.named = append(f.named, v)
				if !impIsHandle(k) {
					if impZero[k] == "" {
						t.fail(r, "zero value of "+string(k))
					}
					zero = append(zero, impPad(1)+"let "+v.lean+" : "+impLeanTy[k]+" := "+impZero[k])
				}
			}
		}
	}
	f.resKind = sig.results
	header += " : ImpM H " + impTupleTy(sig.results) + " := do"
	body := f.stmts(fd.Body.List, sc, 1, func(_ *iscope, i int) []string {
		// falling off the end: only functions without results (or with named results: Go demands a return there)
		if len(sig.results) != 0 {
			t.fail(fd, "control reaches the end of "+key)
		}
		return []string{impPad(i) + "pure ()"}
	})
	recv := ""
	if fd.Recv != nil {
		recv = "(" + types.ExprString(fd.Recv.List[0].Type) + ") "
	}
	doc := fmt.Sprintf("/-- %s: func %s%s -/", t.file[key], recv, fd.Name.Name)
	t.out = append(t.out, doc+"\n"+header+"\n"+strings.Join(append(zero, body...), "\n")+"\n")
	delete(t.inprog, key)
	t.sigs[key] = sig
	return sig
}

func genImport() (res string, err error) {
	defer func() {
		if r := recover(); r != nil {
			if e, ok := r.(impErr); ok {
				res, err = "", fmt.Errorf("%s", e.msg)
				return
			}
			panic(r)
		}
	}()
	t := &itr{fset: token.NewFileSet(), funcs: map[string]*ast.FuncDecl{}, file: map[string]string{}, consts: map[string]string{},
		ext: map[string]string{}, sigs: map[string]*isig{}, inprog: map[string]bool{}}
	for _, rel := range []string{"database/import.go", "database/sqlite_adapter.go"} {
		af, perr := parser.ParseFile(t.fset, filepath.Join(*repo, rel), nil, 0)
		if perr != nil {
			return "", perr
		}
		for _, d := range af.Decls {
			switch x := d.(type) {
			case *ast.FuncDecl:
				key := x.Name.Name
				if x.Recv != nil {
					rt := strings.TrimPrefix(types.ExprString(x.Recv.List[0].Type), "*")
					if rt != "sqLiteAdapter" {
						continue
					}
					key = rt + "." + key
				}
				if x.Body != nil {
					t.funcs[key] = x
					t.file[key] = rel
				}
			case *ast.GenDecl:
				if x.Tok != token.CONST {
					continue
				}
				for _, sp := range x.Specs {
					vs := sp.(*ast.ValueSpec)
					for i, n := range vs.Names {
						if i < len(vs.Values) {
							if b, ok := vs.Values[i].(*ast.BasicLit); ok && b.Kind == token.INT {
								t.consts[n.Name] = b.Value
							}
						}
					}
				}
			}
		}
	}
	// string constants of database/sql referenced as sql.<Name>
	sqlFiles, _ := filepath.Glob(filepath.Join(*repo, "database/sql/*.go"))
	sort.Strings(sqlFiles)
	for _, p := range sqlFiles {
		if strings.HasSuffix(p, "_test.go") {
			continue
		}
		af, perr := parser.ParseFile(t.fset, p, nil, 0)
		if perr != nil {
			return "", perr
		}
		for _, d := range af.Decls {
			if gd, ok := d.(*ast.GenDecl); ok && gd.Tok == token.CONST {
				for _, sp := range gd.Specs {
					vs := sp.(*ast.ValueSpec)
					for i, n := range vs.Names {
						if i < len(vs.Values) && n.Name == "HeadersTableName" {
							if b, ok := vs.Values[i].(*ast.BasicLit); ok && b.Kind == token.STRING {
								s, _ := strconv.Unquote(b.Value)
								t.ext["sql."+n.Name] = s
							}
						}
					}
				}
			}
		}
	}
	// the data refinement of dto.DbBlockHeader is checked against the struct
	if err := impCheckStruct(filepath.Join(*repo, "repository/dto"), "DbBlockHeader", impRowOrder); err != nil {
		return "", err
	}
	entry := t.funcs["importHeaders"]
	if entry == nil {
		return "", fmt.Errorf("database/import.go: func importHeaders not found")
	}
	t.function(entry, "importHeaders")

	var names []string
	for n := range t.consts {
		names = append(names, n)
	}
	sort.Strings(names)
	var b strings.Builder
	b.WriteString(genHeader)
	b.WriteString("-- database/import.go importHeaders and the functions it reaches, translated by gen_import.go.\n")
	b.WriteString("import BHS.Model.ImportPrim\n\nset_option linter.unusedVariables false\n\nnamespace BHS.Gen.Import\nopen BHS BHS.Chain BHS.ImpExp BHS.ImportPrim\n\n")
	b.WriteString("/-- the integer constants of database/import.go and database/sqlite_adapter.go; the translated functions take them as a\n    parameter, the refinement theorems are stated for every batch size and instantiated at `consts` -/\nstructure Consts where\n")
	for _, n := range names {
		b.WriteString("  " + n + " : Int\n")
	}
	b.WriteString("deriving DecidableEq, Repr\n\n/-- the values in the Go source -/\ndef consts : Consts := { ")
	for i, n := range names {
		if i > 0 {
			b.WriteString(", ")
		}
		b.WriteString(n + " := " + t.consts[n])
	}
	b.WriteString(" }\n\nvariable {H : Type} [DecidableEq H]\n\n")
	for _, d := range t.out {
		b.WriteString(d + "\n")
	}
	b.WriteString("end BHS.Gen.Import\n")
	return b.String(), nil
}

func impCheckStruct(dir, name string, fields []string) error {
	files, _ := filepath.Glob(filepath.Join(dir, "*.go"))
	sort.Strings(files)
	fset := token.NewFileSet()
	for _, p := range files {
		if strings.HasSuffix(p, "_test.go") {
			continue
		}
		af, err := parser.ParseFile(fset, p, nil, 0)
		if err != nil {
			return err
		}
		for _, d := range af.Decls {
			gd, ok := d.(*ast.GenDecl)
			if !ok || gd.Tok != token.TYPE {
				continue
			}
			for _, sp := range gd.Specs {
				ts := sp.(*ast.TypeSpec)
				st, ok := ts.Type.(*ast.StructType)
				if !ok || ts.Name.Name != name {
					continue
				}
				var got []string
				for _, fl := range st.Fields.List {
					for _, n := range fl.Names {
						got = append(got, n.Name)
					}
				}
				if strings.Join(got, ",") != strings.Join(fields, ",") {
					return fmt.Errorf("%s: unsupported: struct %s has fields %v, the data refinement knows %v", fset.Position(ts.Pos()), name, got, fields)
				}
				return nil
			}
		}
	}
	return fmt.Errorf("%s: struct %s not found", dir, name)
}
