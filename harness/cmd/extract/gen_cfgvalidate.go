package main

// Gen.CfgValidate: config.fileExists, (*config.DbConfig).Validate and (*config.AppConfig).Validate, TRANSLATED
// statement by statement from /repo/config/config.go into Lean `Id.run do` blocks (Go `return` = Lean `return`).
// The refinement theorems (lean/BHS/Props/CfgValidate.lean) state generated = hand model (BHS.Config.validateDb).
//
// Values.  `error` results of the Validate methods are `Option Refusal` (nil = none); the error of os.Stat is
// `Option StatFail` (nil = none, ENOENT-like = some notExist, anything else = some other); a *DbConfig is
// `Option DbSection` (nil = none); string = String, bool = Bool, uintN/int = Nat (only compared with literals).
//
// Statement subset.
//   if [x := e;] cond { … } [else if … | else { … }]        -> `[let x := e]  if cond then … else …`
//   if recv == nil { …return… }  (receiver *DbConfig, first use of the receiver, no else)
//                                                            -> `match c with | none => … | some c => <rest of body>`
//       any field read of a *DbConfig receiver that is NOT dominated by such a guard is refused (nil dereference)
//   switch tag { case K1, K2: … default: … }  (tag a pure operand, no init, no fallthrough/break)
//                                                            -> if (tag == K1 || tag == K2) then … else …
//   x := e     _, err := os.Stat(e)                          -> let x := e     let err := os_Stat e
//   return e                                                 -> return e
// Expression subset.  string / int literals, true, false, nil, named string constants of config.go, locals, parameters,
//   receiver fields of the table cvDbFields / cvAppFields, ( ), !, &&, ||, == and != (operands of the same kind, or
//   nil against an error / pointer), < <= > >= on integers, and the calls of the primitive table below.
// Primitive table.
//   os.Stat(p)                         -> os_Stat p           (THE oracle parameter: String → Option StatFail)
//   len(s), s a string                 -> s.utf8ByteSize
//   errors.Is(err, os.ErrNotExist), os.IsNotExist(err)       (err from os.Stat) -> (err == some StatFail.notExist)
//   errors.New("msg"), fmt.Errorf("msg", pure operands…)     -> some Refusal.<r>, where <r> is found from the message
//       text by cvMessages — the SAME substring table as harness/cmd/drive/c20.go c20Verdict, so the generated
//       verdict and the verdict observed on the implementation share one vocabulary; an unknown message is refused.
//   fileExists(e), <*DbConfig operand>.Validate()            -> calls of the functions translated here
// Skipped statements (explicit allow-list cvSkippedCalls): none.
// Not modelled: the receiver of (*AppConfig).Validate being nil (its fields are parameters: `c.Db` -> c_Db).
// Everything else fails with `file:line: unsupported: …` (module replaced by an empty one, the obligations break).

import (
	"fmt"
	"go/ast"
	"go/parser"
	"go/token"
	"path/filepath"
	"strconv"
	"strings"
)

func init() { register("CfgValidate", genCfgValidate) }

// receiver field (selector text after the receiver) -> {Lean projection of DbSection, kind}
var cvDbFields = map[string][2]string{
	"Engine": {"engine", "string"}, "SQLite.FilePath": {"sqlitePath", "string"},
	"Postgres.Host": {"pgHost", "string"}, "Postgres.Port": {"pgPort", "int"}, "Postgres.User": {"pgUser", "string"},
	"Postgres.DbName": {"pgDb", "string"}, "PreparedDb": {"prepared", "bool"}, "PreparedDbFilePath": {"preparedPath", "string"},
}

// fields of AppConfig become parameters of the generated function
var cvAppFields = map[string][2]string{"Db": {"c_Db", "dbptr"}}

// calls that may be dropped as statements (logging / metrics): none in this code
var cvSkippedCalls = map[string]bool{}

// error message -> Refusal constructor; first match wins (mirror of c20Verdict)
var cvMessages = []struct {
	prefix   string
	contains string
	refusal  string
}{
	{"db: configuration", "configuration cannot be empty", "nilDb"},
	{"", "file path cannot be empty", "preparedPathEmpty"},
	{"", "prepared database file does not exist", "preparedMissing"},
	{"", "sqlite configuration cannot be empty", "sqlitePathEmpty"},
	{"", "postgres configuration should be filled", "postgresIncomplete"},
	{"", "unsupported type", "unsupportedEngine"},
}

var cvLeanType = map[string]string{"string": "String", "bool": "Bool", "int": "Nat", "err": "Option Refusal",
	"staterr": "Option StatFail", "dbptr": "Option DbSection"}

type cvFunc struct{ lean, recvKind, result string }

type cvTrans struct {
	fset     *token.FileSet
	consts   map[string]string // named string constants of config.go
	funcs    map[string]cvFunc // translated so far: "fileExists", "DbConfig.Validate", …
	recv     string            // receiver identifier
	recvKind string            // "DbConfig" | "AppConfig" | ""
	nonNil   bool              // inside the `some` arm of the receiver's nil guard
	vars     map[string]string // locals and parameters -> kind
	result   string            // kind of the function result
	err      error
}

func (t *cvTrans) fail(n ast.Node, msg string) {
	if t.err == nil {
		t.err = fmt.Errorf("%s: unsupported: %s", t.fset.Position(n.Pos()), msg)
	}
}

func cvSel(e ast.Expr) string {
	switch x := e.(type) {
	case *ast.Ident:
		return x.Name
	case *ast.SelectorExpr:
		return cvSel(x.X) + "." + x.Sel.Name
	case *ast.ParenExpr:
		return cvSel(x.X)
	}
	return "?"
}

func cvLeanString(s string) (string, bool) {
	for _, r := range s {
		if r < 0x20 || r > 0x7e || r == '\\' || r == '"' {
			return "", false
		}
	}
	return `"` + s + `"`, true
}

// pure operand: identifier / selector chain (may be duplicated or dropped without changing behaviour)
func cvPure(e ast.Expr) bool {
	switch x := e.(type) {
	case *ast.Ident:
		return true
	case *ast.SelectorExpr:
		return cvPure(x.X)
	case *ast.ParenExpr:
		return cvPure(x.X)
	case *ast.BasicLit:
		return true
	}
	return false
}

func (t *cvTrans) classify(n ast.Node, lit ast.Expr) string {
	bl, ok := lit.(*ast.BasicLit)
	if !ok || bl.Kind != token.STRING {
		t.fail(n, "error message is not a string literal")
		return "nilDb"
	}
	m, _ := strconv.Unquote(bl.Value)
	for _, c := range cvMessages {
		if strings.HasPrefix(m, c.prefix) && strings.Contains(m, c.contains) {
			return c.refusal
		}
	}
	t.fail(n, "error message outside the verdict vocabulary: "+bl.Value)
	return "nilDb"
}

// expr translates an expression; returns Lean text and kind ("nil" for the untyped nil)
func (t *cvTrans) expr(e ast.Expr) (string, string) {
	switch x := e.(type) {
	case *ast.ParenExpr:
		s, k := t.expr(x.X)
		return s, k
	case *ast.BasicLit:
		switch x.Kind {
		case token.STRING:
			v, err := strconv.Unquote(x.Value)
			if s, ok := cvLeanString(v); ok && err == nil {
				return s, "string"
			}
		case token.INT:
			if v, err := strconv.ParseUint(x.Value, 0, 64); err == nil {
				return strconv.FormatUint(v, 10), "int"
			}
		}
		t.fail(e, "literal "+x.Value)
		return "0", "int"
	case *ast.Ident:
		switch x.Name {
		case "nil":
			return "none", "nil"
		case "true", "false":
			return x.Name, "bool"
		}
		if k, ok := t.vars[x.Name]; ok {
			return x.Name, k
		}
		if x.Name == t.recv && t.recvKind == "DbConfig" && !t.nonNil {
			return x.Name, "dbptr"
		}
		if v, ok := t.consts[x.Name]; ok {
			if s, ok := cvLeanString(v); ok {
				return s, "string"
			}
		}
		t.fail(e, "identifier "+x.Name)
		return "0", "int"
	case *ast.SelectorExpr:
		s := cvSel(x)
		if t.recv != "" && strings.HasPrefix(s, t.recv+".") {
			f := strings.TrimPrefix(s, t.recv+".")
			switch t.recvKind {
			case "DbConfig":
				if !t.nonNil {
					t.fail(e, "field "+s+" read while the receiver may be nil")
					return "0", "int"
				}
				if p, ok := cvDbFields[f]; ok {
					return t.recv + "." + p[0], p[1]
				}
			case "AppConfig":
				if p, ok := cvAppFields[f]; ok {
					return p[0], p[1]
				}
			}
			t.fail(e, "field "+s+" is not part of the model's section")
			return "0", "int"
		}
		t.fail(e, "selector "+s)
		return "0", "int"
	case *ast.UnaryExpr:
		if x.Op == token.NOT {
			s, k := t.expr(x.X)
			if k != "bool" {
				t.fail(e, "! of a non-boolean")
			}
			return "(!" + s + ")", "bool"
		}
	case *ast.BinaryExpr:
		l, lk := t.expr(x.X)
		r, rk := t.expr(x.Y)
		switch x.Op {
		case token.LAND, token.LOR:
			if lk != "bool" || rk != "bool" {
				t.fail(e, "boolean operator on non-booleans")
			}
			return "(" + l + map[token.Token]string{token.LAND: " && ", token.LOR: " || "}[x.Op] + r + ")", "bool"
		case token.EQL, token.NEQ:
			nilable := func(k string) bool { return k == "err" || k == "staterr" || k == "dbptr" }
			if !(lk == rk && lk != "nil" || lk == "nil" && nilable(rk) || rk == "nil" && nilable(lk)) {
				t.fail(e, "comparison of "+lk+" with "+rk)
			}
			return "(" + l + map[token.Token]string{token.EQL: " == ", token.NEQ: " != "}[x.Op] + r + ")", "bool"
		case token.LSS, token.LEQ, token.GTR, token.GEQ:
			if lk != "int" || rk != "int" {
				t.fail(e, "ordering of non-integers")
			}
			op := map[token.Token]string{token.LSS: " < ", token.LEQ: " ≤ ", token.GTR: " > ", token.GEQ: " ≥ "}[x.Op]
			return "(decide (" + l + op + r + "))", "bool"
		}
	case *ast.CallExpr:
		return t.call(x)
	}
	t.fail(e, fmt.Sprintf("expression %T", e))
	return "0", "int"
}

func (t *cvTrans) call(x *ast.CallExpr) (string, string) {
	fn := cvSel(x.Fun)
	switch {
	case fn == "len" && len(x.Args) == 1:
		s, k := t.expr(x.Args[0])
		if k != "string" {
			t.fail(x, "len of a non-string")
		}
		return s + ".utf8ByteSize", "int"
	case fn == "errors.New" && len(x.Args) == 1:
		return "(some Refusal." + t.classify(x, x.Args[0]) + ")", "err"
	case fn == "fmt.Errorf" && len(x.Args) >= 1:
		for _, a := range x.Args[1:] {
			if !cvPure(a) {
				t.fail(a, "fmt.Errorf argument is not a pure operand")
			}
		}
		return "(some Refusal." + t.classify(x, x.Args[0]) + ")", "err"
	case fn == "errors.Is" && len(x.Args) == 2 && cvSel(x.Args[1]) == "os.ErrNotExist",
		fn == "os.IsNotExist" && len(x.Args) == 1:
		s, k := t.expr(x.Args[0])
		if k != "staterr" {
			t.fail(x, fn+" of something that is not the error of os.Stat")
		}
		return "(" + s + " == some StatFail.notExist)", "bool"
	}
	if f, ok := t.funcs[fn]; ok && f.recvKind == "" && len(x.Args) == 1 { // fileExists(e)
		s, k := t.expr(x.Args[0])
		if k != "string" {
			t.fail(x, "argument of "+fn)
		}
		return "(" + f.lean + " os_Stat " + s + ")", f.result
	}
	if se, ok := x.Fun.(*ast.SelectorExpr); ok && len(x.Args) == 0 { // <dbptr>.Validate()
		if f, ok := t.funcs["DbConfig."+se.Sel.Name]; ok {
			s, k := t.expr(se.X)
			if k != "dbptr" {
				t.fail(x, "method call on "+k)
			}
			return "(" + f.lean + " os_Stat " + s + ")", f.result
		}
	}
	t.fail(x, "call of "+fn)
	return "0", "int"
}

func (t *cvTrans) cond(e ast.Expr) string {
	s, k := t.expr(e)
	if k != "bool" {
		t.fail(e, "condition is not boolean")
	}
	return s
}

func cvTerminates(b *ast.BlockStmt) bool {
	if len(b.List) == 0 {
		return false
	}
	_, ok := b.List[len(b.List)-1].(*ast.ReturnStmt)
	return ok
}

func (t *cvTrans) define(n ast.Node, name, kind string) {
	if _, dup := t.vars[name]; dup || name == t.recv {
		t.fail(n, "redeclaration / shadowing of "+name)
	}
	t.vars[name] = kind
}

// assign translates `x := e` and `_, err := os.Stat(e)`
func (t *cvTrans) assign(s *ast.AssignStmt, ind string) []string {
	if s.Tok != token.DEFINE || len(s.Rhs) != 1 {
		t.fail(s, "assignment other than a single `:=`")
		return nil
	}
	if len(s.Lhs) == 2 && cvSel(s.Lhs[0]) == "_" {
		c, ok := s.Rhs[0].(*ast.CallExpr)
		if ok && cvSel(c.Fun) == "os.Stat" && len(c.Args) == 1 {
			a, k := t.expr(c.Args[0])
			if k != "string" {
				t.fail(s, "os.Stat of a non-string")
			}
			name := cvSel(s.Lhs[1])
			t.define(s, name, "staterr")
			return []string{ind + "let " + name + " := os_Stat " + a}
		}
	}
	if len(s.Lhs) != 1 {
		t.fail(s, "multi-value assignment")
		return nil
	}
	v, k := t.expr(s.Rhs[0])
	if k == "nil" {
		t.fail(s, "untyped nil")
	}
	name := cvSel(s.Lhs[0])
	t.define(s, name, k)
	return []string{ind + "let " + name + " := " + v}
}

func (t *cvTrans) block(list []ast.Stmt, ind string) []string {
	out := t.stmts(list, ind)
	if len(out) == 0 {
		out = []string{ind + "pure ()"}
	}
	return out
}

func (t *cvTrans) stmts(list []ast.Stmt, ind string) []string {
	var out []string
	for i, st := range list {
		switch s := st.(type) {
		case *ast.ReturnStmt:
			if len(s.Results) != 1 {
				t.fail(s, "return without exactly one result")
				continue
			}
			v, k := t.expr(s.Results[0])
			if !(k == t.result || k == "nil" && t.result == "err") {
				t.fail(s, "return of "+k+" from a function returning "+t.result)
			}
			out = append(out, ind+"return "+v)
		case *ast.AssignStmt:
			out = append(out, t.assign(s, ind)...)
		case *ast.IfStmt:
			// nil guard of a pointer receiver
			if be, ok := s.Cond.(*ast.BinaryExpr); ok && t.recvKind == "DbConfig" && !t.nonNil && be.Op == token.EQL &&
				cvSel(be.X) == t.recv && cvSel(be.Y) == "nil" {
				if s.Init != nil || s.Else != nil || !cvTerminates(s.Body) {
					t.fail(s, "nil guard of the receiver that does not return")
					continue
				}
				out = append(out, ind+"match "+t.recv+" with", ind+"| none =>")
				out = append(out, t.block(s.Body.List, ind+"  ")...)
				out = append(out, ind+"| some "+t.recv+" =>")
				t.nonNil = true
				out = append(out, t.block(list[i+1:], ind+"  ")...)
				return out
			}
			out = append(out, t.ifStmt(s, ind, "if ")...)
		case *ast.SwitchStmt:
			out = append(out, t.switchStmt(s, ind)...)
		case *ast.ExprStmt:
			if c, ok := s.X.(*ast.CallExpr); ok && cvSkippedCalls[cvSel(c.Fun)] {
				continue
			}
			t.fail(s, "expression statement")
		default:
			t.fail(st, fmt.Sprintf("statement %T", st))
		}
	}
	return out
}

func (t *cvTrans) ifStmt(s *ast.IfStmt, ind, kw string) []string {
	var out []string
	if s.Init != nil {
		as, ok := s.Init.(*ast.AssignStmt)
		if !ok || kw != "if " {
			t.fail(s, "if-initialiser")
			return nil
		}
		out = append(out, t.assign(as, ind)...)
	}
	out = append(out, ind+kw+t.cond(s.Cond)+" then")
	out = append(out, t.block(s.Body.List, ind+"  ")...)
	switch e := s.Else.(type) {
	case nil:
	case *ast.BlockStmt:
		out = append(out, ind+"else")
		out = append(out, t.block(e.List, ind+"  ")...)
	case *ast.IfStmt:
		out = append(out, t.ifStmt(e, ind, "else if ")...)
	default:
		t.fail(s, "else form")
	}
	return out
}

func (t *cvTrans) switchStmt(s *ast.SwitchStmt, ind string) []string {
	if s.Init != nil || s.Tag == nil || !cvPure(s.Tag) {
		t.fail(s, "switch without a pure tag / with initialiser")
		return nil
	}
	tag, tk := t.expr(s.Tag)
	var out []string
	var dflt *ast.CaseClause
	kw := "if "
	for _, cc := range s.Body.List {
		c := cc.(*ast.CaseClause)
		for _, b := range c.Body {
			if br, ok := b.(*ast.BranchStmt); ok {
				t.fail(br, "fallthrough / break / goto in a switch")
			}
		}
		if c.List == nil {
			dflt = c
			continue
		}
		var alts []string
		for _, e := range c.List {
			v, k := t.expr(e)
			if k != tk {
				t.fail(e, "case of kind "+k+" for a tag of kind "+tk)
			}
			alts = append(alts, "("+tag+" == "+v+")")
		}
		out = append(out, ind+kw+strings.Join(alts, " || ")+" then")
		out = append(out, t.block(c.Body, ind+"  ")...)
		kw = "else if "
	}
	if dflt != nil {
		if kw == "if " {
			return t.stmts(dflt.Body, ind)
		}
		out = append(out, ind+"else")
		out = append(out, t.block(dflt.Body, ind+"  ")...)
	}
	return out
}

func (t *cvTrans) kindOfType(e ast.Expr) string {
	switch cvSel(e) {
	case "string":
		return "string"
	case "bool":
		return "bool"
	case "error":
		return "err"
	}
	t.fail(e, "type "+cvSel(e))
	return "int"
}

func (t *cvTrans) function(fd *ast.FuncDecl, lean string) string {
	t.recv, t.recvKind, t.nonNil, t.vars = "", "", false, map[string]string{}
	params := "(os_Stat : String → Option StatFail)"
	if fd.Recv != nil {
		f := fd.Recv.List[0]
		st, ok := f.Type.(*ast.StarExpr)
		if !ok || len(f.Names) != 1 {
			t.fail(fd, "receiver form")
			return ""
		}
		t.recv, t.recvKind = f.Names[0].Name, cvSel(st.X)
		switch t.recvKind {
		case "DbConfig":
			params += " (" + t.recv + " : Option DbSection)"
		case "AppConfig":
			for _, k := range []string{"Db"} {
				params += " (" + cvAppFields[k][0] + " : " + cvLeanType[cvAppFields[k][1]] + ")"
			}
		default:
			t.fail(fd, "receiver type "+t.recvKind)
		}
	}
	for _, p := range fd.Type.Params.List {
		k := t.kindOfType(p.Type)
		for _, n := range p.Names {
			t.vars[n.Name] = k
			params += " (" + n.Name + " : " + cvLeanType[k] + ")"
		}
	}
	if fd.Type.Results == nil || len(fd.Type.Results.List) != 1 || len(fd.Type.Results.List[0].Names) != 0 {
		t.fail(fd, "result list")
		return ""
	}
	t.result = t.kindOfType(fd.Type.Results.List[0].Type)
	if !cvTerminates(fd.Body) {
		t.fail(fd, "function body does not end in a return")
	}
	body := t.block(fd.Body.List, "  ")
	return "def " + lean + " " + params + " : " + cvLeanType[t.result] + " := Id.run do\n" + strings.Join(body, "\n") + "\n"
}

func genCfgValidate() (string, error) {
	fset := token.NewFileSet()
	file := filepath.Join(*repo, "config", "config.go")
	f, err := parser.ParseFile(fset, file, nil, 0)
	if err != nil {
		return "", err
	}
	t := &cvTrans{fset: fset, consts: map[string]string{}, funcs: map[string]cvFunc{}}
	decls := map[string]*ast.FuncDecl{}
	for _, d := range f.Decls {
		switch x := d.(type) {
		case *ast.GenDecl:
			if x.Tok != token.CONST {
				continue
			}
			for _, sp := range x.Specs {
				vs := sp.(*ast.ValueSpec)
				for i, n := range vs.Names {
					if i < len(vs.Values) {
						if bl, ok := vs.Values[i].(*ast.BasicLit); ok && bl.Kind == token.STRING {
							v, _ := strconv.Unquote(bl.Value)
							t.consts[n.Name] = v
						}
					}
				}
			}
		case *ast.FuncDecl:
			name := x.Name.Name
			if x.Recv != nil && len(x.Recv.List) == 1 {
				if st, ok := x.Recv.List[0].Type.(*ast.StarExpr); ok {
					name = cvSel(st.X) + "." + name
				}
			}
			decls[name] = x
		}
	}
	var b strings.Builder
	b.WriteString(genHeader)
	b.WriteString("import BHS.Model.Config\n\nnamespace BHS.Gen.CfgValidate\nopen BHS.Config\n\n")
	b.WriteString("/-- Why os.Stat failed, as far as config.go can tell the cases apart (nil error = `none`). -/\n")
	b.WriteString("inductive StatFail where\n  | notExist  -- errors.Is(err, os.ErrNotExist)\n  | other     -- any other error (ENOTDIR, ENAMETOOLONG, EACCES, …)\n  deriving DecidableEq, Repr\n\n")
	for _, it := range []struct{ goName, lean, result string }{
		{"fileExists", "fileExists", "bool"},
		{"DbConfig.Validate", "dbConfigValidate", "err"},
		{"AppConfig.Validate", "appConfigValidate", "err"},
	} {
		fd, ok := decls[it.goName]
		if !ok || fd.Body == nil {
			return "", fmt.Errorf("%s: function %s not found", file, it.goName)
		}
		s := t.function(fd, it.lean)
		if t.err != nil {
			return "", t.err
		}
		if t.result != it.result {
			return "", fmt.Errorf("%s: unsupported: %s returns %s", fset.Position(fd.Pos()), it.goName, t.result)
		}
		b.WriteString("-- config/config.go " + it.goName + "\n" + s + "\n")
		t.funcs[it.goName] = cvFunc{it.lean, strings.TrimSuffix(strings.TrimSuffix(it.goName, fd.Name.Name), "."), it.result}
	}
	b.WriteString("end BHS.Gen.CfgValidate\n")
	return b.String(), nil
}
