package main

// Gen.SqlText: the normalised text of every named SQL string constant in /repo/database/sql/*.go
// (whitespace collapsed, lower-cased outside quotes, trailing semicolon dropped). The chain model transcribes each
// of these statements by hand; Props/SqlShape.lean pins the text each transcription was made from, so an edited
// statement re-opens the obligation of every property whose model reads through it.

import (
	"fmt"
	"go/ast"
	"go/parser"
	"go/token"
	"os"
	"path/filepath"
	"sort"
	"strconv"
	"strings"
)

func init() { register("SqlText", genSqlText) }

func normSQL(s string) string {
	var b strings.Builder
	inQ := false
	prevSpace := true
	for _, r := range s {
		if r == '\'' {
			inQ = !inQ
		}
		if !inQ && (r == ' ' || r == '\n' || r == '\t' || r == '\r') {
			if !prevSpace {
				b.WriteByte(' ')
			}
			prevSpace = true
			continue
		}
		prevSpace = false
		if !inQ && r >= 'A' && r <= 'Z' {
			r += 'a' - 'A'
		}
		b.WriteRune(r)
	}
	out := strings.TrimSpace(b.String())
	out = strings.TrimSuffix(out, ";")
	return strings.TrimSpace(out)
}

func genSqlText() (string, error) {
	type ent struct{ name, text string }
	var es []ent
	files, _ := filepath.Glob(filepath.Join(*repo, "database", "sql", "*.go"))
	files = append(files, filepath.Join(*repo, "database", "export.go"))
	sort.Strings(files)
	for _, p := range files {
		if strings.HasSuffix(p, "_test.go") {
			continue
		}
		if _, err := os.Stat(p); err != nil {
			continue
		}
		fset := token.NewFileSet()
		f, err := parser.ParseFile(fset, p, nil, 0)
		if err != nil {
			return "", err
		}
		for _, d := range f.Decls {
			gd, ok := d.(*ast.GenDecl)
			if !ok || (gd.Tok != token.CONST && gd.Tok != token.VAR) {
				continue
			}
			for _, sp := range gd.Specs {
				vs := sp.(*ast.ValueSpec)
				for i, n := range vs.Names {
					if i >= len(vs.Values) {
						continue
					}
					bl, ok := vs.Values[i].(*ast.BasicLit)
					if !ok || bl.Kind != token.STRING {
						continue
					}
					v, err := strconv.Unquote(bl.Value)
					if err != nil {
						continue
					}
					low := strings.ToLower(v)
					if strings.Contains(low, "select") || strings.Contains(low, "insert") || strings.Contains(low, "update") || strings.Contains(low, "delete") {
						es = append(es, ent{n.Name, normSQL(v)})
					}
				}
			}
		}
	}
	sort.Slice(es, func(i, j int) bool { return es[i].name < es[j].name })
	var b strings.Builder
	b.WriteString(genHeader)
	b.WriteString("namespace BHS.Gen\n\n")
	for _, e := range es {
		fmt.Fprintf(&b, "def sqlText_%s : String := %s\n", e.name, strconv.Quote(e.text))
	}
	b.WriteString("\n/-- (constant name, normalised statement) for every SQL string constant of database/sql -/\ndef sqlTexts : List (String × String) := [\n")
	for i, e := range es {
		sep := ","
		if i == len(es)-1 {
			sep = ""
		}
		fmt.Fprintf(&b, "  (%s, sqlText_%s)%s\n", strconv.Quote(e.name), e.name, sep)
	}
	b.WriteString("]\n\nend BHS.Gen\n")
	return b.String(), nil
}
