module github.com/bitcoin-sv/block-headers-service/verifharness

go 1.24.0

require github.com/bitcoin-sv/block-headers-service v0.0.0

replace github.com/bitcoin-sv/block-headers-service => /repo
