module github.com/bitcoin-sv/block-headers-service/verifharness

go 1.24.0

require (
	github.com/bitcoin-sv/block-headers-service v0.0.0
	github.com/centrifugal/centrifuge v0.34.3
	github.com/centrifugal/centrifuge-go v0.10.4
	github.com/gin-gonic/gin v1.10.0
	github.com/jmoiron/sqlx v1.4.0
	github.com/prometheus/common v0.62.0
	github.com/rs/zerolog v1.33.0
	github.com/spf13/viper v1.19.0
)

require (
	github.com/FZambia/eagle v0.2.0 // indirect
	github.com/KyleBanks/depth v1.2.1 // indirect
	github.com/beorn7/perks v1.0.1 // indirect
	github.com/btcsuite/go-socks v0.0.0-20170105172521-4720035b7bfd // indirect
	github.com/centrifugal/protocol v0.16.0 // indirect
	github.com/cespare/xxhash/v2 v2.3.0 // indirect
	github.com/davecgh/go-spew v1.1.2-0.20180830191138-d8f796af33cc // indirect
	github.com/dchest/uniuri v1.2.0 // indirect
	github.com/dolthub/maphash v0.1.0 // indirect
	github.com/fsnotify/fsnotify v1.7.0 // indirect
	github.com/gabriel-vasile/mimetype v1.4.5 // indirect
	github.com/gammazero/deque v0.2.1 // indirect
	github.com/gin-contrib/sse v0.1.0 // indirect
	github.com/go-openapi/jsonpointer v0.21.0 // indirect
	github.com/go-openapi/jsonreference v0.21.0 // indirect
	github.com/go-openapi/spec v0.21.0 // indirect
	github.com/go-openapi/swag v0.23.0 // indirect
	github.com/go-playground/locales v0.14.1 // indirect
	github.com/go-playground/universal-translator v0.18.1 // indirect
	github.com/go-playground/validator/v10 v10.22.0 // indirect
	github.com/golang-migrate/migrate/v4 v4.18.2 // indirect
	github.com/google/uuid v1.6.0 // indirect
	github.com/gorilla/websocket v1.5.3 // indirect
	github.com/hashicorp/errwrap v1.1.0 // indirect
	github.com/hashicorp/go-multierror v1.1.1 // indirect
	github.com/hashicorp/hcl v1.0.0 // indirect
	github.com/josharian/intern v1.0.0 // indirect
	github.com/jpillora/backoff v1.0.0 // indirect
	github.com/klauspost/compress v1.18.0 // indirect
	github.com/kr/pretty v0.3.1 // indirect
	github.com/kr/text v0.2.0 // indirect
	github.com/leodido/go-urn v1.4.0 // indirect
	github.com/lib/pq v1.10.9 // indirect
	github.com/magiconair/properties v1.8.9 // indirect
	github.com/mailru/easyjson v0.7.7 // indirect
	github.com/mattn/go-colorable v0.1.13 // indirect
	github.com/mattn/go-isatty v0.0.20 // indirect
	github.com/mattn/go-sqlite3 v1.14.24 // indirect
	github.com/maypok86/otter v1.2.4 // indirect
	github.com/mitchellh/mapstructure v1.5.0 // indirect
	github.com/munnerz/goautoneg v0.0.0-20191010083416-a7dc8b61c822 // indirect
	github.com/pelletier/go-toml/v2 v2.2.2 // indirect
	github.com/pkg/errors v0.9.1 // indirect
	github.com/planetscale/vtprotobuf v0.6.0 // indirect
	github.com/prometheus/client_golang v1.21.0 // indirect
	github.com/prometheus/client_model v0.6.1 // indirect
	github.com/prometheus/procfs v0.15.1 // indirect
	github.com/redis/rueidis v1.0.54 // indirect
	github.com/rogpeppe/go-internal v1.12.0 // indirect
	github.com/sagikazarmark/slog-shim v0.1.0 // indirect
	github.com/segmentio/asm v1.2.0 // indirect
	github.com/segmentio/encoding v0.4.1 // indirect
	github.com/shadowspore/fossil-delta v0.0.0-20241213113458-1d797d70cbe3 // indirect
	github.com/spf13/afero v1.11.0 // indirect
	github.com/spf13/cast v1.6.0 // indirect
	github.com/spf13/pflag v1.0.6 // indirect
	github.com/subosito/gotenv v1.6.0 // indirect
	github.com/swaggo/files v1.0.1 // indirect
	github.com/swaggo/gin-swagger v1.6.0 // indirect
	github.com/swaggo/swag v1.16.4 // indirect
	github.com/ugorji/go/codec v1.2.12 // indirect
	github.com/valyala/bytebufferpool v1.0.0 // indirect
	go.elastic.co/ecszerolog v0.2.0 // indirect
	go.uber.org/atomic v1.11.0 // indirect
	golang.org/x/crypto v0.32.0 // indirect
	golang.org/x/net v0.34.0 // indirect
	golang.org/x/sync v0.11.0 // indirect
	golang.org/x/sys v0.29.0 // indirect
	golang.org/x/text v0.21.0 // indirect
	golang.org/x/tools v0.29.0 // indirect
	google.golang.org/protobuf v1.36.5 // indirect
	gopkg.in/ini.v1 v1.67.0 // indirect
	gopkg.in/yaml.v3 v3.0.1 // indirect
)

replace github.com/bitcoin-sv/block-headers-service => /repo
