package lib

import (
	"encoding/json"
	"os"
)

// Known is one entry of KNOWN_FINDINGS.json.
type Known struct {
	ID        string `json:"id"`
	Property  string `json:"property"`
	Kind      string `json:"kind"`
	What      string `json:"what"`
	Signature string `json:"signature"`
	Witness   struct {
		Ops    []string       `json:"ops"`
		Config map[string]any `json:"config"`
	} `json:"witness"`
}

// KnownFor returns the `finding` entries of a property (fixed entries suppress nothing).
func KnownFor(path, prop string) []Known {
	b, err := os.ReadFile(path)
	if err != nil {
		return nil
	}
	var f struct {
		Findings []Known `json:"findings"`
	}
	if json.Unmarshal(b, &f) != nil {
		return nil
	}
	var res []Known
	for _, k := range f.Findings {
		if k.Property == prop && k.Kind == "finding" {
			res = append(res, k)
		}
	}
	return res
}
