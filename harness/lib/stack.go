package lib

import (
	"fmt"
	"io"
	"os"
	"path/filepath"
	"sync"

	"github.com/bitcoin-sv/block-headers-service/config"
	"github.com/bitcoin-sv/block-headers-service/database"
	sqlrepository "github.com/bitcoin-sv/block-headers-service/database/repository"
	"github.com/bitcoin-sv/block-headers-service/database/sql"
	"github.com/bitcoin-sv/block-headers-service/internal/chaincfg"
	"github.com/bitcoin-sv/block-headers-service/internal/chaincfg/chainhash"
	"github.com/bitcoin-sv/block-headers-service/metrics"
	"github.com/bitcoin-sv/block-headers-service/notification"
	"github.com/bitcoin-sv/block-headers-service/repository"
	"github.com/bitcoin-sv/block-headers-service/service"
	"github.com/bitcoin-sv/block-headers-service/transports/http/endpoints"
	httpserver "github.com/bitcoin-sv/block-headers-service/transports/http/server"
	"github.com/gin-gonic/gin"
	"github.com/jmoiron/sqlx"
	"github.com/rs/zerolog"
	"github.com/spf13/viper"
)

// StackOpts configures the real stack a property driver runs against.
type StackOpts struct {
	File        string // SQLite file (created when absent; reopened when present)
	UseAuth     bool
	AdminToken  string
	Profiling   bool
	Excess      int
	MaxTries    int
	Ignore      []*chainhash.Hash                           // Params.HeadersToIgnore
	Checkpoints []chaincfg.Checkpoint                       // config.Checkpoints (nil = one far checkpoint)
	WrapHeaders func(repository.Headers) repository.Headers // decorator (recording / fault injection / scheduler)
	PreparedDb  string                                      // when set: prepared_db=true with this file
	NoEngine    bool
	WebhookCli  notification.WebhookTargetClient // nil = production client
	// Metrics: metrics.enabled=true as cmd/main.go wires it (metrics.EnableMetrics + metrics.Register before the routes:
	// request middleware, NoRoute marker, GET /metrics). EnableMetrics sets a package global that cannot be unset, so a
	// runner that uses this builds and exercises its metrics-off stacks first.
	Metrics bool
}

// Stack is the production stack: SQLite file + database.Init on the working
// tree's migrations + database/sql + database/repository + service + gin engine.
type Stack struct {
	Cfg    *config.AppConfig
	DB     *sqlx.DB
	Store  *sql.HeadersDb
	Repo   *repository.Repositories
	Svc    *service.Services
	Engine *gin.Engine
	File   string
	Log    *zerolog.Logger
}

var cfgMu sync.Mutex

// RepoRoot is the source tree whose non-Go files (migrations) the run uses: /repo, unless bin/check was
// pointed at a modified copy to try a seeded change.
func RepoRoot() string {
	if r := os.Getenv("VERIF_REPO"); r != "" {
		return r
	}
	return "/repo"
}

// WorkDir returns the per-run scratch directory on tmpfs.
func WorkDir() string {
	d := os.Getenv("VERIF_WORK")
	if d == "" {
		d = fmt.Sprintf("/dev/shm/verif-manual-%d", os.Getpid())
	}
	_ = os.MkdirAll(d, 0o755)
	return d
}

// BaseConfig returns the default configuration pointed at the working tree's migrations.
func BaseConfig() *config.AppConfig {
	cfgMu.Lock()
	defer cfgMu.Unlock()
	viper.Reset()
	nop := zerolog.Nop()
	if err := config.SetDefaults("verif", &nop); err != nil {
		panic(err)
	}
	cfg := config.GetDefaultAppConfig()
	cfg.Db.SchemaPath = RepoRoot() + "/database/migrations"
	cfg.Logging.Level = "disabled"
	return cfg
}

// NewStack opens (or creates) the database and wires the services exactly as cmd/main.go does.
func NewStack(o StackOpts) (*Stack, error) {
	cfg := BaseConfig()
	cfg.Db.SQLite.FilePath = o.File
	cfg.HTTP.UseAuth = o.UseAuth
	if o.AdminToken != "" {
		cfg.HTTP.AuthToken = o.AdminToken
	}
	cfg.HTTP.ProfilingEndpointsEnabled = o.Profiling
	cfg.MerkleRoot.MaxBlockHeightExcess = o.Excess
	if o.MaxTries > 0 {
		cfg.Webhook.MaxTries = o.MaxTries
	}
	if o.PreparedDb != "" {
		cfg.Db.PreparedDb = true
		cfg.Db.PreparedDbFilePath = o.PreparedDb
	}
	if o.Checkpoints != nil {
		config.Checkpoints = o.Checkpoints
	} else {
		config.Checkpoints = []chaincfg.Checkpoint{{Height: 1 << 30, Hash: &chainhash.Hash{}}}
	}
	chaincfg.MainNetParams.HeadersToIgnore = o.Ignore
	// the service's default is logging.level=debug: every log statement is evaluated (arguments formatted, Stringers
	// called) as in production; only the bytes go nowhere. A disabled logger would skip that code.
	log := DiscardLog()
	gin.SetMode(gin.ReleaseMode)
	if o.Metrics {
		if cfg.Metrics != nil {
			cfg.Metrics.Enabled = true
		}
		if _, on := metrics.Get(); !on {
			metrics.EnableMetrics()
		}
	}
	db, err := database.Init(cfg, &log)
	if err != nil {
		return nil, fmt.Errorf("database.Init: %w", err)
	}
	store := sql.NewHeadersDb(db, &log)
	var headers repository.Headers = sqlrepository.NewHeadersRepository(store)
	if o.WrapHeaders != nil {
		headers = o.WrapHeaders(headers)
	}
	repo := &repository.Repositories{
		Headers:  headers,
		Tokens:   sqlrepository.NewTokensRepository(store),
		Webhooks: sqlrepository.NewWebhooksRepository(store),
	}
	svc := service.NewServices(service.Dept{Repositories: repo, Peers: nil, AdminToken: cfg.HTTP.AuthToken, Logger: &log, Config: cfg})
	if o.WebhookCli != nil {
		svc.Webhooks = notification.NewWebhooksService(repo.Webhooks, o.WebhookCli, &log, cfg.Webhook)
	}
	s := &Stack{Cfg: cfg, DB: db, Store: store, Repo: repo, Svc: svc, File: o.File, Log: &log}
	if !o.NoEngine {
		server := httpserver.NewHTTPServer(cfg.HTTP, &log)
		if o.Metrics {
			server.ApplyConfiguration(metrics.Register)
		}
		server.ApplyConfiguration(endpoints.SetupRoutes(svc, cfg.HTTP))
		server.ApplyConfiguration(func(e *gin.Engine) { s.Engine = e })
	}
	return s, nil
}

// Close closes the database handle (the file stays).
func (s *Stack) Close() {
	if s.DB != nil {
		_ = s.DB.Close()
	}
}

// TempDB returns a fresh database path in the work directory.
func TempDB(name string) string {
	p := filepath.Join(WorkDir(), name)
	_ = os.Remove(p)
	_ = os.Remove(p + "-journal")
	return p
}

// DiscardLog is the logger the runners hand to the code under check: debug level (the service's default), so that
// every log statement is evaluated as in production, with the output discarded.
func DiscardLog() zerolog.Logger { return zerolog.New(io.Discard).Level(zerolog.DebugLevel) }
