// Package lib holds what all property drivers share: the client of the Lean
// model driver (line protocol), the result record, the seeded PRNG.
package lib

import (
	"bufio"
	"fmt"
	"io"
	"os"
	"os/exec"
	"time"
)

// Lean is a running instance of the Lean model driver (bhsdriver).
type Lean struct {
	// Stub: no model driver is available (the Lean model no longer builds against the regenerated modules);
	// every question is answered "no-model" so that the implementation side and the Go oracle still run.
	Stub bool
	cmd  *exec.Cmd
	in   io.WriteCloser
	w    *bufio.Writer
	out  *bufio.Reader
	Ops  int
}

// StartLean starts the driver executable.
func StartLean(path string) (*Lean, error) {
	if path == "none" || path == "" {
		return &Lean{Stub: true}, nil
	}
	cmd := exec.Command(path)
	in, err := cmd.StdinPipe()
	if err != nil {
		return nil, err
	}
	out, err := cmd.StdoutPipe()
	if err != nil {
		return nil, err
	}
	cmd.Stderr = os.Stderr
	if err := cmd.Start(); err != nil {
		return nil, err
	}
	return &Lean{cmd: cmd, in: in, w: bufio.NewWriterSize(in, 1<<16), out: bufio.NewReaderSize(out, 1<<20)}, nil
}

// answerLimit bounds the wait for ONE answer line: a model driver that stops answering (or a protocol that lost
// step) must end the run with an error, never hang it.
const answerLimit = 10 * time.Minute

func (l *Lean) readLine() (string, error) {
	t := time.AfterFunc(answerLimit, func() {
		if l.cmd != nil && l.cmd.Process != nil {
			_ = l.cmd.Process.Kill()
		}
	})
	s, err := l.out.ReadString('\n')
	t.Stop()
	if err != nil {
		return "", fmt.Errorf("lean driver gave no answer line (killed after %s without one, or exited): %w", answerLimit, err)
	}
	return s[:len(s)-1], nil
}

// Ask sends one operation line and returns the model's answer line.
func (l *Lean) Ask(line string) (string, error) {
	if l.Stub {
		return "no-model", nil
	}
	l.Ops++
	if _, err := l.w.WriteString(line + "\n"); err != nil {
		return "", err
	}
	if err := l.w.Flush(); err != nil {
		return "", err
	}
	return l.readLine()
}

// AskBatch sends many lines and returns the answers (writer runs concurrently
// so that large batches do not deadlock on the pipes).
func (l *Lean) AskBatch(lines []string) ([]string, error) {
	if l.Stub {
		res := make([]string, len(lines))
		for i := range res {
			res[i] = "no-model"
		}
		return res, nil
	}
	l.Ops += len(lines)
	errc := make(chan error, 1)
	go func() {
		for _, s := range lines {
			if _, err := l.w.WriteString(s + "\n"); err != nil {
				errc <- err
				return
			}
		}
		errc <- l.w.Flush()
	}()
	res := make([]string, 0, len(lines))
	for range lines {
		s, err := l.readLine()
		if err != nil {
			return res, err
		}
		res = append(res, s)
	}
	return res, <-errc
}

// Close ends the driver.
func (l *Lean) Close() {
	if l.Stub {
		return
	}
	_ = l.in.Close()
	_ = l.cmd.Wait()
}
