package lib

import (
	"encoding/json"
	"os"
)

// Replay is the replay-file format named in VIOLATION lines.
type Replay struct {
	Property string         `json:"property"`
	Kind     string         `json:"kind"` // failing-input | no-failing-input-found
	Ops      []string       `json:"ops,omitempty"`
	Config   map[string]any `json:"config,omitempty"`
	Expected string         `json:"expected,omitempty"`
	Observed string         `json:"observed,omitempty"`
	What     string         `json:"what,omitempty"`
	Broken   any            `json:"broken,omitempty"`
}

// ReadReplayOps returns the operation lines of a replay file.
func ReadReplayOps(path string) ([]string, error) {
	b, err := os.ReadFile(path)
	if err != nil {
		return nil, err
	}
	var r Replay
	if err := json.Unmarshal(b, &r); err != nil {
		return nil, err
	}
	return r.Ops, nil
}
