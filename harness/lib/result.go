package lib

import (
	"crypto/sha256"
	"encoding/hex"
	"encoding/json"
	"math/rand"
	"os"
	"sort"
	"sync"
)

// Disagreement is one operation on which implementation and model differ.
type Disagreement struct {
	Case  string   `json:"case"`
	Ops   []string `json:"ops,omitempty"`
	Op    string   `json:"op"`
	Impl  string   `json:"impl"`
	Model string   `json:"model"`
}

// Failure is an input on which the property itself fails on the implementation
// (found by the Go oracle, an independent statement of the property).
type Failure struct {
	Case      string         `json:"case"`
	Ops       []string       `json:"ops,omitempty"`
	What      string         `json:"what"`
	Expected  string         `json:"expected,omitempty"`
	Observed  string         `json:"observed,omitempty"`
	Signature string         `json:"signature"` // matched against KNOWN_FINDINGS.json
	Extra     map[string]any `json:"extra,omitempty"`
}

// Result is what a property driver reports to bin/check.
type Result struct {
	mu                 sync.Mutex
	Property           string            `json:"property"`
	Tier               string            `json:"tier"`
	Seed               int64             `json:"seed"`
	Evaluations        int               `json:"evaluations"`
	DistinctNontrivial int               `json:"distinct_nontrivial"`
	Rule               string            `json:"rule"`
	Samples            []any             `json:"samples"`
	Distribution       map[string]int    `json:"distribution"`
	ModelOps           int               `json:"model_ops"`
	TracesValidated    int               `json:"traces_validated_against_impl"`
	Disagreements      []Disagreement    `json:"disagreements"`
	OracleChecked      int               `json:"oracle_checked"`
	Failures           []Failure         `json:"failures"`
	FailureCounts      map[string]int    `json:"failure_counts"`
	KnownReplayed      map[string]string `json:"known_findings_replayed"` // finding id -> "reproduced" | "not-reproduced"
	Notes              []string          `json:"notes,omitempty"`
	Exhaustive         bool              `json:"exhaustive"`
	NoModel            bool              `json:"no_model"` // the model driver was not available: disagreements are not recorded
	seen               map[string]bool
}

// NewResult makes an empty record.
func NewResult(prop, tier string, seed int64) *Result {
	return &Result{Property: prop, Tier: tier, Seed: seed, Distribution: map[string]int{}, KnownReplayed: map[string]string{}, FailureCounts: map[string]int{},
		seen: map[string]bool{}, Disagreements: []Disagreement{}, Failures: []Failure{}, Samples: []any{}}
}

// Count increments a distribution counter.
func (r *Result) Count(key string, n int) {
	r.mu.Lock()
	r.Distribution[key] += n
	r.mu.Unlock()
}

// Case records one evaluated case; nontrivial cases are counted once per distinct key.
func (r *Result) Case(key string, nontrivial bool) {
	r.mu.Lock()
	defer r.mu.Unlock()
	r.Evaluations++
	if !nontrivial {
		return
	}
	h := sha256.Sum256([]byte(key))
	k := hex.EncodeToString(h[:12])
	if !r.seen[k] {
		r.seen[k] = true
		r.DistinctNontrivial++
	}
}

// Sample keeps up to max samples.
func (r *Result) Sample(v any, max int) {
	r.mu.Lock()
	if len(r.Samples) < max {
		r.Samples = append(r.Samples, v)
	}
	r.mu.Unlock()
}

// Disagree records a correspondence failure (at most 20 are kept).
func (r *Result) Disagree(d Disagreement) {
	if r.NoModel {
		return
	}
	r.mu.Lock()
	if len(r.Disagreements) < 20 {
		r.Disagreements = append(r.Disagreements, d)
	}
	r.mu.Unlock()
}

// Fail records a property failure on the implementation (at most 50 are kept).
func (r *Result) Fail(f Failure) {
	r.mu.Lock()
	defer r.mu.Unlock()
	// at most 4 per signature, so that a frequent (e.g. known) failure cannot crowd out another one
	n := 0
	for _, g := range r.Failures {
		if g.Signature == f.Signature {
			n++
		}
	}
	r.FailureCounts[f.Signature]++
	if n < 4 && len(r.Failures) < 60 {
		r.Failures = append(r.Failures, f)
	}
}

// Write stores the record as JSON.
func (r *Result) Write(path string) error {
	r.mu.Lock()
	defer r.mu.Unlock()
	sort.Slice(r.Failures, func(i, j int) bool { return len(r.Failures[i].Ops) < len(r.Failures[j].Ops) })
	b, err := json.MarshalIndent(r, "", " ")
	if err != nil {
		return err
	}
	return os.WriteFile(path, b, 0o644)
}

// Rng returns the PRNG all random choices of a run derive from.
func Rng(seed int64, stream string) *rand.Rand {
	h := sha256.Sum256([]byte(stream))
	var s int64
	for i := 0; i < 8; i++ {
		s = s<<8 | int64(h[i])
	}
	return rand.New(rand.NewSource(seed ^ s))
}
