//go:build verif

// Verification hooks compiled INTO package peer of the experimental engine
// (/repo/internal/transports/p2p/peer) through `go build -overlay`. Read-only
// accessors for the C06/C07 rig; nothing here changes behaviour.
package peer

// VerifQuitting reports whether Disconnect has been called on the peer.
func (p *Peer) VerifQuitting() bool { return p.quitting }

// VerifSendHeadersMode reports whether `sendheaders` has been sent.
func (p *Peer) VerifSendHeadersMode() bool { return p.sendHeadersMode }

// VerifSyncedCheckpoints reports the flag that gates inv / getheaders handling.
func (p *Peer) VerifSyncedCheckpoints() bool { return p.syncedCheckpoints }

// VerifCheckpointHeight is the height of the checkpoint sync is heading for (-1 = none / not started).
func (p *Peer) VerifCheckpointHeight() int32 {
	if p.checkpoint == nil {
		return -1
	}
	return p.checkpoint.Height()
}

// VerifLatestHeight is the peer height used by isSynced.
func (p *Peer) VerifLatestHeight() int32 {
	h, _ := p.getLatestStats()
	return h
}
