//go:build verif

// Verification hooks compiled INTO package p2psync through `go build -overlay`
// (see /verif/harness/overlay/overlay.json). Nothing here changes behaviour: thin
// exported wrappers around the unexported message types of the block handler, used
// by the C06/C07 rig (/verif/harness/cmd/drive/c06_*.go) to
//   - wait until the handler has processed everything queued so far (barrier),
//   - read the sync state while the handler is paused,
//   - run the real handleCheckSyncPeer with an advanced clock (the 30 s ticker
//     constant and the 3 min limit themselves are untouched).
package p2psync

import (
	"runtime"
	"time"
)

// VerifState is a snapshot of the sync state machine.
type VerifState struct {
	HasSyncPeer      bool
	SyncPeerID       int32
	HeadersFirst     bool
	NextCheckpoint   int32 // height, -1 = none
	Peers            int
	Candidates       int
	CandidateIDs     []int32
	KnownPeerIDs     []int32
	SyncPeerLastSeen time.Duration // time since syncPeerState.lastBlockTime (0 when no sync peer)
}

// VerifBarrier returns after the block handler has processed every message that was
// queued before the call (the handler is single-threaded and the channel is FIFO).
func (sm *SyncManager) VerifBarrier() {
	reply := make(chan int32)
	sm.msgChan <- getSyncPeerMsg{reply: reply}
	<-reply
}

// VerifSyncPeerID asks the handler for the current sync peer (0 = none), as the RPC
// of the original btcd code does.
func (sm *SyncManager) VerifSyncPeerID() int32 {
	reply := make(chan int32)
	sm.msgChan <- getSyncPeerMsg{reply: reply}
	return <-reply
}

// verifPaused runs f while the block handler sits in its pauseMsg case.
func (sm *SyncManager) verifPaused(f func()) {
	unpause := make(chan struct{})
	sm.msgChan <- pauseMsg{unpause: unpause}
	// the handler has taken the pause message once the queue is empty again; from then
	// on it only waits for `unpause`
	// (callers use this at quiescent points only: nobody else is queueing messages, so an
	// empty queue means exactly "the pause message has been dequeued"; the cap is a
	// failsafe against a caller that violates this)
	for i := 0; len(sm.msgChan) != 0 && i < 200000; i++ {
		runtime.Gosched()
		time.Sleep(20 * time.Microsecond)
	}
	// one more hand-shake so that the handler is past the dequeue
	time.Sleep(50 * time.Microsecond)
	defer close(unpause)
	f()
}

// VerifPaused runs f while the block handler is held in its pauseMsg case (a deterministic stand-in for "the
// handler is busy with another peer's batch"): messages queued meanwhile are handled, in order, after f returns.
func (sm *SyncManager) VerifPaused(f func()) { sm.verifPaused(f) }

// VerifSnapshot reads the state machine under pause.
func (sm *SyncManager) VerifSnapshot() VerifState {
	var st VerifState
	sm.verifPaused(func() {
		st.HeadersFirst = sm.headersFirstMode
		st.NextCheckpoint = -1
		if sm.nextCheckpoint != nil {
			st.NextCheckpoint = sm.nextCheckpoint.Height
		}
		if sm.syncPeer != nil {
			st.HasSyncPeer = true
			st.SyncPeerID = sm.syncPeer.ID()
			if sm.syncPeerState != nil {
				st.SyncPeerLastSeen = time.Since(sm.syncPeerState.lastBlockTime)
			}
		}
		st.Peers = len(sm.peerStates)
		for p, s := range sm.peerStates {
			st.KnownPeerIDs = append(st.KnownPeerIDs, p.ID())
			if s.SyncCandidate {
				st.Candidates++
				st.CandidateIDs = append(st.CandidateIDs, p.ID())
			}
		}
	})
	return st
}

// VerifTick runs the real handleCheckSyncPeer as the ticker case of blockHandler does,
// after letting `advance` of wall-clock time "pass" for the sync peer (the code compares
// time.Since(lastBlockTime) with maxLastBlockTime, so moving lastBlockTime back by
// `advance` is the same as the clock having advanced).
func (sm *SyncManager) VerifTick(advance time.Duration) {
	sm.verifPaused(func() {
		if sm.syncPeerState != nil {
			sm.syncPeerState.lastBlockTime = sm.syncPeerState.lastBlockTime.Add(-advance)
		}
		sm.handleCheckSyncPeer()
	})
}

// VerifMaxLastBlockTime is the constant handleCheckSyncPeer compares with.
func VerifMaxLastBlockTime() time.Duration { return maxLastBlockTime }
