//go:build verif

// Verification hooks compiled INTO package addrmgr through `go build -overlay`: read-only
// views of the address manager's bookkeeping (and a clock shift for the ban table).
package addrmgr

import (
	"sort"
	"time"

	"github.com/bitcoin-sv/block-headers-service/internal/wire"
)

// VerifKA is one addrIndex entry.
type VerifKA struct {
	Refs  int
	Tried bool
}

// VerifAMSnap is a copy of the bookkeeping.
type VerifAMSnap struct {
	NNew, NTried int
	Index        map[string]VerifKA
	New          [][2]string // (bucket, address key), sorted
	Tried        [][2]string // (bucket, address key), bucket order then list order
	NewInts      []int
	TriedInts    []int
	BannedFor    map[string]time.Duration
}

// VerifSnap copies the state; ok=false when the manager's mutex is held (a hung GetAddress).
func VerifSnap(a *AddrManager) (s VerifAMSnap, ok bool) {
	if !a.mtx.TryLock() {
		return s, false
	}
	defer a.mtx.Unlock()
	s.NNew, s.NTried = a.nNew, a.nTried
	s.Index = map[string]VerifKA{}
	for k, ka := range a.addrIndex {
		s.Index[k] = VerifKA{Refs: ka.refs, Tried: ka.tried}
	}
	for b, m := range a.addrNew {
		var keys []string
		for k := range m {
			keys = append(keys, k)
		}
		sort.Strings(keys)
		for _, k := range keys {
			s.New = append(s.New, [2]string{"", k})
			s.NewInts = append(s.NewInts, b)
		}
	}
	for b, l := range a.addrTried {
		for e := l.Front(); e != nil; e = e.Next() {
			s.Tried = append(s.Tried, [2]string{"", NetAddressKey(e.Value.(*KnownAddress).na)})
			s.TriedInts = append(s.TriedInts, b)
		}
	}
	s.BannedFor = map[string]time.Duration{}
	now := time.Now()
	for k, t := range a.addrBanned {
		s.BannedFor[k] = t.Sub(now)
	}
	return s, true
}

// VerifNewBucket is getNewBucket (pure in the manager's key).
func VerifNewBucket(a *AddrManager, na, src *wire.NetAddress) int { return a.getNewBucket(na, src) }

// VerifTriedBucket is getTriedBucket.
func VerifTriedBucket(a *AddrManager, na *wire.NetAddress) int { return a.getTriedBucket(na) }

// VerifAdvanceClock lets d of wall-clock time pass for the ban table (the code compares the
// stored expiry with time.Now()).
func VerifAdvanceClock(a *AddrManager, d time.Duration) {
	a.mtx.Lock()
	defer a.mtx.Unlock()
	for k, t := range a.addrBanned {
		a.addrBanned[k] = t.Add(-d)
	}
}

// VerifBanTime is the ban duration constant.
func VerifBanTime() time.Duration { return banTime }

// VerifNewBucketsPerAddress is the cap on refs.
func VerifNewBucketsPerAddress() int { return newBucketsPerAddress }
