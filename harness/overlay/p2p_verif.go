//go:build verif

// Verification hooks compiled INTO package p2p through `go build -overlay`
// (see /verif/harness/overlay/overlay.json). Nothing here changes behaviour:
// thin exported wrappers around the unexported admission handlers and the
// peerState they work on, so that /verif/harness can call the real code.
package p2p

import (
	"net"
	"sort"
	"sync/atomic"
	"time"

	"github.com/bitcoin-sv/block-headers-service/config"
	"github.com/bitcoin-sv/block-headers-service/transports/p2p/addrmgr"
	"github.com/bitcoin-sv/block-headers-service/internal/chaincfg"
	"github.com/bitcoin-sv/block-headers-service/service"
	"github.com/bitcoin-sv/block-headers-service/transports/p2p/connmgr"
	"github.com/bitcoin-sv/block-headers-service/transports/p2p/p2psync"
	"github.com/bitcoin-sv/block-headers-service/transports/p2p/peer"
	"github.com/rs/zerolog"
)

type (
	// VerifServer is the p2p server type.
	VerifServer = server
	// VerifPeerState is the admission bookkeeping of peerHandler.
	VerifPeerState = peerState
	// VerifServerPeer is the server's per-peer record.
	VerifServerPeer = serverPeer
)

// VerifNewServer builds only what the three handlers read from a server:
// shutdown flag, p2pConfig.BanDuration, log, addrManager (handleDonePeerMsg).
func VerifNewServer(banDuration time.Duration, log *zerolog.Logger) *VerifServer {
	return &server{
		addrManager: addrmgr.New(func(string) ([]net.IP, error) { return nil, nil }, log),
		p2pConfig:   &config.P2PConfig{BanDuration: banDuration},
		log:         log,
	}
}

// VerifNewInboundServer builds what newServer builds minus listeners and connection manager:
// enough for the real inbound peer path (inboundPeerConnected -> peer.Peer -> serverPeer
// callbacks) with the real sync manager over the given services. The sync manager is started.
func VerifNewInboundServer(svc *service.Services, peers map[*peer.Peer]*peer.SyncState, p2pCfg *config.P2PConfig,
	params *chaincfg.Params, log *zerolog.Logger) (*VerifServer, error) {
	s := &server{
		startupTime:       time.Now().Unix(),
		chainParams:       params,
		addrManager:       addrmgr.New(func(string) ([]net.IP, error) { return nil, nil }, log),
		newPeers:          make(chan *serverPeer, config.MaxPeers),
		donePeers:         make(chan *serverPeer, config.MaxPeers),
		banPeers:          make(chan *peer.Peer, config.MaxPeers),
		query:             make(chan interface{}),
		relayInv:          make(chan relayMsg, config.MaxPeers),
		broadcast:         make(chan broadcastMsg, config.MaxPeers),
		quit:              make(chan struct{}),
		peerHeightsUpdate: make(chan updatePeerHeightsMsg),
		timeSource:        config.TimeSource,
		wireServices:      defaultServices,
		p2pConfig:         p2pCfg,
		log:               log,
	}
	sm, err := p2psync.New(&p2psync.Config{
		PeerNotifier:              s,
		ChainParams:               params,
		DisableCheckpoints:        true,
		MaxPeers:                  config.MaxPeers,
		MinSyncPeerNetworkSpeed:   config.MinSyncPeerNetworkSpeed,
		BlocksForForkConfirmation: p2pCfg.BlocksForForkConfirmation,
		Logger:                    log,
		Services:                  svc,
		Checkpoints:               config.Checkpoints,
	}, peers)
	if err != nil {
		return nil, err
	}
	s.syncManager = sm
	sm.Start()
	return s, nil
}

// VerifInboundPeerConnected is what connmgr's OnAccept is wired to.
func VerifInboundPeerConnected(s *VerifServer, conn net.Conn, log *zerolog.Logger) {
	s.inboundPeerConnected(conn, log)
}

// VerifStopInboundServer stops the sync manager started by VerifNewInboundServer.
func VerifStopInboundServer(s *VerifServer) { s.syncManager.Stop() }

// VerifNewPeerState is the literal from peerHandler.
func VerifNewPeerState() *VerifPeerState {
	return &peerState{
		inboundPeers:    make(map[int32]*serverPeer),
		persistentPeers: make(map[int32]*serverPeer),
		outboundPeers:   make(map[int32]*serverPeer),
		banned:          make(map[string]time.Time),
		outboundGroups:  make(map[string]int),
		connectionCount: make(map[string]int),
	}
}

// VerifNewServerPeer is newServerPeer + `sp.Peer = p` as in inbound/outboundPeerConnected.
func VerifNewServerPeer(s *VerifServer, p *peer.Peer, persistent bool, log *zerolog.Logger) *VerifServerPeer {
	sp := newServerPeer(s, persistent, log)
	sp.Peer = p
	return sp
}

// VerifSetConnManager wires a connection manager into the server, as newServer does.
func VerifSetConnManager(s *VerifServer, cm *connmgr.ConnManager) { s.connManager = cm }

// VerifSetConnReq is `sp.connReq = c` of outboundPeerConnected.
func VerifSetConnReq(sp *VerifServerPeer, c *connmgr.ConnReq) { sp.connReq = c }

// VerifAddPeer calls handleAddPeerMsg.
func VerifAddPeer(s *VerifServer, st *VerifPeerState, sp *VerifServerPeer) bool {
	return s.handleAddPeerMsg(st, sp)
}

// VerifDonePeer calls handleDonePeerMsg.
func VerifDonePeer(s *VerifServer, st *VerifPeerState, sp *VerifServerPeer) { s.handleDonePeerMsg(st, sp) }

// VerifBanPeer calls handleBanPeerMsg.
func VerifBanPeer(s *VerifServer, st *VerifPeerState, p *peer.Peer) { s.handleBanPeerMsg(st, p) }

// VerifSetShutdown is what Stop does to the flag handleAddPeerMsg reads.
func VerifSetShutdown(s *VerifServer) { atomic.AddInt32(&s.shutdown, 1) }

// VerifAdvanceClock lets d of wall-clock time "pass" for the ban table: the code
// compares time.Now() with the stored expiry, so moving every expiry back by d is
// the same as the clock having advanced by d.
func VerifAdvanceClock(st *VerifPeerState, d time.Duration) {
	for h, t := range st.banned {
		st.banned[h] = t.Add(-d)
	}
}

// VerifPeerInfo is one entry of a peer map.
type VerifPeerInfo struct {
	ID    int32
	Addr  string
	Group string
}

// VerifSnapshot is a copy of the whole peerState.
type VerifSnapshot struct {
	Inbound, Outbound, Persistent []VerifPeerInfo
	Count                         int
	ConnectionCount               map[string]int
	OutboundGroups                map[string]int
	BannedFor                     map[string]time.Duration // remaining (may be <= 0: expired, not yet deleted)
}

func verifList(m map[int32]*serverPeer) []VerifPeerInfo {
	res := make([]VerifPeerInfo, 0, len(m))
	for id, sp := range m {
		g := ""
		if sp.NA() != nil {
			g = addrmgr.GroupKey(sp.NA())
		}
		res = append(res, VerifPeerInfo{ID: id, Addr: sp.Addr(), Group: g})
	}
	sort.Slice(res, func(i, j int) bool { return res[i].ID < res[j].ID })
	return res
}

// VerifSnap copies the state.
func VerifSnap(st *VerifPeerState) VerifSnapshot {
	s := VerifSnapshot{
		Inbound: verifList(st.inboundPeers), Outbound: verifList(st.outboundPeers), Persistent: verifList(st.persistentPeers),
		Count:           st.Count(),
		ConnectionCount: map[string]int{}, OutboundGroups: map[string]int{}, BannedFor: map[string]time.Duration{},
	}
	for k, v := range st.connectionCount {
		s.ConnectionCount[k] = v
	}
	for k, v := range st.outboundGroups {
		s.OutboundGroups[k] = v
	}
	now := time.Now()
	for k, v := range st.banned {
		s.BannedFor[k] = v.Sub(now)
	}
	return s
}

// VerifCountIP is peerState.CountIP.
func VerifCountIP(st *VerifPeerState, host string) int { return st.CountIP(host) }
