//go:build verif

// C06/C07 rig: the REAL serverPeer listeners that feed the sync manager (serverpeer.go OnInv, OnHeaders), callable with a
// sync manager the rig built itself. Nothing here changes behaviour: a serverPeer value carrying only what the two
// methods read (sp.server.syncManager, sp.Peer) is built per call and the unchanged method is invoked.
package p2p

import (
	"github.com/bitcoin-sv/block-headers-service/internal/wire"
	"github.com/bitcoin-sv/block-headers-service/transports/p2p/p2psync"
	"github.com/bitcoin-sv/block-headers-service/transports/p2p/peer"
)

// VerifSyncOnInv is serverPeer.OnInv of a peer whose server owns this sync manager.
func VerifSyncOnInv(sm *p2psync.SyncManager) func(*peer.Peer, *wire.MsgInv) {
	srv := &server{syncManager: sm}
	return func(p *peer.Peer, msg *wire.MsgInv) {
		sp := &serverPeer{server: srv, Peer: p}
		sp.OnInv(p, msg)
	}
}

// VerifSyncOnHeaders is serverPeer.OnHeaders of a peer whose server owns this sync manager.
func VerifSyncOnHeaders(sm *p2psync.SyncManager) func(*peer.Peer, *wire.MsgHeaders) {
	srv := &server{syncManager: sm}
	return func(p *peer.Peer, msg *wire.MsgHeaders) {
		sp := &serverPeer{server: srv, Peer: p}
		sp.OnHeaders(p, msg)
	}
}
